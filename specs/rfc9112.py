"""Independent, strict reference reading of an HTTP/1.x request stream (RFC 9112 / RFC 9110), written from the RFCs and not
from gunicorn's code. Pure functions over bytes. Used as the oracle of the bounded stand-ins and of counter-example replays.

parse_stream(data, limits) -> list of events:
    ("request", {method, target, version, headers:[(NAME, value)], body, trailers, start, end, complete})
    ("reject", reason, offset)      the stream is malformed / ambiguous from `offset` on: nothing further may be accepted
    ("eof",)                        clean end of stream between requests
    ("incomplete", offset)          the stream ended inside a request head
"""
TCHAR = set(b"!#$%&'*+-.^_`|~0123456789ABCDEFGHIJKLMNOPQRSTUVWXYZabcdefghijklmnopqrstuvwxyz")
HEXDIG = set(b"0123456789abcdefABCDEF")
DIGIT = set(b"0123456789")
OWS = b" \t"
# "identity" is no longer a registered transfer coding (RFC 9112 7); it is accepted here as a no-op coding because a reader
# that ignores it and a reader that rejects it cannot frame the message differently (deliberate leniency, see DESIGN)
KNOWN_CODINGS = {"chunked", "compress", "deflate", "gzip", "identity"}


class Reject(Exception):
    def __init__(self, reason, offset):
        Exception.__init__(self, reason)
        self.reason = reason
        self.offset = offset


class Incomplete(Exception):
    def __init__(self, offset):
        self.offset = offset


def is_token(b):
    return len(b) > 0 and all(c in TCHAR for c in b)


def parse_request_line(data, p):
    e = data.find(b"\r\n", p)
    if e < 0:
        raise Incomplete(p)
    line = data[p:e]
    parts = line.split(b" ")
    if len(parts) != 3:
        raise Reject("request-line-shape", p)
    method, target, version = parts
    if not is_token(method):
        raise Reject("method-not-token", p)
    if len(target) == 0:
        raise Reject("empty-target", p)
    if len(version) != 8 or version[:5] != b"HTTP/" or version[5] not in DIGIT or version[6:7] != b"." or version[7] not in DIGIT:
        raise Reject("bad-version", p)
    return method, target, (version[5] - 48, version[7] - 48), e + 2


def parse_field_lines(data, p, what="header"):
    """field lines from p up to the empty line; returns (fields, position after the empty line)"""
    fields = []
    while True:
        e = data.find(b"\r\n", p)
        if e < 0:
            raise Incomplete(p)
        line = data[p:e]
        if line == b"":
            return fields, e + 2
        if line[0:1] in (b" ", b"\t"):
            raise Reject("obs-fold", p)
        c = line.find(b":")
        if c <= 0:
            raise Reject("%s-without-colon-or-empty-name" % what, p)
        name = line[:c]
        if not is_token(name):
            raise Reject("%s-name-not-token" % what, p)     # includes whitespace before the colon
        value = line[c + 1:].strip(OWS)
        if any(ch in (0, 10, 13) for ch in value):
            raise Reject("%s-value-NUL-CR-LF" % what, p)
        fields.append((name.decode("latin-1").upper(), value.decode("latin-1")))
        p = e + 2


def framing(fields, version, p):
    cls = [v for (n, v) in fields if n == "CONTENT-LENGTH"]
    tes = [v for (n, v) in fields if n == "TRANSFER-ENCODING"]
    if tes:
        codings = []
        for v in tes:
            for el in v.split(","):
                el = el.strip(" \t")
                if not is_token(el.encode("latin-1")):
                    raise Reject("te-element-not-token", p)
                if el.lower() not in KNOWN_CODINGS:
                    raise Reject("te-unknown-coding", p)
                codings.append(el.lower())
        if codings.count("chunked") > 1:
            raise Reject("te-chunked-repeated", p)
        if codings[-1] != "chunked":
            raise Reject("te-without-final-chunked", p)
        if version < (1, 1):
            raise Reject("te-on-http-1.0", p)
        if cls:
            raise Reject("cl-and-te", p)
        return ("chunked", None)
    if cls:
        if len(cls) > 1:
            raise Reject("cl-repeated", p)
        v = cls[0].encode("latin-1")
        if len(v) == 0 or any(c not in DIGIT for c in v):
            raise Reject("cl-not-digits", p)
        return ("length", int(v))
    return ("length", 0)


def parse_chunked(data, p):
    """-> (body, trailers, end, complete)"""
    body = b""
    while True:
        e = data.find(b"\r\n", p)
        if e < 0:
            return body, [], len(data), False
        line = data[p:e]
        semi = line.find(b";")
        size_part = line if semi < 0 else line[:semi].rstrip(OWS)
        if len(size_part) == 0 or any(c not in HEXDIG for c in size_part):
            raise Reject("chunk-size-not-hex", p)
        if semi >= 0:
            ext = line[semi:]
            # chunk-ext = *( BWS ";" BWS chunk-ext-name [ BWS "=" BWS chunk-ext-val ] ): what matters for framing is that
            # no peer can see a line end inside it: no bare CR / LF (and no NUL); other octets do not change the framing
            if any(c in (0, 10, 13) for c in ext):
                raise Reject("chunk-ext-invalid-char", p)
        size = int(size_part, 16)
        p = e + 2
        if size == 0:
            try:
                trailers, end = parse_field_lines(data, p, "trailer")
            except Incomplete:
                return body, [], len(data), False
            return body, trailers, end, True
        if p + size > len(data):
            return body + data[p:], [], len(data), False
        body += data[p:p + size]
        p += size
        if len(data) < p + 2:
            if data[p:p + 2] == b"\r\n"[:len(data) - p]:
                return body, [], len(data), False
            raise Reject("chunk-missing-terminator", p)
        if data[p:p + 2] != b"\r\n":
            raise Reject("chunk-missing-terminator", p)
        p += 2


def parse_stream(data, max_requests=50):
    events = []
    p = 0
    try:
        for _ in range(max_requests):
            if p >= len(data):
                events.append(("eof",))
                return events
            start = p
            method, target, version, p = parse_request_line(data, p)
            fields, p = parse_field_lines(data, p)
            kind, n = framing(fields, version, start)
            trailers = []
            body_reject = None
            if kind == "chunked":
                try:
                    body, trailers, end, complete = parse_chunked(data, p)
                except Reject as r:
                    # the head is well-formed (the application may already have been called); the BODY is malformed:
                    # reading it must fail and nothing after it may be accepted
                    body, trailers, end, complete, body_reject = b"", [], r.offset, False, r.reason
            else:
                body = data[p:p + n]
                end = p + len(body)
                complete = len(body) == n
            events.append(("request", dict(method=method.decode("latin-1"), target=target.decode("latin-1"), version=version,
                                           headers=fields, body=body, trailers=trailers, start=start, end=end,
                                           complete=complete, framing=kind, body_reject=body_reject)))
            if not complete:
                return events
            p = end
            # RFC 9112 9.3/9.6 persistence is the server's decision; the reference keeps reading
    except Reject as r:
        events.append(("reject", r.reason, r.offset))
    except Incomplete as i:
        events.append(("incomplete", i.offset))
    return events
