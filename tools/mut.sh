#!/bin/bash
# usage: mut.sh <relative file> <python-regex-from> <to> <contract pattern>   -- runs run1.py on a scratch copy with one edit
set -e
D=$(mktemp -d /tmp/pyvcmut.XXXX)
cp -r /repo/gunicorn $D/gunicorn
python3 - "$D/$1" "$2" "$3" <<'PY'
import sys,re
p,a,b=sys.argv[1:4]
s=open(p).read()
n=s.count(a)
assert n>=1, "pattern not found"
s=s.replace(a,b,1)
open(p,'w').write(s)
PY
cd /verif && PYVC_REPO=$D python3-vt tools/run1.py "$4" 2>&1 | grep -v "^ *$" | cut -c1-400 | head -${5:-30}
rm -rf $D
