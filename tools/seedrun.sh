#!/bin/bash
# usage: seedrun.sh <seed id e.g. C02_A> <run1 pattern> [lines]   -- apply the seeded patch to a scratch copy and run matching contracts
D=$(mktemp -d /tmp/pyvcseed.XXXX)
cp -r /repo/gunicorn $D/gunicorn
(cd $D && patch -p1 -s < /verif/seeded/$1/patch.diff) || { echo "patch failed"; rm -rf $D; exit 1; }
cd /verif && PYVC_REPO=$D python3-vt tools/run1.py "$2" 2>&1 | grep -v "^ *$" | grep -v "   loop\|model:" | cut -c1-220 | head -${3:-12}
rm -rf $D
