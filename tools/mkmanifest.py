"""regenerate /verif/MANIFEST.json from the table below (claimed properties) + properties.jsonl (not_applicable for the rest)"""
import json, os, re
ROOT = os.path.dirname(os.path.dirname(os.path.abspath(__file__)))
props = [json.loads(l) for l in open(os.path.join(ROOT, "properties.jsonl"))]

PROJ = ("proved for the per-function / per-step projection under the stated kernel model; the quantifier over schedules, "
        "histories and real time in the statement is not decided by contract-based verification (no thread or signal-preemption "
        "support; liveness is out of reach)")

CLAIMS = {
 "C01": dict(text="Deductive: the real bodies of Unreader.read/unread, Request.get_data/read_line, ChunkedReader.get_data, LengthReader.read, Message.set_body_reader (header-level framing clauses: unique numeric Content-Length, CL+TE, TE on HTTP/1.0, chunked needs TE) Message.parse_request_line, Request.parse, Parser.__next__, ChunkedReader.parse_chunk_size / parse_chunked / parse_trailers and Message.parse_headers (all four header / trailer x tcp / unix cases: token names, colon placement, only OWS trimmed on both sides, no NUL/CR/LF, stream order, field count and field size within the limits) are symbolically executed from /repo on every run and every postcondition / call precondition / raise condition is discharged by z3 (cvc5 on unknowns) for ALL byte streams, positions and read segmentations (windows of one ghost stream). A failed obligation is reported as the violation. The Transfer-Encoding element grammar and completeness of the header list are decided only by the bounded differential stand-in against an independent RFC 9112 reference (29k stream x segmentation evaluations), labelled bounded.",
             note="trusted: byte-source model (Unreader.chunk), string/regex/BytesIO stubs (differentially tested), ghost fcrlf definition, decval/hexval uninterpreted; documented-unsafe parser switches excluded by precondition; known finding KF-C01-te-without-final-chunked",
             technique="contract-based deductive verification (ast->SMT VC generation, z3/cvc5) + bounded differential stand-in", ref="4 C01"),
 "C06": dict(text="Deductive, by construction of the contracts: every ensures/raises clause of the parser contracts (Unreader.read/unread, get_data, read_line, LengthReader.read, set_body_reader, parse_headers) is a function of the ghost stream T, its length, the start position and the configuration only; the sizes of the individual reads are universally quantified symbols of the byte-source model and occur in no postcondition, and read_line's raise conditions are proved two-sided (raise <=> stream predicate). Hence two segmentations of the same stream cannot be told apart by these functions. The same streams are additionally replayed under whole / bytewise / every single cut / random cuts by the bounded stand-in, and the engine's string stubs are differential-tested against CPython (stubtest, ~10k evaluations) in this check.",
             note="same trusted base as C01; completeness of the header list and the TE element grammar are bounded only (see evidence.not_decided)",
             technique="contract-based deductive verification (segmentation-independent postconditions over a ghost stream) + bounded stand-in", ref="4 C06"),
 "C07": dict(text="Deductive: Body.read/readline/readlines/__next__ are proved to implement binary-file semantics (exact result window, cursor advance, EOF forever via cursor==end) over an abstract reader for ALL bodies, cursors, buffered prefixes and sizes (None, negative, 0, any int), with Houdini-selected loop invariants over the 1024-byte refill loops; LengthReader.read is proved to implement that abstract reader over the ghost stream and to push back exactly the surplus (next request starts at the first byte after the body); Unreader.read/unread carry the position. ChunkedReader as a reader and Parser.__next__'s drain loop are covered by the bounded stand-in (12k call-program x framing x segmentation cases against io.BytesIO and a pipelined next request).",
             note="trusted: abstract reader interface for Body (discharged for LengthReader, bounded for ChunkedReader), bodies shorter than sys.maxsize, BytesIO model (append mode + position 0 of BytesIO(initial))",
             technique="contract-based deductive verification (representation invariant + exact postconditions, z3) + bounded stand-in", ref="4 C07"),
 "C12": dict(text="Deductive: Request.read_line is proved sound AND complete for the request-line limit (LimitRequestLine raised iff the line - first CRLF, or the rest of the stream if none - exceeds the limit, for every segmentation; NoMoreData otherwise), parse_headers never returns more than limit_request_fields fields and counts every field line (also dropped ones, defect fixed in /repo 11d7eb4), every kept field line is within limit_request_field_size, the header-block buffer bound in Request.parse is independent of segmentation (defect fixed in 8186d0d). 'Within limits => not rejected for size' and the boundary values are decided by the bounded stand-in on explicit small limits at, just under and just over each boundary. Chunk-size lines (with extensions) are bounded by limit_request_line and trailer sections by the header buffer limit, proved as postconditions that depend on the stream only (the missing bounds were a genuine defect, found by the endless-source stand-in buffer_bound and fixed in /repo 15df81f).",
             note="same trusted base as C01; completeness direction ('within limits => accepted') for header limits is bounded only",
             technique="contract-based deductive verification (two-sided raise conditions) + bounded boundary-value stand-in", ref="4 C12"),
}
extra = {}
p2 = os.path.join(ROOT, "tools", "claims_extra.json")
if os.path.exists(p2):
    extra = json.load(open(p2))
CLAIMS.update(extra)

checks = []
for p in props:
    c = CLAIMS.get(p["id"])
    if not c:
        continue
    checks.append({
        "property_id": p["id"], "quick_cmd": "./check %s --tier quick" % p["id"], "thorough_cmd": "./check %s --tier thorough" % p["id"],
        "evidence_file": "/verif/evidence/%s.json" % p["id"], "replay_cmd_template": "./check %s --replay {path}" % p["id"],
        "engine": "pyvc", "level_claimed": {"category": "proof", "text": c["text"], "design_ref": "DESIGN.md section " + c["ref"]},
        "level_note": c["note"], "technique": c["technique"]})
na = []
NA_REASON = json.load(open(os.path.join(ROOT, "tools", "na_reasons.json"))) if os.path.exists(os.path.join(ROOT, "tools", "na_reasons.json")) else {}
for p in props:
    if p["id"] not in CLAIMS:
        na.append({"property_id": p["id"], "reason": NA_REASON.get(p["id"], "contracts for this property are not built yet (build in progress; planned contracts in DESIGN.md section 4)")})
m = {"version": 1, "setup_cmd": "true",
     "hooks": {"guard": "GUNICORN_VERIF", "enable": "no hooks in /repo: contracts are sidecars under /verif/contracts; the checker re-reads /repo sources on every run", "baseline_off_cmd": "cd /repo && /venv/bin/python -m pytest -ra -q -p no:cacheprovider --timeout=900 --continue-on-collection-errors", "source_commits": [], "add_only": True},
     "engines": [{"name": "pyvc", "path": "/verif/pyvc", "serves_properties": sorted(CLAIMS), "kind_free_text": "ast->SMT verification-condition generator over the real gunicorn sources (re-read on every run) with sidecar contracts, Houdini loop invariants, z3 + cvc5; bounded differential stand-ins under /verif/harness"}],
     "checks": checks, "not_applicable": na,
     "notes": "fix: commits in /repo (recorded as fixed: entries in /verif/known_findings.json): " + " ".join(sorted(set(re.findall(r"property=\S+ ([0-9a-f]{7})", " ".join(json.load(open(os.path.join(ROOT, "known_findings.json")))["fixed"]))))) + ". Known findings (genuine, not repaired): /verif/known_findings.json. DESIGN.md section 8 describes the machinery as built."}
json.dump(m, open(os.path.join(ROOT, "MANIFEST.json"), "w"), indent=1)
print("claimed:", sorted(CLAIMS), "n/a:", len(na))
