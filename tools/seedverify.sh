#!/bin/bash
# usage: seedverify.sh C01 A   -- confirm a seeded change in a scratch worktree of /repo HEAD:
#   demo passes on the unchanged tree, patch applies, 260 tests pass with it, demo fails with it.
P=$1; X=$2
SRC=/verif/seeded_raw/$P
W=$(mktemp -d /tmp/seedv.XXXXXX)
git -C /repo worktree add --detach $W HEAD -q || exit 9
cd $W
res() { echo "$P $X $1"; cd /; git -C /repo worktree remove --force $W; exit 0; }
PYTHONPATH=$W timeout 300 /venv/bin/python $SRC/${X}_demo.py > $W/demo0.log 2>&1; r0=$?
git apply $SRC/$X.diff 2> $W/apply.log || res "patch-does-not-apply: $(head -c 200 $W/apply.log | tr '\n' ' ')"
/venv/bin/python -m pytest -q -p no:cacheprovider -x > $W/test.log 2>&1; rt=$?
tests=$(tail -1 $W/test.log | grep -o '[0-9]* passed')
PYTHONPATH=$W timeout 300 /venv/bin/python $SRC/${X}_demo.py > $W/demo1.log 2>&1; r1=$?
res "demo_unchanged_rc=$r0 tests_rc=$rt ($tests) demo_changed_rc=$r1"
