#!/bin/bash
# usage: seedharness.sh <seed id> <harness>  -- run a bounded stand-in against a scratch copy with the seeded patch
D=$(mktemp -d /tmp/pyvcseed.XXXX)
cp -r /repo/gunicorn $D/gunicorn
(cd $D && patch -p1 -s < /verif/seeded/$1/patch.diff) || { echo "patch failed"; rm -rf $D; exit 1; }
cd /verif && PYTHONPATH=$D:/verif /venv/bin/python harness/$2.py 2>&1 | tail -1 | python3 -c "
import json,sys
d=json.loads(sys.stdin.read().strip().splitlines()[-1])
print('evaluations', d.get('evaluations'), 'mismatch classes:', [m['class'] for m in d.get('mismatches',[])], d.get('error',''))
for m in d.get('mismatches',[])[:3]: print('   ', m['class'], '|', m.get('detail','')[:160])"
rm -rf $D
