#!/bin/bash
# usage: seedcheck.sh <seed e.g. C02_A> [property ...]   -- runs the real ./check commands against a scratch copy of /repo with the
# seeded patch applied (PYVC_REPO), writing evidence / replays under a scratch output root (PYVC_OUT); prints exit codes and VIOLATION lines.
# Equivalent to `git -C /repo apply` + ./check + `git -C /repo checkout -- .` but leaves /repo and /verif/evidence untouched.
S=$1; shift
PROPS="$@"
[ -z "$PROPS" ] && PROPS=$(python3 -c "import json;print(json.load(open('/verif/seeded/$S/meta.json'))['breaks_property'])")
D=$(mktemp -d /tmp/seedchk.XXXX)
mkdir -p $D/repo $D/out
cp -r /repo/gunicorn $D/repo/gunicorn
P=/verif/seeded/$S/patch.diff
[ -f /verif/seeded/$S/patch_rebased.diff ] && P=/verif/seeded/$S/patch_rebased.diff
(cd $D/repo && patch -p1 -s < $P) || { echo "$S patch failed"; rm -rf $D; exit 9; }
for p in $PROPS; do
  cd /verif && PYVC_REPO=$D/repo PYVC_OUT=$D/out timeout 3000 python3-vt -m pyvc.cli $p --tier quick > $D/out/$p.log 2>&1
  rc=$?
  echo "SEED $S check=$p exit=$rc $(grep -c '^VIOLATION' $D/out/$p.log) violation-lines"
  grep '^VIOLATION' $D/out/$p.log | cut -c1-300 | head -8
  grep '^UNDECIDED\|^ERROR\|^CHECKER' $D/out/$p.log | cut -c1-260 | head -3
done
rm -rf $D
