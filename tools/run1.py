"""debug driver: verify the contracts whose qualname contains argv[1]"""
import sys, time, importlib, pkgutil
sys.path.insert(0, "/verif")
from pyvc import load, env as envm, verify, contracts
import contracts as cpkg
for m in pkgutil.iter_modules(cpkg.__path__):
    importlib.import_module("contracts." + m.name)
pat = sys.argv[1] if len(sys.argv) > 1 else ""
verbose = "-v" in sys.argv
repo = load.repo()
bad = 0
for q, con in sorted(contracts.REGISTRY.items()):
    if pat not in q or con.trusted:
        continue
    e = envm.VerifyEnv(repo)
    t0 = time.time()
    fr = verify.verify_function(e, con, timeout_s=10)
    print("== %s  cases=%d paths=%d obligations=%d  %.1fs %s" % (q, fr.cases, fr.paths, len(fr.obligs), fr.secs, ("DEMOTED: " + fr.demoted) if fr.demoted else ""))
    for l in fr.loops:
        print("   loop", l["loop"], l["case"], "kept:", l["kept"], "dropped:", l["dropped"])
    for o in fr.obligs:
        if o.status != "discharged" or verbose:
            print("   %-10s %-6s %5.2fs %s" % (o.status, o.backend, o.secs, o.name))
            if o.status == "failed" and o.model:
                print("        model:", {k: v for k, v in sorted(o.model.items()) if not k.startswith(("q?", "p?", "j?")) and not isinstance(v, list)})
        if o.status != "discharged":
            bad += 1
print("not discharged:", bad)
