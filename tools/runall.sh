#!/bin/bash
# usage: tools/runall.sh C01 C02 ...  -- run the quick checks in sequence, one summary line each
cd /verif
for p in "$@"; do ./check $p > /tmp/all_$p.log 2>&1; echo "$p exit=$? $(tail -1 /tmp/all_$p.log)"; done
