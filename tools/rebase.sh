#!/bin/bash
# usage: tools/rebase.sh C01 C06 ...  -- re-take the obligation baseline (at half the solver budget) one property at a time
cd /verif
for p in "$@"; do ./check $p --update-baseline > /tmp/chk_$p.log 2>&1; echo "$p exit=$? $(tail -1 /tmp/chk_$p.log)"; done
