"""debug driver: python3-vt tools/runcase.py <qualified function> <case index>  -- verify ONE case of a contract in-process"""
import sys, time
sys.path.insert(0, "/verif")
import pkgutil, importlib
from pyvc import load, env as envm, verify, contracts
import contracts as cpkg
for m in pkgutil.iter_modules(cpkg.__path__):
    importlib.import_module("contracts." + m.name)
con = contracts.REGISTRY[sys.argv[1]]
k = int(sys.argv[2]); orig = con.cases; con.cases = lambda env, orig=orig: orig(env)[k:k + 1]
repo = load.repo()
e = envm.VerifyEnv(repo)
fr = verify.verify_function(e, con, timeout_s=10)
for l in fr.loops:
    print("   loop", l["loop"], l["case"], "kept:", l["kept"], "dropped:", l["dropped"])
for o in fr.obligs:
    if o.status != "discharged":
        print("%-10s %-8s %6.2fs %s" % (o.status, o.backend, o.secs, o.name))
print(fr.demoted, "paths", fr.paths, "obligs", len(fr.obligs), "secs %.0f" % fr.secs)
