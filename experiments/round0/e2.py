import z3, time, subprocess
def run(cmd, smt, timeout):
    t=time.time()
    try:
        out = subprocess.run(cmd, input=smt, capture_output=True, text=True, timeout=timeout)
        out = (out.stdout.strip().split("\n") or [out.stderr])[0]
    except subprocess.TimeoutExpired: out="timeout"
    return out, time.time()-t
def prove(name, hyp, goal, timeout=30):
    s = z3.Solver(); s.add(hyp); s.add(z3.Not(goal))
    smt = "(set-logic ALL)\n" + s.to_smt2()
    r1 = run(["cvc5","--strings-exp","--tlimit=%d"%(timeout*1000)], smt, timeout+5)
    r2 = run(["z3-new","-T:%d"%timeout,"-in"], smt, timeout+5)
    print(f"{name}: cvc5={r1[0]} {r1[1]:.2f}s | z3new={r2[0]} {r2[1]:.2f}s")
R = z3.Range; U = z3.Union; St = z3.Star; Pl = z3.Plus; Cc = z3.Concat
def chars(s): return U(*[z3.Re(ch) for ch in s]) if len(s)>1 else z3.Re(s)
tchar = U(R("0","9"), R("a","z"), R("A","Z"), chars("!#$%&'*+-.^_`|~"))
token = Pl(tchar)
ws = U(z3.Re(" "), z3.Re("\t"))
anyc = R("\x00", "ÿ")
bad = U(z3.Re("\x00"), z3.Re("\r"), z3.Re("\n"))
# good = latin1 minus bad  -> ranges
good = U(R("\x01","\x09"), R("\x0b","\x0c"), R("\x0e","ÿ"))
goodnows = U(R("\x01","\x08"), R("\x0b","\x0c"), R("\x0e","\x1f"), R("\x21","ÿ"))
curr, name, v0, a, r, b = z3.Strings("curr name v0 a r b")
ic = z3.IndexOf(curr, z3.StringVal(":"), 0)
latin = z3.InRe(curr, St(anyc))
nows = U(R("\x00","\x08"), R("\x0a","\x1f"), R("\x21","ÿ"))
stripped = lambda r: z3.InRe(r, U(z3.Re(""), nows, Cc(nows, St(anyc), nows)))
hyp = z3.And(latin, ic > 0, name == z3.SubString(curr,0,ic), v0 == z3.SubString(curr, ic+1, z3.Length(curr)-ic-1),
             z3.InRe(name, token),
             v0 == z3.Concat(a, r, b), z3.InRe(a, St(ws)), z3.InRe(b, St(ws)), stripped(r),
             z3.Not(z3.InRe(r, Cc(St(anyc), bad, St(anyc)))))
fieldline = Cc(token, z3.Re(":"), St(ws), U(z3.Re(""), goodnows, Cc(goodnows, St(good), goodnows)), St(ws))
prove("hdr.sound (accepted => RFC field-line)", hyp, z3.InRe(curr, fieldline))
# the value is the RFC field-value: curr == name ++ ":" ++ a ++ r ++ b
prove("hdr.decomp", hyp, curr == z3.Concat(name, z3.StringVal(":"), a, r, b))
# completeness: curr in fieldline => find(':')>0 and name token and trimmed value has no bad char
hyp2 = z3.And(latin, z3.InRe(curr, fieldline), name == z3.SubString(curr,0,ic), v0 == z3.SubString(curr, ic+1, z3.Length(curr)-ic-1),
              v0 == z3.Concat(a, r, b), z3.InRe(a, St(ws)), z3.InRe(b, St(ws)), stripped(r))
prove("hdr.complete.colon", hyp2, ic > 0)
prove("hdr.complete.token", hyp2, z3.InRe(name, token))
prove("hdr.complete.nobad", hyp2, z3.Not(z3.InRe(r, Cc(St(anyc), bad, St(anyc)))))
