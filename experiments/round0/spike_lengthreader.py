"""Throw-away spike: forward symbolic execution of the REAL LengthReader.read AST (read from /repo at run time),
loop cut at a sidecar invariant, Unreader.read/unread replaced by contracts, bytes as windows of ghost stream T."""
import ast, sys, time, z3, hashlib
REPO = sys.argv[1] if len(sys.argv) > 1 else "/repo"
src = open(f"{REPO}/gunicorn/http/body.py").read()
mod = ast.parse(src)
cls = next(n for n in mod.body if isinstance(n, ast.ClassDef) and n.name == "LengthReader")
fn = next(n for n in cls.body if isinstance(n, ast.FunctionDef) and n.name == "read")
print("function sha:", hashlib.sha256(ast.unparse(fn).encode()).hexdigest()[:12])

T = z3.Array("T", z3.IntSort(), z3.IntSort()); N = z3.Int("N")
_n = [0]
def fresh(p):
    _n[0] += 1; return z3.Int(f"{p}!{_n[0]}")
class Win:            # bytes value = T[lo:hi)
    def __init__(s, lo, hi): s.lo, s.hi = lo, hi
    def length(s): return s.hi - s.lo
class Bio:            # io.BytesIO, append-only; content is a window (None = empty, position-free)
    def __init__(s): s.win = None
class Obj(dict): pass
class Raise(Exception):
    def __init__(s, name): s.name = name
OBLIGS = []
def oblige(name, pc, goal): OBLIGS.append((name, list(pc), goal))

mn = lambda a, b: z3.If(a <= b, a, b)

class St:
    def __init__(s, loc, pc, heap): s.loc, s.pc, s.heap = loc, pc, heap
    def fork(s): return St(dict(s.loc), list(s.pc), {k: (dict(v) if isinstance(v, dict) else v) for k, v in s.heap.items()})

# ---- callee contracts (sidecar) -------------------------------------------------------------
def unreader_read(st):
    """ensures result == T[pos:pos'), pos<=pos'<=N, (pos'==pos) == (pos==N); buf empty afterwards"""
    u = st.heap["u"]; p2 = fresh("pos")
    st.pc += [u["pos"] <= p2, p2 <= N, (p2 == u["pos"]) == (u["pos"] == N)]
    w = Win(u["pos"], p2); u["pos"] = p2; u["buflen"] = z3.IntVal(0); return w
def unreader_unread(st, w, site):
    u = st.heap["u"]
    oblige(f"{site}.pre(unread):buffer-empty-or-noop", st.pc, z3.Or(u["buflen"] == 0, w.length() == 0))
    oblige(f"{site}.pre(unread):pushes-back-just-consumed-suffix", st.pc, z3.Or(w.length() == 0, w.hi == u["pos"]))
    oblige(f"{site}.pre(unread):wellformed", st.pc, z3.And(w.lo <= w.hi))
    u["buflen"] = w.length(); u["pos"] = u["pos"] - w.length()

# ---- expression evaluation over the real AST --------------------------------------------------
def truth(v):
    if isinstance(v, Win): return v.length() > 0
    if z3.is_bool(v): return v
    if z3.is_int(v): return v != 0
    raise NotImplementedError(type(v))
def ev(e, st):
    if isinstance(e, ast.Constant):
        if isinstance(e.value, bool): return z3.BoolVal(e.value)
        if isinstance(e.value, int): return z3.IntVal(e.value)
        if e.value == b"": return Win(z3.IntVal(0), z3.IntVal(0))
        if isinstance(e.value, str): return e.value
    if isinstance(e, ast.Name): return st.loc[e.id]
    if isinstance(e, ast.Attribute):
        base = ev(e.value, st)
        if isinstance(base, Obj): return base[e.attr]
        return ("method", base, e.attr)
    if isinstance(e, ast.UnaryOp) and isinstance(e.op, ast.Not): return z3.Not(truth(ev(e.operand, st)))
    if isinstance(e, ast.Compare) and len(e.ops) == 1:
        a, b = ev(e.left, st), ev(e.comparators[0], st)
        return {ast.Lt: lambda: a < b, ast.GtE: lambda: a >= b, ast.Eq: lambda: a == b, ast.Gt: lambda: a > b, ast.LtE: lambda: a <= b}[type(e.ops[0])]()
    if isinstance(e, ast.Subscript) and isinstance(e.slice, ast.Slice):
        w = ev(e.value, st); assert isinstance(w, Win)
        lo = ev(e.slice.lower, st) if e.slice.lower else None; hi = ev(e.slice.upper, st) if e.slice.upper else None
        clamp = lambda k: w.lo + z3.If(k < 0, z3.IntVal(0), mn(k, w.length()))   # k>=0 is obliged below
        if lo is None and hi is not None: return Win(w.lo, clamp(hi))
        if hi is None and lo is not None: return Win(clamp(lo), w.hi)
    if isinstance(e, ast.Call):
        f = e.func
        if isinstance(f, ast.Name) and f.id == "isinstance": return z3.BoolVal(True)      # typed by precondition
        if isinstance(f, ast.Name) and f.id == "min":
            a, b = [ev(x, st) for x in e.args]; return mn(a, b)
        if isinstance(f, ast.Attribute):
            if ast.unparse(f) == "io.BytesIO": return Bio()
            if ast.unparse(f) == "self.unreader.read": return unreader_read(st)
            if ast.unparse(f) == "self.unreader.unread": return unreader_unread(st, ev(e.args[0], st), f"L{e.lineno}")
            tgt = ev(f.value, st)
            if isinstance(tgt, Bio):
                if f.attr == "write":
                    w = ev(e.args[0], st)
                    if tgt.win is None: tgt.win = w
                    else:
                        oblige(f"L{e.lineno}.bytesio.write:adjacent-window", st.pc, z3.Or(w.length() == 0, tgt.win.hi == w.lo))
                        tgt.win = Win(tgt.win.lo, z3.If(w.length() == 0, tgt.win.hi, w.hi))
                    return None
                if f.attr == "tell": return tgt.win.length() if tgt.win else z3.IntVal(0)
                if f.attr == "getvalue": return tgt.win if tgt.win else Win(st.heap["u"]["pos"], st.heap["u"]["pos"])
            if ast.unparse(f) == "self.unreader.read": return unreader_read(st)
            if ast.unparse(f) == "self.unreader.unread": return unreader_unread(st, ev(e.args[0], st), f"L{e.lineno}")
        if isinstance(f, ast.Name) and f.id in ("TypeError", "ValueError"): return ("exc", f.id)
    raise NotImplementedError(ast.dump(e)[:120])

# ---- statements: returns list of (state, outcome) ; outcome in None|'break'|('return',v)|('raise',name)
def run(stmts, st):
    outs = [(st, None)]
    for s in stmts:
        nxt = []
        for (s0, o) in outs:
            nxt += ([(s0, o)] if o is not None else step(s, s0))
        outs = nxt
    return outs
def feasible(pc):
    sv = z3.Solver(); sv.set("timeout", 5000); sv.add(pc); return sv.check() != z3.unsat
def step(s, st):
    if isinstance(s, ast.Expr):
        if isinstance(s.value, ast.Constant): return [(st, None)]
        ev(s.value, st); return [(st, None)]
    if isinstance(s, ast.Assign):
        t = s.targets[0]
        if isinstance(t, ast.Name): st.loc[t.id] = ev(s.value, st)
        elif isinstance(t, ast.Tuple): 
            vs = [ev(x, st) for x in s.value.elts]
            for tt, vv in zip(t.elts, vs): st.loc[tt.id] = vv
        return [(st, None)]
    if isinstance(s, ast.AugAssign) and isinstance(s.op, ast.Sub):
        assert ast.unparse(s.target) == "self.length"
        st.heap["self"]["length"] = st.heap["self"]["length"] - ev(s.value, st); return [(st, None)]
    if isinstance(s, ast.If):
        c = truth(ev(s.test, st)); a, b = st.fork(), st.fork(); a.pc.append(c); b.pc.append(z3.Not(c)); res = []
        if feasible(a.pc): res += run(s.body, a)
        if feasible(b.pc): res += run(s.orelse, b)
        return res
    if isinstance(s, ast.Raise): return [(st, ("raise", ev(s.exc, st)[1] if isinstance(s.exc, ast.Call) else "?"))]
    if isinstance(s, ast.Return): return [(st, ("return", ev(s.value, st)))]
    if isinstance(s, ast.Break): return [(st, "break")]
    if isinstance(s, ast.While):
        anchor = "while " + ast.unparse(s.test); assert anchor == SIDE["loop0"]["anchor"], anchor
        inv = SIDE["loop0"]["inv"]
        oblige("loop0.inv.init", st.pc, inv(st))
        # havoc loop-modified state, assume inv
        h = st.fork(); u = h.heap["u"]; u["pos"] = fresh("pos"); u["buflen"] = z3.IntVal(0)
        h.loc["data"] = Win(fresh("dlo"), u["pos"]); b = Bio(); b.win = Win(st.loc["_p0"], h.loc["data"].lo); h.loc["buf"] = b
        h.pc.append(inv(h)); h.pc += [h.loc["data"].lo <= u["pos"], u["pos"] <= N]
        exits = []
        c = truth(ev(s.test, h))
        ex = h.fork(); ex.loc["buf"] = Bio(); ex.loc["buf"].win = h.loc["buf"].win; ex.pc.append(z3.Not(c)); exits.append((ex, None))
        body = h.fork(); body.loc["buf"] = Bio(); body.loc["buf"].win = h.loc["buf"].win; body.pc.append(c)
        for (s1, o) in run(s.body, body):
            if o == "break": exits.append((s1, None))
            elif o is None: oblige("loop0.inv.preserve", s1.pc, inv(s1)); oblige("loop0.variant(N-pos decreases)", s1.pc, z3.Or(N - s1.heap["u"]["pos"] < N - h.heap["u"]["pos"], s1.loc["data"].length() == 0))
            else: exits.append((s1, o))
        return exits
    raise NotImplementedError(ast.dump(s)[:100])

# ---- sidecar contract for LengthReader.read -----------------------------------------------------
def loop_inv(st):
    u, buf, data = st.heap["u"], st.loc["buf"], st.loc["data"]
    bw = buf.win if buf.win is not None else Win(st.loc["_p0"], st.loc["_p0"])
    k = st.loc["size"]
    return z3.And(bw.lo == st.loc["_p0"], z3.Or(bw.length() == 0, bw.hi == data.lo), z3.Implies(bw.length() == 0, data.lo == st.loc["_p0"]),
                  data.hi == u["pos"], data.lo <= data.hi, (data.length() == 0) == z3.And(u["pos"] == N, True) if False else z3.Implies(data.length() == 0, u["pos"] == N),
                  bw.length() < k, st.loc["_p0"] <= data.lo, u["pos"] <= N, u["buflen"] == 0)
SIDE = {"loop0": {"anchor": "while data", "inv": loop_inv}}

size = z3.Int("size"); L0 = z3.Int("L0"); p0 = z3.Int("p0")
st = St({"size": size, "_p0": p0, "self": None}, [L0 >= 0, 0 <= p0, p0 <= N], {"u": Obj(pos=p0, buflen=z3.Int("buflen0")), "self": Obj(length=L0)})
st.pc.append(st.heap["u"]["buflen"] >= 0)
st.heap["self"]["unreader"] = st.heap["u"]; st.loc["self"] = st.heap["self"]
t0 = time.time(); outs = run(fn.body, st)
k = mn(L0, size)
for (s1, o) in outs:
    if o and o[0] == "return":
        r = o[1]; u = s1.heap["u"]
        oblige("post.result==T[p0:min(p0+min(L0,size),N))", s1.pc, z3.Or(z3.And(r.length() == 0, z3.Or(k == 0, p0 == N)), z3.And(r.lo == p0, r.hi == mn(p0 + k, N))))
        oblige("post.unreader.pos==p0+len(result)", s1.pc, z3.Implies(k > 0, u["pos"] == p0 + r.length()))
        oblige("post.length==L0-min(L0,size)", s1.pc, z3.Or(k == 0, s1.heap["self"]["length"] == L0 - k))
    elif o and o[0] == "raise":
        oblige(f"raise.{o[1]}.sound(min(L0,size)<0)", s1.pc, k < 0)
print(f"paths: {len(outs)}  obligations: {len(OBLIGS)}  symexec {time.time()-t0:.2f}s")
bad = 0
for name, pc, goal in OBLIGS:
    sv = z3.Solver(); sv.set("timeout", 10000); sv.add(pc); sv.add(z3.Not(goal)); t = time.time(); r = sv.check()
    cv = z3.Solver(); cv.add(pc); cover = cv.check()
    print(f"  {'discharged' if r == z3.unsat else str(r).upper():10s} {time.time()-t:5.2f}s cover={cover} {name}")
    if r != z3.unsat:
        bad += 1
        if r == z3.sat:
            m = sv.model(); print("     model:", {str(d): m[d] for d in m.decls() if d.name() != "T"})
sys.exit(1 if bad else 0)
