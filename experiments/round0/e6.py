import z3, time, subprocess
def run(cmd, smt, timeout):
    t=time.time()
    try:
        o = subprocess.run(cmd, input=smt, capture_output=True, text=True, timeout=timeout); out=(o.stdout.strip().split("\n") or ["?"])[0] or o.stderr[:100]
    except subprocess.TimeoutExpired: out="timeout"
    return out, time.time()-t
def prove(name, hyp, goal, timeout=20):
    s = z3.Solver(); s.set("timeout", timeout*1000); s.add(hyp); s.add(z3.Not(goal))
    t=time.time(); r=s.check(); dt=time.time()-t
    smt = "(set-logic ALL)\n"+s.to_smt2()
    r1 = run(["cvc5","--strings-exp","--tlimit=%d"%(timeout*1000)], smt, timeout+5)
    print(f"{name}: z3={'proved' if r==z3.unsat else r} {dt:.2f}s | cvc5={r1[0]} {r1[1]:.2f}s")
    if r==z3.sat: print(s.model())
B = z3.SeqSort(z3.BitVecSort(8))
app_out, wire_body, arg = z3.Consts("app_out wire_body arg", B)
rl, sent = z3.Ints("rl sent")
mn = lambda a,b: z3.If(a<=b,a,b)
inv = lambda ao, wb, s: z3.And(rl>=0, s == mn(z3.Length(ao), rl), wb == z3.Extract(ao, 0, s))
# path: response_length not None, sent < rl
tosend = mn(rl - sent, z3.Length(arg))
hyp = z3.And(inv(app_out, wire_body, sent), sent < rl)
prove("write.CL.preserve", hyp, inv(z3.Concat(app_out,arg), z3.Concat(wire_body, z3.Extract(arg,0,tosend)), sent+tosend))
# path: sent >= rl -> return, nothing written
hyp2 = z3.And(inv(app_out, wire_body, sent), sent >= rl)
prove("write.CL.full.preserve", hyp2, inv(z3.Concat(app_out,arg), wire_body, sent))
# mutant: forgot truncation
prove("MUTANT no truncation", hyp, inv(z3.Concat(app_out,arg), z3.Concat(wire_body, arg), sent+z3.Length(arg)))
# chunked: wire = concat of enc(c) for nonempty c ; ghost decoded == app_out ; model enc via uninterpreted hex: Int -> B
hexf = z3.Function("hexX", z3.IntSort(), B)
CR = z3.Concat(z3.Unit(z3.BitVecVal(13,8)), z3.Unit(z3.BitVecVal(10,8)))
wire, wire2 = z3.Consts("wire wire2", B)
enc = lambda d: z3.Concat(hexf(z3.Length(d)), CR, d, CR)
prove("write_chunk.post", z3.And(wire2 == z3.Concat(wire, z3.Concat(hexf(z3.Length(arg)), CR), arg, CR)), wire2 == z3.Concat(wire, enc(arg)))
