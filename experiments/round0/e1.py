# Hand-written VCs shaped like what an AST->SMT generator would emit for Request.read_line
import z3, time, sys
S = z3.StringSort()
CRLF = z3.StringVal("\r\n")
def lat1(s): return z3.InRe(s, z3.Star(z3.Range(z3.Unit(z3.CharVal(0)) if False else "\x00", "ÿ")))
T, data, rem, c = z3.Strings("T data rem c")
limit = z3.Int("limit")
idx = z3.IndexOf(data, CRLF, 0)
inv = z3.And(z3.Concat(data, rem) == T, limit >= 0)
def prove(name, hyp, goal, timeout=20000):
    s = z3.Solver(); s.set("timeout", timeout)
    s.add(hyp); s.add(z3.Not(goal))
    t=time.time(); r = s.check(); dt=time.time()-t
    print(f"{name}: {'proved' if r==z3.unsat else r} {dt:.2f}s")
    if r==z3.sat: print(s.model())
    return s
# normal exit: idx>=0, not (idx>limit>0)
line = z3.SubString(data, 0, idx); res = z3.SubString(data, idx+2, z3.Length(data)-idx-2)
hyp = z3.And(inv, idx >= 0, z3.Not(z3.And(idx > limit, limit > 0)))
prove("post.split", hyp, z3.Concat(line, CRLF, res, rem) == T)
prove("post.nocrlf", hyp, z3.Not(z3.Contains(line, CRLF)))
prove("post.first", hyp, idx == z3.IndexOf(T, CRLF, 0))
prove("post.limit", hyp, z3.Or(limit == 0, z3.Length(line) <= limit))
# preservation via get_data: idx<0, not(len-2>limit>0), rem nonempty, c nonempty prefix of rem
hyp2 = z3.And(inv, idx < 0, z3.Not(z3.And(z3.Length(data)-2 > limit, limit>0)), z3.Length(rem)>0,
              z3.PrefixOf(c, rem), z3.Length(c) > 0, z3.Length(c) <= 8192)
data2 = z3.Concat(data, c); rem2 = z3.SubString(rem, z3.Length(c), z3.Length(rem)-z3.Length(c))
prove("inv.preserve", hyp2, z3.Concat(data2, rem2) == T)
prove("buf.bound", hyp2, z3.Or(limit==0, z3.Length(data2) <= limit + 2 + 8192))
# raise paths soundness: LimitRequestLine raised only if real line (first CRLF in T) longer than limit, or never ends
hyp3 = z3.And(inv, idx < 0, z3.Length(data)-2 > limit, limit>0)
prove("raise.incomplete.sound", hyp3, z3.Or(z3.IndexOf(T, CRLF, 0) < 0, z3.IndexOf(T, CRLF, 0) > limit))
hyp4 = z3.And(inv, idx >= 0, idx > limit, limit > 0)
prove("raise.complete.sound", hyp4, z3.IndexOf(T, CRLF, 0) > limit)
