# TE list loop: elements are windows of T delimited by commas; invariant/post in quantified form; plus a strip() mutant
import z3, time
I = z3.IntSort(); T = z3.Array("T", I, I); j,u = z3.Ints("j u")
ES = z3.Function("es", I, I); EE = z3.Function("ee", I, I)   # element t raw window [es(t), ee(t))  (from split(','))
m = z3.Int("m")
def inset(c, spec): return z3.Or(*[(z3.And(c>=a[0], c<=a[1]) if isinstance(a,tuple) else c==a) for a in spec])
WS=[32,9]; PYWS=[(9,13),(28,32),0x85,0xa0]
def forall_in(lo,hi,pred): return z3.ForAll([j], z3.Implies(z3.And(lo<=j,j<hi), pred(T[j])))
def strip(lo,hi,a,b,ws):
    return z3.And(lo<=a,a<=b,b<=hi, forall_in(lo,a,lambda c:inset(c,ws)), forall_in(b,hi,lambda c:inset(c,ws)),
                  z3.Implies(a<b, z3.And(z3.Not(inset(T[a],ws)), z3.Not(inset(T[b-1],ws)))))
def ci_eq(a,b,lit):   # T[a:b).lower() == lit   (latin-1: only ASCII letters fold into ASCII)
    return z3.And(b-a==len(lit), *[z3.Or(T[a+i]==ord(ch), T[a+i]==ord(ch.upper())) for i,ch in enumerate(lit)])
# code-side stripped windows (skolem fns of t) and spec-side stripped windows
CA = z3.Function("ca", I, I); CB = z3.Function("cb", I, I)
SA = z3.Function("sa", I, I); SB = z3.Function("sb", I, I)
def axioms(ws_code):
    return z3.And(m>=1, z3.ForAll([u], z3.Implies(z3.And(0<=u,u<m), z3.And(0<=ES(u), ES(u)<=EE(u),
                 strip(ES(u),EE(u),CA(u),CB(u),ws_code), strip(ES(u),EE(u),SA(u),SB(u),WS)))))
def c_chunked(t): return ci_eq(CA(t),CB(t),"chunked")
def c_known(t): return z3.Or(c_chunked(t), *[ci_eq(CA(t),CB(t),x) for x in ("identity","compress","deflate","gzip")])
def s_chunked(t): return ci_eq(SA(t),SB(t),"chunked")
def s_known(t): return z3.Or(s_chunked(t), *[ci_eq(SA(t),SB(t),x) for x in ("identity","compress","deflate","gzip")])
t = z3.Int("t"); chunked = z3.Bool("chunked")
def inv(t, chunked):  # stated over the SPEC predicates (property-level), established by code conditions
    return z3.And(0<=t, t<=m, z3.ForAll([u], z3.Implies(z3.And(0<=u,u<t), s_known(u))),
                  chunked == z3.Exists([u], z3.And(0<=u,u<t,s_chunked(u))),
                  z3.Implies(chunked, z3.And(t>=1, s_chunked(t-1), z3.ForAll([u], z3.Implies(z3.And(0<=u,u<t-1), z3.Not(s_chunked(u)))))))
def prove(name, hyp, goal, timeout=30000):
    s = z3.Solver(); s.set("timeout", timeout); s.add(hyp); s.add(z3.Not(goal))
    t0=time.time(); r=s.check(); dt=time.time()-t0
    print(f"{name}: {'proved' if r==z3.unsat else r} {dt:.2f}s")
    return s if r==z3.sat else None
for label, ws in (("real strip(' \\t') variant", WS), ("CURRENT CODE v.strip()", PYWS)):
    ax = axioms(ws)
    # iteration t, path: lower()=="chunked" and not already chunked -> chunked=True
    prove(f"[{label}] preserve.chunked-branch", z3.And(ax, inv(t,chunked), t<m, c_chunked(t), z3.Not(chunked)), inv(t+1, z3.BoolVal(True)))
    # path: known non-chunked, not chunked
    s=prove(f"[{label}] preserve.other-branch", z3.And(ax, inv(t,chunked), t<m, z3.Not(c_chunked(t)), c_known(t), z3.Not(chunked)), inv(t+1, chunked))
    # raise-soundness: code raises Unsupported => spec says unknown coding
    prove(f"[{label}] raise.unknown.sound", z3.And(ax, inv(t,chunked), t<m, z3.Not(c_known(t))), z3.Not(s_known(t)))
