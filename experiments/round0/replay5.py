import sys, logging; sys.path.insert(0,"/repo")
from gunicorn.config import Config
from gunicorn.workers.gthread import ThreadWorker, TConn
from gunicorn.workers.base_async import AsyncWorker
from gunicorn import http
import contextlib
class Sock:
    def __init__(s, data): s.data=data; s.out=b""
    def recv(s,n): d,s.data=s.data[:n],s.data[n:]; return d
    def sendall(s,d): s.out+=d
    def send(s,d): s.out+=d; return len(d)
    def setblocking(s,b): pass
    def close(s): pass
    def getsockname(s): return ("127.0.0.1", 8000)
class Log:
    def __getattr__(s,n): return lambda *a,**k: None
seen=[]
def app(env, sr):
    seen.append((env["REMOTE_ADDR"], env.get("PROXY_PROTOCOL")))
    sr("200 OK", [("Content-Length","0")]); return []
cfg = Config(); cfg.set("proxy_protocol", True); cfg.set("keepalive", 5); cfg.set("worker_connections", 10); cfg.set("threads", 2)
stream = b"PROXY TCP4 203.0.113.9 10.0.0.1 1234 80\r\nGET /1 HTTP/1.1\r\n\r\nGET /2 HTTP/1.1\r\n\r\n"
w = ThreadWorker.__new__(ThreadWorker); w.cfg=cfg; w.log=Log(); w.wsgi=app; w.nr=0; w.max_requests=10**9; w.alive=True
from collections import deque; w._keep=deque(); w.max_keepalived=8
s = Sock(stream); conn = TConn(cfg, s, ("127.0.0.1", 5555), ("127.0.0.1", 8000)); conn.init()
print("gthread #1:", w.handle(conn)[0], " #2:", w.handle(conn)[0], "->", seen)
seen.clear()
class AW(AsyncWorker):
    def timeout_ctx(self): return contextlib.nullcontext()
a = AW.__new__(AW); a.cfg=cfg; a.log=Log(); a.wsgi=app; a.nr=0; a.max_requests=10**9; a.alive=True
s2 = Sock(stream); a.handle(s2, s2, ("127.0.0.1", 5555)); print("base_async ->", seen)
