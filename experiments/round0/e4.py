import z3, time
T = z3.Array("T", z3.IntSort(), z3.IntSort()); j = z3.Int("j")
def prove(name, hyp, goal, timeout=20000, show=True):
    s = z3.Solver(); s.set("timeout", timeout); s.add(hyp); s.add(z3.Not(goal))
    t=time.time(); r=s.check(); dt=time.time()-t
    print(f"{name}: {'proved' if r==z3.unsat else r} {dt:.2f}s")
    if r==z3.sat and show:
        m=s.model(); print({str(d): m[d] for d in m.decls() if d.name()!='T'}); 
        lo_=m.eval(s_lo).as_long(); hi_=m.eval(s_hi).as_long()
        print("line bytes:", bytes(m.eval(T[i]).as_long() & 255 for i in range(lo_,hi_)))
def inset(c, spec):  # spec: list of ints / (lo,hi)
    return z3.Or(*[ (z3.And(c>=a[0], c<=a[1]) if isinstance(a,tuple) else c==a) for a in spec])
TCHAR=[(48,57),(65,90),(97,122)]+[ord(x) for x in "!#$%&'*+-.^_`|~"]
WS=[32,9]
PYWS=[(9,13),(28,32),0x85,0xa0]      # str.strip() with no args on latin-1 text
BAD=[0,13,10]
def forall_in(lo,hi,pred): return z3.ForAll([j], z3.Implies(z3.And(lo<=j,j<hi), pred(T[j])))
def find_ch(lo,hi,ch,f):
    return z3.Or(z3.And(f==-1, forall_in(lo,hi,lambda c:c!=ch)),
                 z3.And(lo<=f,f<hi,T[f]==ch, forall_in(lo,f,lambda c:c!=ch)))
def strip(lo,hi,a,b,ws):  # [a,b) = T[lo:hi).strip(ws)
    return z3.And(lo<=a,a<=b,b<=hi, forall_in(lo,a,lambda c:inset(c,ws)), forall_in(b,hi,lambda c:inset(c,ws)),
                  z3.Implies(a<b, z3.And(z3.Not(inset(T[a],ws)), z3.Not(inset(T[b-1],ws)))),
                  z3.Implies(a==b, z3.Or(a==hi, a==lo)))  # all-ws case: python gives empty; position irrelevant
s_lo,s_hi,c,a,b = z3.Ints("lo hi c a b")
K,A,B = z3.Ints("K A B")
bytes_ok = z3.ForAll([j], z3.And(T[j]>=0, T[j]<=255))
# RFC 9110/9112 spec of a field-line over T[lo:hi): first ':' at K>lo, name token, OWS=SP/HTAB only, value [A,B) has no NUL/CR/LF
def spec(lo,hi,K,A,B):
    return z3.And(find_ch(lo,hi,58,K), K>lo, forall_in(lo,K,lambda c:inset(c,TCHAR)),
                  strip(K+1,hi,A,B,WS), forall_in(A,B,lambda c:z3.Not(inset(c,BAD))))
# code path conditions (accepted), as the generator would emit them from parse_headers
def code(lo,hi,c,a,b,ws):
    return z3.And(find_ch(lo,hi,58,c), z3.Not(c-lo<=0), forall_in(lo,c,lambda x:inset(x,TCHAR)), c-lo>0,
                  strip(c+1,hi,a,b,ws), z3.Not(z3.Exists([j], z3.And(a<=j,j<b,inset(T[j],BAD)))))
base = z3.And(bytes_ok, 0<=s_lo, s_lo<=s_hi)
prove("hdr.sound", z3.And(base, code(s_lo,s_hi,c,a,b,WS)), spec(s_lo,s_hi,c,a,b))
# uniqueness of spec decomposition => function
prove("hdr.spec.unique", z3.And(base, spec(s_lo,s_hi,K,A,B), code(s_lo,s_hi,c,a,b,WS)), z3.And(K==c, z3.Or(z3.And(A==a,B==b), z3.And(A==B,a==b))))
# completeness: spec-valid line is accepted by the code conditions
prove("hdr.complete", z3.And(base, spec(s_lo,s_hi,K,A,B), find_ch(s_lo,s_hi,58,c), strip(c+1,s_hi,a,b,WS)),
      z3.And(c-s_lo>0, forall_in(s_lo,c,lambda x:inset(x,TCHAR)), z3.Not(z3.Exists([j], z3.And(a<=j,j<b,inset(T[j],BAD))))))
# MUTANT: value.strip() instead of strip(" \t"): value window differs from RFC value
prove("MUTANT strip(): same value window as RFC", z3.And(base, spec(s_lo,s_hi,K,A,B), code(s_lo,s_hi,c,a,b,PYWS)),
      z3.Or(z3.And(A==a,B==b), z3.And(A==B,a==b)))
