import sys, io, os, tempfile; sys.path.insert(0,"/repo")
from gunicorn.config import Config
from gunicorn.http.parser import RequestParser
from gunicorn.http import wsgi
class Sock:
    def __init__(s): s.out=b""
    def sendall(s,d): s.out+=d
    def send(s,d): s.out+=d; return len(d)
    def sendfile(s,f,offset=0,count=None):
        f.seek(offset); d=f.read(count); s.out+=d; return len(d)
def serve(reqbytes, app, **kw):
    cfg=Config()
    for k,v in kw.items(): cfg.set(k,v)
    req = next(RequestParser(cfg, iter([reqbytes]), ("127.0.0.1",1)))
    sock=Sock()
    resp, environ = wsgi.create(req, sock, ("127.0.0.1",1), ("127.0.0.1",80), cfg)
    it = app(environ, resp.start_response)
    if isinstance(it, environ['wsgi.file_wrapper']): resp.write_file(it)
    else:
        for x in it: resp.write(x)
    resp.close()
    return sock.out, resp
# C02/C19: empty file via file_wrapper on HTTP/1.1 w/o CL
tf = tempfile.TemporaryFile(); 
def app1(env, sr):
    sr("200 OK", []); return env['wsgi.file_wrapper'](tf)
out, resp = serve(b"GET / HTTP/1.1\r\n\r\n", app1); print("empty file:", out[out.index(b"\r\n\r\n")+4:], "sent=",resp.sent)
tf2 = tempfile.TemporaryFile(); tf2.write(b"hello"); tf2.seek(0)
def app2(env, sr):
    sr("200 OK", []); return env['wsgi.file_wrapper'](tf2)
out, resp = serve(b"GET / HTTP/1.1\r\n\r\n", app2); print("5-byte file:", out[out.index(b"\r\n\r\n")+4:], "sent=",resp.sent)
# C09 status injection
def app3(env, sr):
    sr("200 OK\r\nSet-Cookie: pwn=1", [("X","y")]); return [b"a"]
out, resp = serve(b"GET / HTTP/1.0\r\n\r\n", app3); print("status inj:", out)
# C09 header value with trailing \n? HEADER_VALUE_RE fullmatch
def app4(env, sr):
    sr("200 OK", [("X","y\n")]); return [b"a"]
try: print(serve(b"GET / HTTP/1.0\r\n\r\n", app4)[0])
except Exception as e: print("hdr LF:", type(e).__name__, e)
# C15: raw non-ascii path bytes
def app5(env, sr):
    sr("200 OK", []); print("PATH_INFO", repr(env["PATH_INFO"]), "RAW_URI", repr(env["RAW_URI"]), "QS", repr(env["QUERY_STRING"])); return []
serve(b"GET /caf\xc3\xa9/%C3%A9?x=\xe9 HTTP/1.1\r\n\r\n", app5)
# HEAD w/ body chunks
def app6(env, sr):
    sr("200 OK", []); return [b"abc"]
print("HEAD:", serve(b"HEAD / HTTP/1.1\r\n\r\n", app6)[0])
print("204:", serve(b"GET / HTTP/1.1\r\n\r\n", lambda e,sr: (sr("204 No Content", []), [b"abc"])[1])[0])
