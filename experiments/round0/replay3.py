import sys; sys.path.insert(0,"/repo")
from gunicorn.util import split_request_uri, unquote_to_wsgi_str
for u in ["/a?x=\ty", "/a\tb?q", "//host/p?q#f", "*", "http://ex.org/p%41?q=1", "/p;x=1?q", "/a?b?c", " /lead", "/a\nb", "/%zz%4", "/a#frag?x", "http://[::1/p", "/\x00z", "ht\ttp://h/p"]:
    try:
        p = split_request_uri(u); print(repr(u), "->", repr(p.path), repr(p.query), repr(p.fragment), "| PATH_INFO", repr(unquote_to_wsgi_str(p.path)))
    except Exception as e: print(repr(u), "EXC", type(e).__name__, e)
