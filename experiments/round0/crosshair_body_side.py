import io, sys
sys.path.insert(0, "/repo")
from gunicorn.http.body import LengthReader, Body
from gunicorn.http.unreader import IterUnreader
from typing import List

def body_read_seq(data: bytes, cuts: List[int], length: int, sizes: List[int]) -> List[bytes]:
    """
    pre: 0 <= length <= len(data) <= 12
    pre: len(cuts) <= 3 and all(1 <= c <= 5 for c in cuts)
    pre: len(sizes) <= 3 and all(0 <= s <= 6 for s in sizes)
    post: b"".join(__return__) == data[:length][:len(b"".join(__return__))]
    """
    segs=[]; p=0
    for c in cuts:
        if p>=len(data): break
        segs.append(data[p:p+c]); p+=c
    if p < len(data): segs.append(data[p:])
    u = IterUnreader(segs)
    b = Body(LengthReader(u, length))
    out=[]
    for s in sizes:
        out.append(b.read(s))
    return out
