import sys, os, tempfile; sys.path.insert(0,"/repo")
from unittest import mock
from gunicorn.pidfile import Pidfile
d = tempfile.mkdtemp(); f = os.path.join(d, "g.pid")
open(f,"w").write("%d\n" % os.getpid())          # stale file that happens to hold our pid
p = Pidfile(f); p.create(os.getpid()); print("self.pid after create:", p.pid)
p.unlink(); print("file still exists after unlink:", os.path.exists(f))
os.unlink(f); os.rmdir(d)
from gunicorn import util
calls=[]
with mock.patch.object(util.os,"getgid",lambda:5), mock.patch.object(util.os,"getuid",lambda:0), \
     mock.patch.object(util.os,"setgid",lambda g:calls.append(("setgid",g))), \
     mock.patch.object(util.os,"setuid",lambda u:calls.append(("setuid",u))), \
     mock.patch.object(util,"get_username",lambda u:"nobody"):
    util.set_owner_process(65534, 0); print("uid=65534,gid=0, master gid 5 ->", calls)
    calls.clear(); util.set_owner_process(65534, 7); print("uid=65534,gid=7 ->", calls)
