# Encoding B: the connection stream is ONE ghost array T (Int->Int) of length N; every buffer is a window [lo,hi) of T.
import z3, time
T = z3.Array("T", z3.IntSort(), z3.IntSort()); N = z3.Int("N")
j = z3.Int("j")
def crlf_at(k): return z3.And(T[k]==13, T[k+1]==10)
def find_crlf(lo, hi, f):
    """f = lo + data.find(b'\\r\\n') for data=T[lo:hi), or f == -1 (absolute)"""
    return z3.Or(z3.And(f == -1, z3.ForAll([j], z3.Implies(z3.And(lo<=j, j+1<hi), z3.Not(crlf_at(j))))),
                 z3.And(lo<=f, f+1<hi, crlf_at(f), z3.ForAll([j], z3.Implies(z3.And(lo<=j, j<f), z3.Not(crlf_at(j))))))
def prove(name, hyp, goal, timeout=20000):
    s = z3.Solver(); s.set("timeout", timeout); s.add(hyp); s.add(z3.Not(goal))
    t=time.time(); r=s.check(); dt=time.time()-t
    print(f"{name}: {'proved' if r==z3.unsat else r} {dt:.2f}s")
    if r==z3.sat: print(s.model())
p,q,f,limit,k,F = z3.Ints("p q f limit k F")
# spec: F = first CRLF in T at/after p (absolute) within [p,N) or -1
spec = find_crlf(p, N, F)
inv = z3.And(0<=p, p<=q, q<=N, limit>=0)   # data = T[p:q)
# normal exit
hyp = z3.And(inv, spec, find_crlf(p,q,f), f>=0, z3.Not(z3.And(f-p>limit, limit>0)))
prove("post.first(f==F)", hyp, f==F)
prove("post.limit", hyp, z3.Or(limit==0, F-p<=limit))
# raise-incomplete soundness
hyp3 = z3.And(inv, spec, find_crlf(p,q,f), f<0, (q-p)-2>limit, limit>0)
prove("raise.incomplete.sound", hyp3, z3.Or(F<0, F-p>limit))
hyp4 = z3.And(inv, spec, find_crlf(p,q,f), f>=0, f-p>limit, limit>0)
prove("raise.complete.sound", hyp4, F-p>limit)
# completeness: if spec line within limit then no raise on either branch
hyp5 = z3.And(inv, spec, F>=0, z3.Or(limit==0, F-p<=limit), find_crlf(p,q,f))
prove("noraise.complete", hyp5, z3.Not(z3.And(f>=0, f-p>limit, limit>0)))
prove("noraise.incomplete", hyp5, z3.Not(z3.And(f<0, (q-p)-2>limit, limit>0)))
# deliberately wrong: off-by-one mutant  (len(data)-3 > limit replaced by len(data) > limit) must FAIL
hyp6 = z3.And(inv, spec, F>=0, z3.Or(limit==0, F-p<=limit), find_crlf(p,q,f))
prove("MUTANT noraise.incomplete (len(data)>limit)", hyp6, z3.Not(z3.And(f<0, (q-p)>limit, limit>0)))
