import z3, time, subprocess, sys, tempfile, os
S = z3.StringSort()
CRLF = z3.StringVal("\r\n")
T, data, rem, c = z3.Strings("T data rem c")
limit = z3.Int("limit")
idx = z3.IndexOf(data, CRLF, 0)
inv = z3.And(z3.Concat(data, rem) == T, limit >= 0)
def run(cmd, smt, timeout):
    t=time.time()
    try:
        out = subprocess.run(cmd, input=smt, capture_output=True, text=True, timeout=timeout).stdout.strip().split("\n")[0]
    except subprocess.TimeoutExpired: out="timeout"
    return out, time.time()-t
def prove(name, hyp, goal, timeout=30):
    s = z3.Solver(); s.add(hyp); s.add(z3.Not(goal))
    smt = "(set-logic ALL)\n" + s.to_smt2()
    r1 = run(["cvc5","--strings-exp","--tlimit=%d"%(timeout*1000)], smt, timeout+5)
    r2 = run(["z3-new","-T:%d"%timeout,"-in"], smt, timeout+5)
    print(f"{name}: cvc5={r1[0]} {r1[1]:.2f}s | z3new={r2[0]} {r2[1]:.2f}s")
line = z3.SubString(data, 0, idx); res = z3.SubString(data, idx+2, z3.Length(data)-idx-2)
hyp = z3.And(inv, idx >= 0, z3.Not(z3.And(idx > limit, limit > 0)))
prove("post.split", hyp, z3.Concat(line, CRLF, res, rem) == T)
prove("post.nocrlf", hyp, z3.Not(z3.Contains(line, CRLF)))
prove("post.first", hyp, idx == z3.IndexOf(T, CRLF, 0))
hyp3 = z3.And(inv, idx < 0, z3.Length(data)-2 > limit, limit>0)
prove("raise.incomplete.sound", hyp3, z3.Or(z3.IndexOf(T, CRLF, 0) < 0, z3.IndexOf(T, CRLF, 0) > limit))
hyp4 = z3.And(inv, idx >= 0, idx > limit, limit > 0)
prove("raise.complete.sound", hyp4, z3.IndexOf(T, CRLF, 0) > limit)
