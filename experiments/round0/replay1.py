import sys, io; sys.path.insert(0,"/repo")
from gunicorn.config import Config
from gunicorn.http.parser import RequestParser
def run(segs, **kw):
    cfg = Config()
    for k,v in kw.items(): cfg.set(k,v)
    out=[]
    try:
        for req in RequestParser(cfg, iter(segs), ("127.0.0.1",1)):
            out.append((req.method, req.uri, req.version, req.headers, req.body.read(), req.trailers))
    except BaseException as e:
        out.append(("EXC", type(e).__name__, str(e)))
    return out
print("1 VT-chunked:", run([b"POST / HTTP/1.1\r\nTransfer-Encoding: \x0bchunked\r\n\r\n3\r\nabc\r\n0\r\n\r\nGET /next HTTP/1.1\r\n\r\n"]))
print("2 TE gzip only:", run([b"POST / HTTP/1.1\r\nTransfer-Encoding: gzip\r\n\r\nGET /next HTTP/1.1\r\n\r\n"]))
print("3 chunk-ext bare LF:", run([b"POST / HTTP/1.1\r\nTransfer-Encoding: chunked\r\n\r\n1;a\nb\r\nX\r\n0\r\n\r\n"]))
# segmentation dependence with small limits
req = b"GET / HTTP/1.1\r\nA: b\r\n\r\n" + b"GET /second/request/xxxxxxxxxxxxxxxxx HTTP/1.1\r\n\r\n"
print("4a whole :", [r[:2] for r in run([req], limit_request_fields=1, limit_request_field_size=10)])
print("4b split :", [r[:3] for r in run([req[:18], req[18:]], limit_request_fields=1, limit_request_field_size=10)])
print("5 CL with plus:", run([b"POST / HTTP/1.1\r\nContent-Length: +3\r\n\r\nabc"]))
print("5b CL superscript:", run([b"POST / HTTP/1.1\r\nContent-Length: \xb2\r\n\r\nabc"]))
print("6 empty chunk-size w/ ext:", run([b"POST / HTTP/1.1\r\nTransfer-Encoding: chunked\r\n\r\n;x\r\n\r\n"]))
print("7 chunk size ws no ext:", run([b"POST / HTTP/1.1\r\nTransfer-Encoding: chunked\r\n\r\n1 \r\nX\r\n0\r\n\r\n"]))
print("8 lf in reqline:", run([b"GET /a\rb HTTP/1.1\r\n\r\n"]))
