"""Symbolic state: locals, path condition, heap, class-heaps, ghost variables, event trace, obligations sink."""
import itertools

import z3

from .values import HObj, HList, HBio, HDict, Ref, V
from .smt import TRUE

_oid = itertools.count(1)


def new_oid():
    return next(_oid)


class State:
    def __init__(self):
        self.locals = {}
        self.pc = []
        self.heap = {}
        self.cheap = {}     # (cls, field) -> z3 array term
        self.ghost = {}     # name -> V or z3 term
        self.trace = []     # ghost event log: tuples
        self.notes = []     # diagnostic notes (DEMOTED reasons etc.)

    def fork(self):
        s = State()
        s.locals = dict(self.locals)
        s.pc = list(self.pc)
        s.heap = {k: v.clone() for k, v in self.heap.items()}
        s.cheap = dict(self.cheap)
        s.ghost = dict(self.ghost)
        s.trace = list(self.trace)
        s.notes = self.notes
        return s

    def with_locals(self, new_locals):
        """same heap/pc object (no copy) but different locals: used for inlined calls"""
        s = State.__new__(State)
        s.locals = new_locals
        s.pc = self.pc
        s.heap = self.heap
        s.cheap = self.cheap
        s.ghost = self.ghost
        s.trace = self.trace
        s.notes = self.notes
        return s

    def assume(self, *facts):
        for f in facts:
            if isinstance(f, (list, tuple)):
                self.assume(*f)
            elif isinstance(f, bool):
                if not f:
                    self.pc.append(z3.BoolVal(False))
            elif not z3.is_true(f):
                self.pc.append(f)

    def alloc(self, hobj):
        oid = new_oid()
        self.heap[oid] = hobj
        return Ref(oid)

    def obj(self, ref):
        return self.heap[ref.oid]

    def event(self, *ev):
        self.trace.append(tuple(ev))
