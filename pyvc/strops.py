"""String/bytes operations over ropes and windows. Each function takes the executor `ex`, a State and evaluated args
and returns a list of Res (state, value, exc) -- most are deterministic and return one result with added assumptions.

Semantics follow CPython; every operation here is differential-tested against CPython by harness/stubtest.py on small domains.
"""
import re as _re

import z3

from .smt import (And, Or, Not, Implies, If, Min, Max, iv, fresh_int, fresh_arr, fresh_name, const_int, TRUE, FALSE,
                  I, ArrII, entails)
from .values import (V, SInt, SBool, SNone, NONE, SStr, STuple, Lit, Win, Num, mk_win, concat, str_eq, in_class,
                     all_chars, any_char, occurs_at, find_axioms, WS_BYTES, WS_STR, charset_ranges, qvar,
                     HList, SymSeqA, SExc, Unsupported, Opaque, SReal)
from .shapes import WinShape

decval = z3.Function("decval", ArrII, I, I, I)     # value of base[lo:hi) read as decimal digits
hexval = z3.Function("hexval", ArrII, I, I, I)     # value of base[lo:hi) read as hex digits

DIGITS = [(48, 57)]
HEXDIGITS = [(48, 57), (65, 70), (97, 102)]


def fresh_str(st, name, is_str=True, nonempty=False, canonical=False):
    """an opaque string: window over a fresh base (canonical: deterministic symbol names, same value whenever asked)"""
    if canonical:
        base = z3.Array(name, I, I)
        n = z3.Int(name + ".len")
    else:
        base = fresh_arr(name)
        n = fresh_int(name + ".len")
    st.assume(n >= (1 if nonempty else 0))
    p = qvar("p")
    st.assume(z3.ForAll([p], And(z3.Select(base, p) >= 0, z3.Select(base, p) <= 255)))
    return mk_win(base, iv(0), n, is_str)


def need_win(s, what):
    """single window view of a rope (or a literal as a pseudo window is not possible) else Unsupported"""
    w = s.single_win()
    if w is None:
        raise Unsupported("%s on a non-window string %r" % (what, s))
    return w


def clamp_index(k, n):
    """python slice index normalisation of k against length n -> offset in [0,n]"""
    k2 = If(k < 0, k + n, k)
    return If(k2 < 0, iv(0), If(k2 > n, n, k2))


def clamp_ctx(st, k, n):
    """clamp_index, simplified with the path condition when the index is provably inside [0, n]"""
    if st is not None:
        ck = const_int(k)
        if ck is not None and ck >= 0:
            if entails(st.pc, k <= n, 1000):
                return k
        elif entails(st.pc, And(k >= 0, k <= n), 1000):
            return k
    return clamp_index(k, n)


def slice_str(s, lo, hi, st=None):
    """s[lo:hi] with python semantics; lo/hi are Int terms or None"""
    c = s.concrete()
    cl = const_int(lo) if lo is not None else None
    ch = const_int(hi) if hi is not None else None
    if c is not None and (lo is None or cl is not None) and (hi is None or ch is not None):
        r = c[cl if lo is not None else None: ch if hi is not None else None]
        return SStr([Lit(r)], s.is_str)
    if not s.atoms:
        return s
    if c is not None:
        raise Unsupported("symbolic slice of a literal")
    w = need_win(s, "slice")
    n = w.length()
    a = w.lo + (clamp_ctx(st, lo, n) if lo is not None else iv(0))
    b = w.lo + (clamp_ctx(st, hi, n) if hi is not None else n)
    if not (st is not None and entails(st.pc, a <= b, 1000)):
        b = If(b < a, a, b)
    return SStr([w.sub(z3.simplify(a), z3.simplify(b))], s.is_str)


def index_str(ex, st, s, k):
    """s[k]: bytes -> int, str -> 1-char str; IndexError when out of range"""
    n = s.length()
    kk = If(k < 0, k + n, k)
    ok = And(kk >= 0, kk < n)
    out = []
    st_ok, st_bad = ex.split(st, ok)
    if st_ok is not None:
        c = s.concrete()
        ck = const_int(kk)
        if c is not None and ck is not None:
            v = SStr([Lit(c[ck:ck + 1])], True) if s.is_str else SInt(c[ck])
        elif s.is_str:
            w = need_win(s, "index")
            v = SStr([w.sub(w.lo + kk, w.lo + kk + 1)], True)
        else:
            v = SInt(s.char(kk))
        out.append(ex.res(st_ok, v))
    if st_bad is not None:
        out.append(ex.res_exc(st_bad, SExc(IndexError)))
    return out


def lit_of(v, what):
    if isinstance(v, SStr):
        c = v.concrete()
        if c is not None:
            return c
    raise Unsupported("%s needs a literal pattern, got %r" % (what, v))


def m_find(ex, st, s, args):
    pat = lit_of(args[0], "find")
    if not pat:
        raise Unsupported("find of empty pattern")
    start = args[1].t if len(args) > 1 and isinstance(args[1], SInt) else None
    end = args[2].t if len(args) > 2 and isinstance(args[2], SInt) else None
    c = s.concrete()
    if c is not None and (start is None or const_int(start) is not None) and (end is None or const_int(end) is not None):
        r = c.find(pat, const_int(start) if start is not None else None, const_int(end) if end is not None else None)
        return [ex.res(st, SInt(r))]
    if not s.atoms:
        return [ex.res(st, SInt(-1))]
    w = need_win(s, "find")
    n = w.length()
    a = w.lo + (clamp_index(start, n) if start is not None else iv(0))
    b = w.lo + (clamp_index(end, n) if end is not None else n)
    idx = fresh_int("find")
    st.assume(find_axioms(w, pat, a, b, idx), idx >= -1, idx < Max(n, iv(0)) + 0)
    return [ex.res(st, SInt(idx))]


def prefix_holds(s, pat):
    return And(s.length() >= len(pat), *[s.char(iv(k)) == ch for k, ch in enumerate(pat)])


def sym_prefix(s, p):
    """z3 Bool: string s starts with string p (both single windows)"""
    sw, pw = s.single_win(), p.single_win()
    if sw is None or pw is None or sw.xf or pw.xf:
        raise Unsupported("startswith with a symbolic pattern that is not a plain window")
    j = qvar("j")
    return And(pw.length() <= sw.length(),
               z3.ForAll([j], Implies(And(0 <= j, j < pw.length()), z3.Select(sw.base, sw.lo + j) == z3.Select(pw.base, pw.lo + j))))


def m_startswith(ex, st, s, args):
    a = args[0]
    if isinstance(a, SStr) and a.concrete() is None and len(args) == 1:
        return [ex.res(st, SBool(sym_prefix(s, a)))]
    pats = [lit_of(x, "startswith") for x in a.items] if isinstance(a, STuple) else [lit_of(a, "startswith")]
    if len(args) > 1:
        raise Unsupported("startswith with start/end")
    c = s.concrete()
    if c is not None:
        return [ex.res(st, SBool(c.startswith(tuple(pats))))]
    return [ex.res(st, SBool(Or(*[prefix_holds(s, p) for p in pats])))]


def m_endswith(ex, st, s, args):
    a = args[0]
    pats = [lit_of(x, "endswith") for x in a.items] if isinstance(a, STuple) else [lit_of(a, "endswith")]
    c = s.concrete()
    if c is not None:
        return [ex.res(st, SBool(c.endswith(tuple(pats))))]
    n = s.length()
    return [ex.res(st, SBool(Or(*[And(n >= len(p), *[s.char(n - len(p) + k) == ch for k, ch in enumerate(p)])
                                  for p in pats])))]


def strip_generic(ex, st, s, cls, left, right):
    """strip characters in class `cls` (list of ranges) from the chosen sides"""
    c = s.concrete()
    if c is not None:
        chars = bytes([x for x in range(256) if any(a <= x <= b for a, b in cls)])
        r = c
        if left:
            r = r.lstrip(chars)
        if right:
            r = r.rstrip(chars)
        return SStr([Lit(r)], s.is_str)
    if not s.atoms:
        return s
    w = need_win(s, "strip")
    lo2 = fresh_int("strip.lo") if left else w.lo
    hi2 = fresh_int("strip.hi") if right else w.hi
    p = qvar("p")
    inc = lambda q: in_class(w.char_at(q), cls)
    facts = [w.lo <= lo2, lo2 <= hi2, hi2 <= w.hi]
    if left:
        facts += [z3.ForAll([p], Implies(And(w.lo <= p, p < lo2), inc(p))),
                  Or(lo2 == hi2, Not(inc(lo2))),
                  Or(lo2 == w.lo, inc(lo2 - 1))]
    if right:
        facts += [z3.ForAll([p], Implies(And(hi2 <= p, p < w.hi), inc(p))),
                  Or(lo2 == hi2, Not(inc(hi2 - 1))),
                  Or(hi2 == w.hi, inc(hi2))]            # redundant instance: gives the solver the ground term base[hi2]
    if left and right:
        # all-strippable string: python returns '' ; pin the empty window so later adjacency reasoning is stable
        facts += [Implies(lo2 == hi2, lo2 == w.hi)]
    elif left:
        pass
    st.assume(*facts)
    return SStr([w.sub(lo2, hi2)], s.is_str)


def _strip_cls(s, args):
    if not args or isinstance(args[0], SNone):
        return WS_STR if s.is_str else WS_BYTES
    return charset_ranges(lit_of(args[0], "strip"))


def m_strip(ex, st, s, args):
    return [ex.res(st, strip_generic(ex, st, s, _strip_cls(s, args), True, True))]


def m_rstrip(ex, st, s, args):
    return [ex.res(st, strip_generic(ex, st, s, _strip_cls(s, args), False, True))]


def m_lstrip(ex, st, s, args):
    return [ex.res(st, strip_generic(ex, st, s, _strip_cls(s, args), True, False))]


def _xf(ex, st, s, step):
    c = s.concrete()
    if c is not None:
        t = c.decode("latin-1") if s.is_str else c
        if step == "upper":
            r = t.upper()
        elif step == "lower":
            r = t.lower()
        else:
            r = t.replace(chr(step[1]) if s.is_str else bytes([step[1]]), chr(step[2]) if s.is_str else bytes([step[2]]))
        try:
            return SStr([Lit(r.encode("latin-1") if s.is_str else r)], s.is_str)
        except UnicodeEncodeError:
            raise Unsupported("case mapping leaves latin-1")
    atoms = []
    for a in s.atoms:
        if isinstance(a, Win):
            if step == "upper" and s.is_str:
                # side condition: no sharp-s / micro / y-diaeresis (their upper case is not 1:1 inside latin-1)
                bad = any_char(SStr([a], True), lambda ch: Or(ch == 0xdf, ch == 0xb5, ch == 0xff))
                if not entails(st.pc, Not(bad)):
                    raise Unsupported("str.upper() on text that may contain U+00DF/U+00B5/U+00FF")
            atoms.append(Win(a.base, a.lo, a.hi, a.xf + (step,), a.is_str))
        elif isinstance(a, Lit):
            atoms.append(_xf(ex, st, SStr([a], s.is_str), step).atoms[0])
        elif isinstance(a, Num):
            if step == "lower" and a.kind == "HEX":
                atoms.append(Num("hex", a.t))
            elif step == "upper" and a.kind == "hex":
                atoms.append(Num("HEX", a.t))
            else:
                atoms.append(a)
    return SStr(atoms, s.is_str)


def m_upper(ex, st, s, args):
    return [ex.res(st, _xf(ex, st, s, "upper"))]


def m_lower(ex, st, s, args):
    return [ex.res(st, _xf(ex, st, s, "lower"))]


def m_replace(ex, st, s, args):
    if any(isinstance(x, SStr) and x.concrete() is None for x in args[:2]):
        # replace with a symbolic pattern / replacement: over-approximated by an arbitrary string of the same kind
        return [ex.res(st, fresh_str(st, "replaced", s.is_str))]
    a, b = lit_of(args[0], "replace"), lit_of(args[1], "replace")
    c = s.concrete()
    if c is not None:
        return [ex.res(st, SStr([Lit(c.replace(a, b))], s.is_str))]
    if len(a) == 1 and len(b) == 1 and len(args) == 2:
        return [ex.res(st, _xf(ex, st, s, ("repl", a[0], b[0])))]
    raise Unsupported("general str.replace")


def m_split(ex, st, s, args, kwargs=None):
    maxsplit = None
    if len(args) > 1:
        maxsplit = const_int(args[1].t)
        if maxsplit is None:
            raise Unsupported("symbolic maxsplit")
    if kwargs and "maxsplit" in kwargs:
        maxsplit = const_int(kwargs["maxsplit"].t)
    if maxsplit is not None and maxsplit < 0:
        maxsplit = None
    if not args or isinstance(args[0], SNone):
        return _split_ws(ex, st, s, maxsplit)
    sep = lit_of(args[0], "split")
    if not sep:
        raise Unsupported("empty separator")
    c = s.concrete()
    if c is not None:
        parts = c.split(sep) if maxsplit is None else c.split(sep, maxsplit)
        return [ex.res(st, st.alloc(HList([SStr([Lit(p)], s.is_str) for p in parts])))]
    if not s.atoms:
        return [ex.res(st, st.alloc(HList([s])))]
    w = need_win(s, "split")
    m = len(sep)
    p = qvar("p")
    if maxsplit is not None:
        # fork on the number of separators found (0..maxsplit)
        out = []
        cur_st = st
        cuts = []
        start = w.lo
        for k in range(maxsplit + 1):
            # case: no further separator from `start`
            st_none = cur_st.fork()
            st_none.assume(z3.ForAll([p], Implies(And(start <= p, p + m <= w.hi), Not(occurs_at(w, p, sep)))))
            if ex.feasible(st_none):
                parts = []
                a = w.lo
                for cpos in cuts:
                    parts.append(SStr([w.sub(a, cpos)], s.is_str))
                    a = cpos + m
                parts.append(SStr([w.sub(a, w.hi)], s.is_str))
                out.append(ex.res(st_none, st_none.alloc(HList(parts))))
            if k == maxsplit:
                break
            # case: a separator at position f (first from start)
            f = fresh_int("split.f")
            cur_st = cur_st.fork()
            cur_st.assume(start <= f, f + m <= w.hi, occurs_at(w, f, sep),
                          z3.ForAll([p], Implies(And(start <= p, p < f), Not(occurs_at(w, p, sep)))))
            if not ex.feasible(cur_st):
                cur_st = None
                break
            cuts.append(f)
            start = f + m
        if cur_st is not None and len(cuts) == maxsplit:
            parts = []
            a = w.lo
            for cpos in cuts:
                parts.append(SStr([w.sub(a, cpos)], s.is_str))
                a = cpos + m
            parts.append(SStr([w.sub(a, w.hi)], s.is_str))
            out.append(ex.res(cur_st, cur_st.alloc(HList(parts))))
        return out
    # unbounded split: symbolic table of parts
    name = fresh_name("parts")
    plo = z3.Array(name + ".lo", I, I)
    phi = z3.Array(name + ".hi", I, I)
    n = fresh_int(name + ".n")
    i = qvar("i")
    sel = z3.Select
    st.assume(n >= 1, sel(plo, 0) == w.lo, sel(phi, n - 1) == w.hi,
              z3.ForAll([i], Implies(And(0 <= i, i < n), And(w.lo <= sel(plo, i), sel(plo, i) <= sel(phi, i), sel(phi, i) <= w.hi))),
              z3.ForAll([i], Implies(And(0 <= i, i < n - 1), And(sel(plo, i + 1) == sel(phi, i) + m, occurs_at(w, sel(phi, i), sep)))),
              # same fact, phrased on the successor so that it is triggered by a term plo[i]
              z3.ForAll([i], Implies(And(0 < i, i < n), And(sel(plo, i) == sel(phi, i - 1) + m, occurs_at(w, sel(phi, i - 1), sep)))),
              # no separator occurrence starts inside a part (for the last part: none that fits)
              z3.ForAll([i, p], Implies(And(0 <= i, i < n - 1, sel(plo, i) <= p, p < sel(phi, i)), Not(occurs_at(w, p, sep)))),
              z3.ForAll([p], Implies(And(sel(plo, n - 1) <= p, p + m <= w.hi), Not(occurs_at(w, p, sep)))))
    seq = SymSeqA(iv(0), n, [plo, phi], WinShape(w.base, s.is_str, w.xf))
    return [ex.res(st, st.alloc(HList(sym=seq)))]


def _split_ws(ex, st, s, maxsplit):
    c = s.concrete()
    if c is not None:
        parts = c.split(None, -1 if maxsplit is None else maxsplit)
        return [ex.res(st, st.alloc(HList([SStr([Lit(p)], s.is_str) for p in parts])))]
    if not s.atoms:
        return [ex.res(st, st.alloc(HList([])))]
    w = need_win(s, "split()")
    cls = WS_STR if s.is_str else WS_BYTES
    name = fresh_name("words")
    plo = z3.Array(name + ".lo", I, I)
    phi = z3.Array(name + ".hi", I, I)
    n = fresh_int(name + ".n")
    p = qvar("p")
    sel = z3.Select
    isws = lambda q: in_class(w.char_at(q), cls)
    # only the first word is characterised (enough for `status.split()[0]`); the rest is left unconstrained
    st.assume(n >= 0,
              (n == 0) == z3.ForAll([p], Implies(And(w.lo <= p, p < w.hi), isws(p))),
              Implies(n >= 1, And(w.lo <= sel(plo, 0), sel(plo, 0) < sel(phi, 0), sel(phi, 0) <= w.hi,
                                  z3.ForAll([p], Implies(And(w.lo <= p, p < sel(plo, 0)), isws(p))),
                                  z3.ForAll([p], Implies(And(sel(plo, 0) <= p, p < sel(phi, 0)), Not(isws(p)))),
                                  Or(sel(phi, 0) == w.hi, isws(sel(phi, 0))))))
    i = qvar("i")
    st.assume(z3.ForAll([i], Implies(And(0 <= i, i < n), And(w.lo <= sel(plo, i), sel(plo, i) <= sel(phi, i), sel(phi, i) <= w.hi))))
    seq = SymSeqA(iv(0), n, [plo, phi], WinShape(w.base, s.is_str, w.xf))
    return [ex.res(st, st.alloc(HList(sym=seq)))]


def m_join(ex, st, s, args):
    lst = args[0]
    from .values import Ref as _Ref, JoinAtom
    if type(lst).__name__ == "SGen":
        # sep.join(<generator expression>): materialise the generator (same evaluation order as CPython)
        ge = lst.node
        if len(ge.generators) != 1 or ge.generators[0].ifs:
            raise Unsupported("join over a generator with filters / nesting")
        rs = ex.ev(ge.generators[0].iter, st)
        if len(rs) != 1 or rs[0].exc is not None:
            raise Unsupported("join generator iterable forks")
        ms = ex.map_seq(rs[0].st, rs[0].v, ge.generators[0].target, ge.elt)
        if len(ms) != 1 or ms[0].exc is not None:
            raise Unsupported("join generator element forks")
        st, lst = ms[0].st, ms[0].v
    if isinstance(lst, _Ref) and isinstance(st.obj(lst), HList) and st.obj(lst).prefix is not None and s.concrete() == b"":
        o = st.obj(lst)
        out = SStr([], s.is_str)
        for it in o.prefix:
            if not isinstance(it, SStr):
                raise Unsupported("join of non-string")
            out = concat(out, it)
        return [ex.res(st, SStr(list(out.atoms) + [JoinAtom(o.sym, s.is_str)], s.is_str))]
    if isinstance(lst, _Ref) and isinstance(st.obj(lst), HList) and st.obj(lst).sym is not None and s.concrete() == b"" \
            and not isinstance(st.obj(lst).sym.eshape, WinShape):
        return [ex.res(st, SStr([JoinAtom(st.obj(lst).sym, s.is_str)], s.is_str))]
    items = ex.concrete_items(st, lst)
    if items is None:
        seq = ex.sym_seq(st, lst)
        if seq is not None and isinstance(seq.eshape, WinShape) and s.concrete() == b"" and seq.eshape.is_str == s.is_str:
            # join of pieces that are provably adjacent windows of one stream is the enclosing window
            i = qvar("i")
            lo = lambda k: seq.elem(k).single_win().lo
            hi = lambda k: seq.elem(k).single_win().hi
            adj = And(z3.ForAll([i], Implies(And(seq.lo <= i, i < seq.hi - 1), hi(i) == lo(i + 1))),
                      z3.ForAll([i], Implies(And(seq.lo <= i, i < seq.hi), lo(i) <= hi(i))))
            if entails(st.pc, adj, 5000):
                n = seq.length()
                a = If(n > 0, lo(seq.lo), iv(0))
                b = If(n > 0, hi(seq.hi - 1), iv(0))
                return [ex.res(st, mk_win(seq.eshape.base, a, b, s.is_str, seq.eshape.xf))]
        return [ex.res(st, fresh_str(st, "joined", s.is_str))]
    out = SStr([], s.is_str)
    for k, it in enumerate(items):
        if not isinstance(it, SStr):
            raise Unsupported("join of non-string")
        if k:
            out = concat(out, s)
        out = concat(out, it)
    return [ex.res(st, out)]


LATIN = ("latin-1", "latin1", "iso-8859-1", "l1")


def _enc_name(args, kwargs=None):
    if args:
        c = args[0].concrete_py() if isinstance(args[0], SStr) else None
        if c is None:
            raise Unsupported("symbolic encoding name")
        return c.lower().replace("_", "-")
    return "utf-8"


def _ascii_known(ex, st, s):
    for a in s.atoms:
        if isinstance(a, Lit):
            if any(ch > 127 for ch in a.b):
                return False
        elif isinstance(a, Win):
            if not entails(st.pc, all_chars(SStr([a], s.is_str), lambda ch: ch <= 127)):
                return False
    return True


def m_encode(ex, st, s, args):
    enc = _enc_name(args)
    if enc in LATIN:
        return [ex.res(st, s.with_str(False))]
    if enc in ("utf-8", "utf8", "ascii"):
        if _ascii_known(ex, st, s):
            return [ex.res(st, s.with_str(False))]
        if enc == "ascii":
            raise Unsupported("ascii encode of possibly non-ascii text")
        # utf-8 of latin-1 text with non-ascii chars: different bytes; model as opaque with the ascii case pinned
        r = fresh_str(st, "utf8", False)
        st.assume(Implies(all_chars(s, lambda ch: ch <= 127), str_eq(r, s.with_str(False))))
        return [ex.res(st, r)]
    raise Unsupported("encode(%s)" % enc)


def m_decode(ex, st, s, args):
    enc = _enc_name(args)
    if enc in LATIN:
        return [ex.res(st, s.with_str(True))]
    if enc in ("utf-8", "utf8", "ascii"):
        if _ascii_known(ex, st, s):
            return [ex.res(st, s.with_str(True))]
        out = []
        ok = all_chars(s, lambda ch: ch <= 127)
        a, b = ex.split(st, ok)
        if a is not None:
            out.append(ex.res(a, s.with_str(True)))
        if b is not None:
            # non-ascii: either decodes to some other text (outside the latin-1 model) or raises
            out.append(ex.res_exc(b, SExc(UnicodeDecodeError)))
            b2 = b.fork()
            out.append(ex.res(b2, fresh_str(b2, "utf8dec", True)))
        return out
    raise Unsupported("decode(%s)" % enc)


# latin-1 code points for which str.isnumeric() is True
NUMERIC_STR = [(48, 57), (0xb2, 0xb3), (0xb9, 0xb9), (0xbc, 0xbe)]
DIGIT_STR = [(48, 57), (0xb2, 0xb3), (0xb9, 0xb9)]


def m_isnumeric(ex, st, s, args):
    if not s.is_str:
        raise Unsupported("bytes.isnumeric")
    return [ex.res(st, SBool(And(s.length() > 0, all_chars(s, lambda ch: in_class(ch, NUMERIC_STR)))))]


def m_isdigit(ex, st, s, args):
    cls = DIGIT_STR if s.is_str else DIGITS
    return [ex.res(st, SBool(And(s.length() > 0, all_chars(s, lambda ch: in_class(ch, cls)))))]


def contains(ex, st, s, item):
    """item in s"""
    if isinstance(item, SInt):
        if s.is_str:
            raise Unsupported("int in str")
        return SBool(any_char(s, lambda ch: ch == item.t))
    if isinstance(item, SStr):
        c = item.concrete()
        if c is not None and len(c) == 1:
            return SBool(any_char(s, lambda ch: ch == c[0]))
        if c is not None and len(c) == 0:
            return SBool(True)
        sc = s.concrete()
        if sc is not None and c is not None:
            return SBool(c in sc)
        if sc is not None:
            # symbolic 1-char item in a literal string, or general: only single char supported
            n = item.length()
            if const_int(n) == 1:
                ch0 = item.char(iv(0))
                return SBool(Or(*[ch0 == x for x in sc]))
        if c is not None:
            w = need_win(s, "in")
            p = qvar("p")
            return SBool(z3.Exists([p], And(w.lo <= p, p + len(c) <= w.hi, occurs_at(w, p, c))))
    raise Unsupported("substring test %r in %r" % (item, s))


def to_int(ex, st, v, base=10):
    """int(v[, base]) -> list of Res"""
    if isinstance(v, SInt):
        return [ex.res(st, v)]
    if isinstance(v, SBool):
        return [ex.res(st, SInt(If(v.t, iv(1), iv(0))))]
    if isinstance(v, SReal):
        return [ex.res(st, SInt(z3.ToInt(v.t)))]   # floor; exact for the non-negative values used
    if not isinstance(v, SStr):
        raise Unsupported("int(%r)" % (v,))
    c = v.concrete_py()
    if c is not None:
        try:
            return [ex.res(st, SInt(int(c, base)))]
        except ValueError:
            return [ex.res_exc(st, SExc(ValueError))]
    # rope of a decimal rendering plus whitespace: int("%d\n" % n) == n
    if base == 10 and v.atoms and isinstance(v.atoms[0], Num) and v.atoms[0].kind == "dec" and all(
            isinstance(a, Lit) and a.b.strip() == b"" for a in v.atoms[1:]):
        return [ex.res(st, SInt(v.atoms[0].t))]
    w = v.single_win()
    if w is None or w.xf:
        raise Unsupported("int() of %r" % (v,))
    cls = DIGITS if base == 10 else HEXDIGITS if base == 16 else None
    if cls is None:
        raise Unsupported("int base %r" % base)
    fn = decval if base == 10 else hexval
    alld = And(w.length() > 0, all_chars(v, lambda ch: in_class(ch, cls)))
    out = []
    if entails(st.pc, alld, 2000):
        # the code has already established that the text is all digits: int() cannot raise
        a, b = st, None
    else:
        a, b = ex.split(st, alld)
    if a is not None:
        val = fn(w.base, w.lo, w.hi)
        a.assume(val >= 0, Implies(w.length() == 1, val == digit_value(z3.Select(w.base, w.lo))))
        a.assume(pyint(w.base, w.lo, w.hi, iv(base)) == val)
        out.append(ex.res(a, SInt(val)))
    if b is not None:
        # not plain digits: definitely invalid if empty or contains a char that can never occur in an int literal
        ws = WS_STR if v.is_str else WS_BYTES
        okch = lambda ch: Or(in_class(ch, cls), in_class(ch, ws), ch == 43, ch == 45, ch == 95,
                             (And(ch >= 0xb2, False)))
        if v.is_str:
            # unicode digits are accepted by int() only if they are decimal digits (Nd): none in latin-1 besides 0-9
            pass
        definitely_bad = Or(w.length() == 0, Not(all_chars(v, okch)))
        b1, b2 = ex.split(b, definitely_bad)
        if b1 is not None:
            out.append(ex.res_exc(b1, SExc(ValueError)))
        if b2 is not None:
            out.append(ex.res_exc(b2, SExc(ValueError)))
            b3 = b2.fork()
            # int() is a function of the text: signs / blanks / underscores give SOME integer, the same every time
            out.append(ex.res(b3, SInt(pyint(w.base, w.lo, w.hi, iv(base)))))
    return out


pyint = z3.Function("pyint", z3.ArraySort(z3.IntSort(), z3.IntSort()), z3.IntSort(), z3.IntSort(), z3.IntSort(), z3.IntSort())


def digit_value(c):
    return If(And(c >= 48, c <= 57), c - 48, If(And(c >= 65, c <= 70), c - 55, c - 87))


def to_str(ex, st, v):
    if isinstance(v, SStr):
        if v.is_str:
            return v
        return fresh_str(st, "repr", True)
    if isinstance(v, SInt):
        c = const_int(v.t)
        if c is not None:
            return SStr.lit(str(c))
        s = SStr([Num("dec", v.t)], True)
        st.assume(*s.axioms())
        return s
    if isinstance(v, SBool):
        return fresh_str(st, "boolstr", True)
    if isinstance(v, SNone):
        return SStr.lit("None")
    return fresh_str(st, "str", True)


_FMT = _re.compile(rb"%(?:\((\w+)\))?([-+ #0]*)(\d*)(?:\.(\d+))?([sdrXxif%])")


def format_percent(ex, st, fmt, arg):
    """fmt % arg for a literal fmt"""
    f = fmt.concrete()
    if f is None:
        raise Unsupported("symbolic format string")
    specs = list(_FMT.finditer(f))
    named = any(m.group(1) for m in specs)
    nargs = sum(1 for m in specs if m.group(5) != b"%")
    if named:
        d = ex.dict_items(st, arg)
        vals = None
    else:
        if isinstance(arg, STuple):
            vals = list(arg.items)
        else:
            vals = [arg]
        if len(vals) != nargs:
            if nargs == 1:
                vals = [arg]
            else:
                return None   # TypeError: caller handles
    atoms = []
    pos = 0
    k = 0
    for m in specs:
        atoms.append(Lit(f[pos:m.start()]))
        pos = m.end()
        conv = m.group(5)
        if conv == b"%":
            atoms.append(Lit(b"%"))
            continue
        if m.group(2) or m.group(3) or m.group(4):
            return SStr(fresh_str(st, "fmt", fmt.is_str).atoms, fmt.is_str)
        if named:
            key = m.group(1).decode()
            v = d.get(key)
            if v is None:
                raise Unsupported("format key %s" % key)
        else:
            v = vals[k]
            k += 1
        if conv == b"s":
            sv = to_str(ex, st, v) if fmt.is_str else v
            if not isinstance(sv, SStr):
                raise Unsupported("%s of non-string in bytes format")
            atoms += list(sv.with_str(fmt.is_str).atoms)
        elif conv in (b"d", b"i"):
            if isinstance(v, SInt):
                c = const_int(v.t)
                if c is not None:
                    atoms.append(Lit(str(c).encode()))
                else:
                    a = Num("dec", v.t)
                    st.assume(*SStr([a]).axioms())
                    atoms.append(a)
            else:
                atoms += list(fresh_str(st, "fmtd", fmt.is_str).atoms)
        elif conv in (b"X", b"x"):
            if isinstance(v, SInt):
                c = const_int(v.t)
                if c is not None:
                    atoms.append(Lit((("%X" if conv == b"X" else "%x") % c).encode()))
                else:
                    a = Num("HEX" if conv == b"X" else "hex", v.t)
                    st.assume(*SStr([a]).axioms())
                    atoms.append(a)
            else:
                raise Unsupported("%X of non-int")
        else:
            atoms += list(fresh_str(st, "fmtr", fmt.is_str).atoms)
    atoms.append(Lit(f[pos:]))
    return SStr(atoms, fmt.is_str)


METHODS = {
    "find": m_find, "startswith": m_startswith, "endswith": m_endswith, "strip": m_strip, "rstrip": m_rstrip,
    "lstrip": m_lstrip, "upper": m_upper, "lower": m_lower, "replace": m_replace, "join": m_join,
    "encode": m_encode, "decode": m_decode, "isnumeric": m_isnumeric, "isdigit": m_isdigit,
}
