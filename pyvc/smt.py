"""SMT helpers for pyvc: fresh names, boolean helpers, solver wrappers (z3 API + cvc5 CLI on SMT-LIB export)."""
import itertools
import os
import subprocess
import tempfile
import time

import z3

_counter = itertools.count(1)

I = z3.IntSort()
B = z3.BoolSort()
R = z3.RealSort()
ArrII = z3.ArraySort(I, I)


def fresh_name(prefix):
    return "%s!%d" % (prefix, next(_counter))


def fresh_int(prefix):
    return z3.Int(fresh_name(prefix))


def fresh_bool(prefix):
    return z3.Bool(fresh_name(prefix))


def fresh_real(prefix):
    return z3.Real(fresh_name(prefix))


def fresh_arr(prefix):
    return z3.Array(fresh_name(prefix), I, I)


def iv(n):
    return z3.IntVal(n)


TRUE = z3.BoolVal(True)
FALSE = z3.BoolVal(False)


def And(*xs):
    xs = [x for x in _flat(xs)]
    xs = [x for x in xs if not z3.is_true(x)]
    if any(z3.is_false(x) for x in xs):
        return FALSE
    if not xs:
        return TRUE
    if len(xs) == 1:
        return xs[0]
    return z3.And(*xs)


def Or(*xs):
    xs = [x for x in _flat(xs)]
    xs = [x for x in xs if not z3.is_false(x)]
    if any(z3.is_true(x) for x in xs):
        return TRUE
    if not xs:
        return FALSE
    if len(xs) == 1:
        return xs[0]
    return z3.Or(*xs)


def _flat(xs):
    for x in xs:
        if isinstance(x, (list, tuple)):
            yield from _flat(x)
        elif isinstance(x, bool):
            yield z3.BoolVal(x)
        else:
            yield x


def Not(x):
    if isinstance(x, bool):
        return z3.BoolVal(not x)
    if z3.is_true(x):
        return FALSE
    if z3.is_false(x):
        return TRUE
    return z3.Not(x)


def Implies(a, b):
    if isinstance(a, bool):
        a = z3.BoolVal(a)
    if isinstance(b, bool):
        b = z3.BoolVal(b)
    if z3.is_true(a):
        return b
    if z3.is_false(a) or z3.is_true(b):
        return TRUE
    return z3.Implies(a, b)


def If(c, a, b):
    if isinstance(c, bool):
        return a if c else b
    if z3.is_true(c):
        return a
    if z3.is_false(c):
        return b
    return z3.If(c, a, b)


def Min(a, b):
    return If(a <= b, a, b)


def Max(a, b):
    return If(a >= b, a, b)


def const_int(t):
    """python int if the term simplifies to a numeral, else None"""
    if isinstance(t, int):
        return t
    s = z3.simplify(t)
    if z3.is_int_value(s):
        return s.as_long()
    return None


def const_bool(t):
    if isinstance(t, bool):
        return t
    s = z3.simplify(t)
    if z3.is_true(s):
        return True
    if z3.is_false(s):
        return False
    return None


class Stats:
    checks = 0
    time = 0.0


RLIMIT_PER_MS = 3000       # deterministic resource budget per nominal millisecond (calibrated: ~1 ms of z3 work)


WALL_BACKSTOP = 8      # wall-clock backstop as a multiple of the nominal budget (the deterministic rlimit is what decides)


def check_sat(assertions, timeout_ms=5000, mbqi=True):
    """returns 'sat' | 'unsat' | 'unknown' and the solver (for models).
    The budget is z3's deterministic resource limit (rlimit), so verdicts do not depend on machine load; the wall-clock
    timeout is only a backstop (8x)."""
    s = z3.Solver()
    s.set("rlimit", int(timeout_ms * RLIMIT_PER_MS))
    s.set("timeout", int(timeout_ms * WALL_BACKSTOP))
    if not mbqi:
        s.set("smt.mbqi", False)
    for a in assertions:
        s.add(a)
    t0 = time.time()
    r = s.check()
    Stats.checks += 1
    Stats.time += time.time() - t0
    return str(r), s


def prove(assertions, timeout_ms=5000):
    """unsat-oriented check: E-matching only first (fast), then with MBQI; returns (result, solver)"""
    r, s = check_sat(assertions, timeout_ms, mbqi=False)
    if r == "unsat":
        return r, s
    return check_sat(assertions, timeout_ms, mbqi=True)


def _symbols(f, cache={}):
    """uninterpreted constants / functions occurring in f"""
    key = f.get_id()
    r = cache.get(key)
    if r is not None and r[0].eq(f):
        return r[1]
    out, seen, stack = set(), set(), [f]
    while stack:
        x = stack.pop()
        i = x.get_id()
        if i in seen:
            continue
        seen.add(i)
        if z3.is_quantifier(x):
            stack.append(x.body())
            continue
        if z3.is_app(x):
            d = x.decl()
            if d.kind() == z3.Z3_OP_UNINTERPRETED:
                out.add(d.name())
            stack.extend(x.children())
    cache[key] = (f, out)        # holding f keeps its id from being reused
    return out


def cone_of_influence(assertions, seed):
    """the assertions connected to `seed` (an assertion) through shared uninterpreted symbols, transitively.
    Returns (cone, rest). Signature-disjoint sets of satisfiable formulas over Int/Bool/arrays are jointly satisfiable,
    so a model of the cone extends to all assertions iff `rest` is satisfiable."""
    syms = set(_symbols(seed))
    cone, rest = [seed], list(assertions)
    changed = True
    while changed:
        changed = False
        keep = []
        for a in rest:
            sa = _symbols(a)
            if sa & syms:
                cone.append(a)
                syms |= sa
                changed = True
            else:
                keep.append(a)
        rest = keep
    return cone, rest


def _has_quant(f):
    key = f.get_id()
    r = _HQ.get(key)
    if r is None or not r[0].eq(f):
        r = (f, _hq(f))
        _HQ[key] = r
    return r[1]


_HQ = {}


def _hq(f):
    seen = set()
    stack = [f]
    while stack:
        x = stack.pop()
        i = x.get_id()
        if i in seen:
            continue
        seen.add(i)
        if z3.is_quantifier(x):
            return True
        stack.extend(x.children())
    return False


FULL_FEASIBILITY = os.environ.get("PYVC_FULL_FEAS") == "1"


def quick_sat(assertions, full_timeout_ms=400):
    """two-tier feasibility: (1) quantifier-free part only (dropping hypotheses is sound for refutation);
    (2) everything, short timeout. 'unknown' counts as satisfiable."""
    qf = [a for a in assertions if not _has_quant(a)]
    r, _ = check_sat(qf, 2000)
    if r == "unsat":
        return "unsat"
    if len(qf) == len(assertions) or not FULL_FEASIBILITY:
        return r
    r2, _ = check_sat(assertions, full_timeout_ms)
    return r2


def feasible(pc, timeout_ms=2000):
    """path feasibility: 'unknown' counts as feasible (conservative)."""
    r, _ = check_sat(pc, timeout_ms)
    return r != "unsat"


def entails(pc, goal, timeout_ms=3000):
    """True iff pc |= goal is established (unsat of pc & not goal); unknown -> False"""
    r, _ = check_sat(list(pc) + [Not(goal)], timeout_ms, mbqi=False)
    return r == "unsat"


def to_smt2(assertions, logic="ALL"):
    s = z3.Solver()
    for a in assertions:
        s.add(a)
    txt = s.to_smt2()
    # z3 emits "(set-info :status ...)" and no logic; cvc5 wants a logic
    lines = [l for l in txt.splitlines() if not l.startswith("(set-info")]
    return "(set-logic %s)\n" % logic + "\n".join(lines) + "\n"


CVC5 = "/usr/bin/cvc5"


def cvc5_check(smt2_text, timeout_s=10):
    """run the cvc5 CLI on an SMT-LIB text; returns 'sat'|'unsat'|'unknown'"""
    if not os.path.exists(CVC5):
        return "unknown"
    with tempfile.NamedTemporaryFile("w", suffix=".smt2", delete=False) as f:
        f.write(smt2_text)
        path = f.name
    try:
        p = subprocess.run([CVC5, "--tlimit=%d" % int(timeout_s * 3000), "--full-saturate-quant", path],
                           capture_output=True, text=True, timeout=timeout_s * 3 + 5)
        out = p.stdout.strip().splitlines()
        for l in out:
            if l.strip() in ("sat", "unsat", "unknown"):
                return l.strip()
        return "unknown"
    except Exception:
        return "unknown"
    finally:
        try:
            os.unlink(path)
        except OSError:
            pass
