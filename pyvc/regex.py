"""Regular expressions of the repository compiled (from the pattern string of the LIVE compiled object) into
character-class predicates.  Supported subset: a sequence of items, each a literal / class / category with a
repeat of {1}, +, *, optionally wrapped in capture groups; `fullmatch`, `search`, `match`.
  * variable-length patterns must consist of ONE repeated class (e.g. TOKEN_RE, HEADER_VALUE_RE);
  * fixed-length patterns may be any sequence of single-char items (e.g. VERSION_RE) and support groups.
Anything else (anchors, alternation, backrefs, flags) raises Unsupported -> the function is demoted.
"""
try:
    import re._parser as sre_parse
    import re._constants as sre_c
except ImportError:  # python < 3.11
    import sre_parse
    import sre_constants as sre_c

import z3

from .smt import And, Or, Not, Implies, iv, TRUE, FALSE
from .values import SStr, SBool, SNone, NONE, MatchV, Unsupported, in_class, all_chars, any_char, Win

_cache = {}

CATS = {
    "CATEGORY_DIGIT": [(48, 57)],
    "CATEGORY_SPACE": [(9, 13), (0x1c, 0x1f), (32, 32), (0x85, 0x85), (0xa0, 0xa0)],
    "CATEGORY_WORD": [(48, 57), (65, 90), (95, 95), (97, 122), (0xaa, 0xaa), (0xb2, 0xb3), (0xb5, 0xb5), (0xb9, 0xba),
                      (0xbc, 0xbe), (0xc0, 0xd6), (0xd8, 0xf6), (0xf8, 0xff)],
}


def _cls_of(item):
    """-> (ranges, negated) for a single-character item"""
    op, av = item
    name = str(op)
    if name == "LITERAL":
        return [(av, av)], False
    if name == "NOT_LITERAL":
        return [(av, av)], True
    if name == "ANY":
        return [(10, 10)], True
    if name == "IN":
        ranges, neg = [], False
        for (o2, a2) in av:
            n2 = str(o2)
            if n2 == "NEGATE":
                neg = True
            elif n2 == "LITERAL":
                ranges.append((a2, a2))
            elif n2 == "RANGE":
                ranges.append((a2[0], a2[1]))
            elif n2 == "CATEGORY":
                c = CATS.get(str(a2))
                if c is None:
                    raise Unsupported("regex category %s" % a2)
                ranges += c
            else:
                raise Unsupported("regex class member %s" % n2)
        return ranges, neg
    raise Unsupported("regex item %s" % name)


def compile_pattern(pattern):
    """-> list of elements: ('one', ranges, neg, groupno|None) | ('rep', ranges, neg, min, groupno|None)"""
    if pattern in _cache:
        return _cache[pattern]
    if isinstance(pattern, bytes):
        raise Unsupported("bytes regex")
    tree = sre_parse.parse(pattern)
    if tree.state.flags & ~(sre_c.SRE_FLAG_UNICODE):
        raise Unsupported("regex flags")
    elems = []

    def walk(items, group):
        for it in items:
            name = str(it[0])
            if name == "SUBPATTERN":
                gno, addf, delf, sub = it[1]
                if addf or delf:
                    raise Unsupported("regex inline flags")
                walk(sub, gno)
            elif name in ("MAX_REPEAT",):
                lo, hi, sub = it[1]
                if len(sub) != 1:
                    raise Unsupported("regex repeat of a sequence")
                ranges, neg = _cls_of(sub[0])
                if hi == sre_c.MAXREPEAT:
                    if lo not in (0, 1):
                        raise Unsupported("regex repeat {%d,}" % lo)
                    elems.append(("rep", ranges, neg, lo, group))
                elif lo == hi:
                    for _ in range(lo):
                        elems.append(("one", ranges, neg, group))
                else:
                    raise Unsupported("regex bounded repeat")
            elif name == "AT":
                w = str(it[1])
                if w in ("AT_BEGINNING", "AT_BEGINNING_STRING") and not elems:
                    elems.append(("at_begin",))
                elif w in ("AT_END",):
                    elems.append(("at_end",))          # '$': end of string OR just before a trailing newline
                elif w in ("AT_END_STRING",):
                    elems.append(("at_end_string",))
                else:
                    raise Unsupported("regex anchor %s" % w)
            elif name in ("BRANCH", "GROUPREF", "ASSERT", "ASSERT_NOT", "MIN_REPEAT", "ATOMIC_GROUP",
                          "POSSESSIVE_REPEAT"):
                raise Unsupported("regex construct %s" % name)
            else:
                ranges, neg = _cls_of(it)
                elems.append(("one", ranges, neg, group))
    walk(tree, None)
    _cache[pattern] = elems
    return elems


def _pred(ranges, neg):
    def p(c):
        t = in_class(c, ranges)
        return Not(t) if neg else t
    return p


def apply(ex, st, rv, kind, s):
    if not isinstance(s, SStr) or not s.is_str:
        raise Unsupported("regex on non-str %r" % (s,))
    elems = list(compile_pattern(rv.pattern))
    # anchors: '^' first is redundant for match/fullmatch and turns search into match; a trailing '$' is redundant for
    # fullmatch; for match/search it also accepts one trailing newline after the matched text
    dollar = False
    if elems and elems[0][0] == "at_begin":
        elems = elems[1:]
        if kind == "search":
            kind = "match"
    if elems and elems[-1][0] in ("at_end", "at_end_string"):
        last = elems[-1][0]
        elems = elems[:-1]
        if kind == "fullmatch":
            pass
        elif kind == "match":
            if last == "at_end_string":
                kind = "fullmatch"
            else:
                dollar = True
        else:
            raise Unsupported("regex search with an end anchor")
    if any(e[0] in ("at_begin", "at_end", "at_end_string") for e in elems):
        raise Unsupported("regex anchor in the middle of a pattern")
    if dollar:
        if len(elems) != 1 or elems[0][0] != "rep":
            raise Unsupported("'$' after a non-repeat pattern")
        _, ranges, neg, lo, _g = elems[0]
        p = _pred(ranges, neg)
        n = s.length()
        from .strops import slice_str
        body_all = And(n >= lo, all_chars(s, p))
        head = slice_str(s, iv(0), n - 1, st)
        body_nl = And(n >= 1 + lo, s.char(n - 1) == 10, all_chars(head, p))
        a, b = ex.split(st, Or(body_all, body_nl))
        out = []
        if a is not None:
            out.append(ex.res(a, MatchV({})))
        if b is not None:
            out.append(ex.res(b, NONE))
        return out
    reps = [e for e in elems if e[0] == "rep"]
    out = []
    if not reps:
        # fixed length
        n = len(elems)
        if kind == "search":
            if n == 1:
                cond = any_char(s, _pred(elems[0][1], elems[0][2]))
                a, b = ex.split(st, cond)
                if a is not None:
                    out.append(ex.res(a, MatchV({})))
                if b is not None:
                    out.append(ex.res(b, NONE))
                return out
            raise Unsupported("regex search of a multi-char pattern")
        conj = [s.length() == n] if kind == "fullmatch" else [s.length() >= n]
        for k, e in enumerate(elems):
            conj.append(_pred(e[1], e[2])(s.char(iv(k))))
        a, b = ex.split(st, And(*conj))
        if a is not None:
            groups = {}
            from .strops import slice_str
            gpos = {}
            for k, e in enumerate(elems):
                if e[3] is not None:
                    gpos.setdefault(e[3], []).append(k)
            for g, ks in gpos.items():
                groups[g] = slice_str(s, iv(min(ks)), iv(max(ks) + 1))
            groups[0] = slice_str(s, iv(0), iv(n))
            out.append(ex.res(a, MatchV(groups)))
        if b is not None:
            out.append(ex.res(b, NONE))
        return out
    if len(elems) != 1:
        raise Unsupported("regex mixing repeats with other items")
    _, ranges, neg, lo, _g = elems[0]
    p = _pred(ranges, neg)
    if kind == "fullmatch":
        cond = And(s.length() >= lo, all_chars(s, p))
    elif kind == "search":
        cond = any_char(s, p) if lo >= 1 else TRUE
    else:  # match: prefix
        cond = (And(s.length() >= 1, p(s.char(iv(0)))) if lo >= 1 else TRUE)
    a, b = ex.split(st, cond)
    if a is not None:
        out.append(ex.res(a, MatchV({})))
    if b is not None:
        out.append(ex.res(b, NONE))
    return out
