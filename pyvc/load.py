"""Repository loader: AST index of /repo (re-read on every run) + live import of the stdlib-only modules for constants,
regex patterns and class hierarchies."""
import ast
import hashlib
import importlib
import os
import sys
import types

REPO = os.environ.get("PYVC_REPO", "/repo")


def _ordered_walk(node):
    """pre-order, source order"""
    yield node
    for ch in ast.iter_child_nodes(node):
        yield from _ordered_walk(ch)


def _annotate_sites(fnode):
    """position-independent names for obligations: the k-th call of `callee` / the k-th statement inside this function
    (adding or removing lines around or inside the function does not rename anything unless it adds such a call / statement
    before it)"""
    counts = {}
    nstmt = 0
    for n in _ordered_walk(fnode):
        if isinstance(n, ast.Call):
            f = n.func
            key = f.attr if isinstance(f, ast.Attribute) else f.id if isinstance(f, ast.Name) else "call"
            k = counts.get(key, 0)
            counts[key] = k + 1
            n._site = "%s#%d" % (key, k)
        elif isinstance(n, ast.stmt) and n is not fnode:
            n._sid = "s%d" % nstmt
            nstmt += 1


class FuncInfo:
    def __init__(self, qual, node, module, cls, path):
        self.qual = qual
        self.node = node
        self.module = module
        self.cls = cls
        self.path = path
        self.lineno = node.lineno
        body = node.body
        if body and isinstance(body[0], ast.Expr) and isinstance(getattr(body[0], "value", None), ast.Constant) \
                and isinstance(body[0].value.value, str):
            body = body[1:]
        self.body = body
        self.sha = hashlib.sha256("\n".join(ast.unparse(s) for s in body).encode()).hexdigest()[:16]
        self.is_generator = any(isinstance(n, (ast.Yield, ast.YieldFrom)) for n in ast.walk(node))
        _annotate_sites(node)


class Repo:
    def __init__(self, root=None):
        self.root = root or REPO
        self.funcs = {}
        self.classes = {}     # 'module:Class' -> ClassDef
        self.modules = {}     # module name -> ast.Module
        self._live = {}
        self._scan()

    def _scan(self):
        base = os.path.join(self.root, "gunicorn")
        for dirpath, _dirs, files in os.walk(base):
            for f in sorted(files):
                if not f.endswith(".py"):
                    continue
                path = os.path.join(dirpath, f)
                rel = os.path.relpath(path, self.root)[:-3].replace(os.sep, ".")
                if rel.endswith(".__init__"):
                    rel = rel[:-9]
                try:
                    tree = ast.parse(open(path).read())
                except SyntaxError:
                    continue
                self.modules[rel] = tree
                self._index(tree.body, rel, None, path)

    def _index(self, body, module, cls, path):
        for n in body:
            if isinstance(n, (ast.FunctionDef, ast.AsyncFunctionDef)):
                qual = "%s:%s" % (module, (cls + "." if cls else "") + n.name)
                self.funcs[qual] = FuncInfo(qual, n, module, cls, path)
            elif isinstance(n, ast.ClassDef):
                cname = (cls + "." if cls else "") + n.name
                self.classes["%s:%s" % (module, cname)] = n
                self._index(n.body, module, cname, path)
                # class-level aliases like `next = __next__`
                for s in n.body:
                    if isinstance(s, ast.Assign) and isinstance(s.value, ast.Name) and len(s.targets) == 1 \
                            and isinstance(s.targets[0], ast.Name):
                        src = "%s:%s.%s" % (module, cname, s.value.id)
                        if src in self.funcs:
                            self.funcs["%s:%s.%s" % (module, cname, s.targets[0].id)] = self.funcs[src]
            elif isinstance(n, (ast.If, ast.Try)):
                # module-level conditional definitions (util.py): index all branches, first wins
                for sub in ("body", "orelse", "finalbody"):
                    self._index_cond(getattr(n, sub, []), module, cls, path)
                for h in getattr(n, "handlers", []):
                    self._index_cond(h.body, module, cls, path)

    def _index_cond(self, body, module, cls, path):
        for n in body:
            if isinstance(n, ast.FunctionDef):
                qual = "%s:%s" % (module, (cls + "." if cls else "") + n.name)
                self.funcs.setdefault(qual, FuncInfo(qual, n, module, cls, path))

    # ---- live modules ---------------------------------------------------------------------------
    def live(self, module):
        if module in self._live:
            return self._live[module]
        if self.root not in sys.path:
            sys.path.insert(0, self.root)
        # make sure we import from self.root, not from an installed copy
        for k in list(sys.modules):
            if (k == "gunicorn" or k.startswith("gunicorn.")) and not getattr(
                    sys.modules[k], "__file__", "").startswith(self.root):
                del sys.modules[k]
        try:
            m = importlib.import_module(module)
        except Exception as e:   # missing third-party dependency etc.
            m = None
        self._live[module] = m
        return m

    def func_for_method(self, pycls, name):
        """resolve a method by the real MRO: returns FuncInfo or None"""
        for c in pycls.__mro__:
            q = "%s:%s.%s" % (c.__module__, c.__qualname__, name)
            if q in self.funcs:
                if name in c.__dict__:
                    return self.funcs[q]
        return None

    def class_by_name(self, module, name):
        m = self.live(module)
        return getattr(m, name, None) if m else None


_repo = None


def repo():
    global _repo
    if _repo is None:
        _repo = Repo()
    return _repo


def reset(root=None):
    global _repo
    _repo = Repo(root)
    return _repo
