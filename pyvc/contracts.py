"""Contract registry and the contract base class.

A contract is ONE relational description used two ways:
  * verify mode: the real body is executed symbolically from `cases()`; every clause of `post` is a proof obligation at
    every normal exit, every escaping exception must be declared in `raises` and its condition proved;
  * call mode: at a call site, `pre` clauses become `call.pre` obligations, the `modifies` locations are havoc'd,
    the result is a fresh value of `result_shape`, and the `post` clauses are ASSUMED (same text, no second copy).
"""
import z3

from .smt import And, Or, Not, Implies, TRUE, FALSE
from .values import Unsupported

REGISTRY = {}
INLINE = set()


def contract(qual, props=()):
    def deco(cls):
        inst = cls()
        inst.qual = qual
        inst.props = tuple(props) or getattr(cls, "props", ())
        REGISTRY[qual] = inst
        return cls
    return deco


def inline(*quals):
    """repository helpers executed as part of each caller (reported as inlined, verified with every caller)"""
    for q in quals:
        INLINE.add(q)


class Ctx:
    """evaluation context handed to contract methods"""

    def __init__(self, ex, st, args, old=None, result=None, exc=None, ghost=None, mode="verify"):
        self.ex = ex
        self.st = st            # current state (entry state for pre / raises conditions; exit state for post)
        self.old = old          # snapshot of the entry state (post / exc_post only)
        self.a = args           # dict: parameter name -> V (values at entry)
        self.result = result
        self.exc = exc
        self.g = ghost if ghost is not None else {}   # per-case ghost constants chosen in cases()
        self.mode = mode

    # -- navigation helpers -----------------------------------------------------------------------
    def get(self, path, st=None, root=None):
        """walk 'self.unreader.buf' through the heap of st (default: current state)"""
        st = st or self.st
        parts = path.split(".")
        v = (root or self.a)[parts[0]]
        for p in parts[1:]:
            v = self.field(v, p, st)
        return v

    def field(self, v, name, st=None):
        from .values import Ref, HObj, SymRef
        st = st or self.st
        if isinstance(v, Ref):
            o = st.obj(v)
            if isinstance(o, HObj):
                if name in o.fields:
                    return o.fields[name]
                r = self.ex.env.attr_hook(self.ex, st, v, o, name)
                if r is not None:
                    return r
                raise KeyError("%s has no field %s" % (o.cls, name))
            return o
        if isinstance(v, SymRef):
            return self.ex.env.symref_get(self.ex, st, v, name)
        raise KeyError("cannot take field %s of %r" % (name, v))

    def obj(self, v, st=None):
        return (st or self.st).obj(v)

    def o(self, path):
        return self.get(path, self.old)


class Contract:
    qual = None
    props = ()
    trusted = False      # True: assumed (external / abstract method), never verified against a body
    exact_raises = False

    # ---- verify mode ------------------------------------------------------------------------------
    def cases(self, env):
        """-> list of (name, State, args dict, ghost dict)"""
        return []

    # ---- both modes -------------------------------------------------------------------------------
    def pre(self, c):
        return []

    def ghost_axioms(self, c):
        """definitional axioms of ghost functions (conservative extensions): ASSUMED in both modes, never obligations"""
        return []

    def post(self, c):
        return []

    def raises(self, c):
        """-> list of (exception class, condition over the ENTRY state or None, [fields dict]) ; c.st is the entry state"""
        return []

    def exc_post(self, c):
        """facts that hold in the state in which exception c.exc escapes"""
        return []

    # ---- call mode --------------------------------------------------------------------------------
    def modifies(self, c):
        """-> list of location descriptors: ('field', ref, name) | ('obj', ref) | ('cheap', cls, field) | ('ghost', name)
        each optionally followed by a Shape to use for the fresh value"""
        return []

    def result_shape(self, c):
        return None      # None: the call returns None

    def effects(self, c):
        """optional constructive part of the post-state for call mode (after havoc, before assuming post)"""

    # ---- loops ------------------------------------------------------------------------------------
    loops = {}

    def loop_spec(self, ordinal, anchor):
        spec = self.loops.get(ordinal)
        if spec is None:
            return None
        # the anchor is documentation only: candidates are re-established by Houdini on the CURRENT body, so using them
        # on an edited loop is sound; a changed anchor is reported, nothing more
        if spec.get("anchor") and spec["anchor"] != anchor:
            spec = dict(spec)
            spec["anchor_changed"] = anchor
        return spec

    # ---- replay -----------------------------------------------------------------------------------
    def replay(self, model, case):
        return None
