"""Shapes with pack/unpack into scalar SMT terms: used for havoc at loop heads, symbolic lists and class heaps."""
import z3

from .smt import I, B, R, fresh_int, fresh_bool, fresh_real, fresh_name, iv, And, Implies
from .values import (V, SInt, SBool, SReal, SNone, NONE, SStr, STuple, Ref, SymRef, Win, mk_win, Unsupported,
                     HList, HObj, HBio, SymSeqA, SOpt, _same_const)


class Shape:
    sorts = ()

    def unpack(self, v):
        raise NotImplementedError

    def pack(self, ts):
        raise NotImplementedError

    def fresh(self, st, name):
        ts = []
        for k, s in enumerate(self.sorts):
            ts.append(z3.Const(fresh_name("%s.%d" % (name, k)), s))
        v = self.pack(ts)
        st.assume(self.facts(v))
        return v

    def facts(self, v):
        return []

    def accepts(self, v):
        try:
            self.unpack(v)
            return True
        except Unsupported:
            return False


class IntShape(Shape):
    sorts = (I,)

    def unpack(self, v):
        if isinstance(v, SInt):
            return [v.t]
        if isinstance(v, SBool):
            return [z3.If(v.t, iv(1), iv(0))]
        raise Unsupported("int shape got %r" % (v,))

    def pack(self, ts):
        return SInt(ts[0])

    def __eq__(self, o):
        return type(o) is IntShape

    def __repr__(self):
        return "int"


class BoolShape(Shape):
    sorts = (B,)

    def unpack(self, v):
        if isinstance(v, SBool):
            return [v.t]
        raise Unsupported("bool shape got %r" % (v,))

    def pack(self, ts):
        return SBool(ts[0])

    def __eq__(self, o):
        return type(o) is BoolShape

    def __repr__(self):
        return "bool"


class RealShape(Shape):
    sorts = (R,)

    def unpack(self, v):
        if isinstance(v, SReal):
            return [v.t]
        if isinstance(v, SInt):
            return [z3.ToReal(v.t)]
        raise Unsupported("real shape got %r" % (v,))

    def pack(self, ts):
        return SReal(ts[0])

    def __eq__(self, o):
        return type(o) is RealShape

    def __repr__(self):
        return "real"


class ArrShape(Shape):
    def __init__(self, sort):
        self.sorts = (sort,)

    def unpack(self, v):
        from .values import SArr
        if isinstance(v, SArr) and v.t.sort() == self.sorts[0]:
            return [v.t]
        raise Unsupported("array shape got %r" % (v,))

    def pack(self, ts):
        from .values import SArr
        return SArr(ts[0])

    def __eq__(self, o):
        return type(o) is ArrShape and self.sorts == o.sorts

    def __repr__(self):
        return "array"


class ConstShape(Shape):
    sorts = ()

    def __init__(self, v):
        self.v = v

    def unpack(self, v):
        if _same_const(self.v, v):
            return []
        raise Unsupported("const shape %r got %r" % (self.v, v))

    def pack(self, ts):
        return self.v

    def __eq__(self, o):
        return type(o) is ConstShape and _same_const(self.v, o.v)

    def __repr__(self):
        return "const(%r)" % (self.v,)


class WinShape(Shape):
    sorts = (I, I)

    def __init__(self, base, is_str=False, xf=()):
        self.base = base
        self.is_str = is_str
        self.xf = tuple(xf) if xf else ()

    def unpack(self, v):
        if isinstance(v, SStr) and v.is_str == self.is_str:
            if not v.atoms:
                return [iv(0), iv(0)]
            w = v.single_win()
            if w is not None and w.base.eq(self.base) and w.xf == self.xf:
                return [w.lo, w.hi]
        raise Unsupported("window shape over %s got %r" % (self.base, v))

    def pack(self, ts):
        return mk_win(self.base, ts[0], ts[1], self.is_str, self.xf)

    def facts(self, v):
        w = v.single_win()
        return [w.lo <= w.hi]

    def __eq__(self, o):
        return type(o) is WinShape and self.base.eq(o.base) and self.is_str == o.is_str and self.xf == o.xf

    def __repr__(self):
        return "win(%s%s)" % (self.base, ",str" if self.is_str else "")


class AnyStrShape(Shape):
    """any string of the given kind (text / bytes): havoc gives a string over a fresh base"""
    sorts = ()

    def __init__(self, is_str):
        self.is_str = is_str

    def accepts(self, v):
        return isinstance(v, SStr) and (v.is_str == self.is_str or not v.atoms)

    def unpack(self, v):
        raise Unsupported("AnyStrShape has no scalar decomposition")

    def fresh(self, st, name):
        from .strops import fresh_str
        return fresh_str(st, name, self.is_str)

    def __eq__(self, o):
        return type(o) is AnyStrShape and self.is_str == o.is_str

    def __repr__(self):
        return "anystr"


class RopeShape(Shape):
    """a string with a fixed atom template: literals are fixed, windows have array-backed bounds"""

    def __init__(self, template, is_str):
        self.template = list(template)       # ('lit', bytes) | ('win', base, xf)
        self.is_str = is_str
        self.sorts = tuple(I for t in self.template if t[0] == "win" for _ in (0, 1))

    @staticmethod
    def of(v):
        from .values import Lit
        templ = []
        for a in v.atoms:
            if isinstance(a, Lit):
                templ.append(("lit", a.b))
            elif isinstance(a, Win):
                templ.append(("win", a.base, a.xf))
            else:
                raise Unsupported("rope shape with atom %r" % (a,))
        return RopeShape(templ, v.is_str)

    def unpack(self, v):
        from .values import Lit
        if not isinstance(v, SStr) or v.is_str != self.is_str or len(v.atoms) != len(self.template):
            raise Unsupported("rope shape mismatch")
        out = []
        for a, t in zip(v.atoms, self.template):
            if t[0] == "lit":
                if not isinstance(a, Lit) or a.b != t[1]:
                    raise Unsupported("rope shape mismatch (literal)")
            else:
                if not isinstance(a, Win) or not a.base.eq(t[1]) or a.xf != t[2]:
                    raise Unsupported("rope shape mismatch (window)")
                out += [a.lo, a.hi]
        return out

    def pack(self, ts):
        from .values import Lit
        atoms, k = [], 0
        for t in self.template:
            if t[0] == "lit":
                atoms.append(Lit(t[1]))
            else:
                atoms.append(Win(t[1], ts[k], ts[k + 1], t[2], self.is_str))
                k += 2
        r = SStr.__new__(SStr)
        r.atoms = tuple(atoms)       # keep the template structure (no literal merging)
        r.is_str = self.is_str
        return r

    def __eq__(self, o):
        if type(o) is not RopeShape or self.is_str != o.is_str or len(self.template) != len(o.template):
            return False
        for a, b in zip(self.template, o.template):
            if a[0] != b[0]:
                return False
            if a[0] == "lit" and a[1] != b[1]:
                return False
            if a[0] == "win" and not (a[1].eq(b[1]) and a[2] == b[2]):
                return False
        return True

    def __repr__(self):
        return "rope%r" % ([t[0] if t[0] == "win" else t[1] for t in self.template],)


class TupleShape(Shape):
    def __init__(self, shapes):
        self.shapes = list(shapes)
        self.sorts = tuple(s for sh in self.shapes for s in sh.sorts)

    def unpack(self, v):
        if isinstance(v, STuple) and len(v.items) == len(self.shapes):
            out = []
            for sh, x in zip(self.shapes, v.items):
                out += sh.unpack(x)
            return out
        raise Unsupported("tuple shape got %r" % (v,))

    def pack(self, ts):
        items, k = [], 0
        for sh in self.shapes:
            n = len(sh.sorts)
            items.append(sh.pack(ts[k:k + n]))
            k += n
        return STuple(items)

    def facts(self, v):
        out = []
        for sh, x in zip(self.shapes, v.items):
            out += sh.facts(x)
        return out

    def __eq__(self, o):
        return type(o) is TupleShape and self.shapes == o.shapes

    def __repr__(self):
        return "tuple%r" % (self.shapes,)


class SymRefShape(Shape):
    sorts = (I,)

    def __init__(self, cls):
        self.cls = cls

    def unpack(self, v):
        if isinstance(v, SymRef) and v.cls == self.cls:
            return [v.t]
        raise Unsupported("symref shape got %r" % (v,))

    def pack(self, ts):
        return SymRef(self.cls, ts[0])

    def __eq__(self, o):
        return type(o) is SymRefShape and self.cls == o.cls

    def __repr__(self):
        return "ref(%s)" % self.cls


class OptionShape(Shape):
    """None or a value of the inner shape"""

    def __init__(self, inner):
        self.inner = inner
        self.sorts = (B,) + tuple(inner.sorts)

    def unpack(self, v):
        if isinstance(v, SNone):
            return [z3.BoolVal(False)] + [_dummy(s) for s in self.inner.sorts]
        if isinstance(v, SOpt):
            return [v.some] + self.inner.unpack(v.inner)
        return [z3.BoolVal(True)] + self.inner.unpack(v)

    def fresh(self, st, name):
        some = z3.Bool(fresh_name(name + ".some"))
        inner = self.inner.fresh(st, name)
        return SOpt(some, inner)

    def pack(self, ts):
        inner = self.inner.pack(ts[1:])
        if z3.is_true(ts[0]):
            return inner
        if z3.is_false(ts[0]):
            return NONE
        return SOpt(ts[0], inner)

    def facts(self, v):
        if isinstance(v, SOpt):
            return [Implies(v.some, And(*self.inner.facts(v.inner)))]
        if isinstance(v, SNone):
            return []
        return self.inner.facts(v)

    def __eq__(self, o):
        return type(o) is OptionShape and self.inner == o.inner

    def __repr__(self):
        return "opt(%r)" % (self.inner,)


def _dummy(sort):
    if sort == I:
        return iv(0)
    if sort == B:
        return z3.BoolVal(False)
    return z3.RealVal(0)


class ListShape(Shape):
    """a python list object (heap allocated) whose elements have shape `elem`; fresh() allocates a NEW symbolic list"""
    sorts = ()

    def __init__(self, elem):
        self.elem = elem

    def fresh_seq(self, st, name, view=True):
        arrays = [z3.Const(fresh_name("%s.a%d" % (name, k)), z3.ArraySort(I, s)) for k, s in enumerate(self.elem.sorts)]
        n = fresh_int(name + ".n")
        lo = fresh_int(name + ".lo") if view else iv(0)
        st.assume(n >= 0, 0 <= lo, lo <= n)
        seq = SymSeqA(lo, n, arrays, self.elem)
        if self.elem.sorts:
            j = z3.Int("j?ls")
            f = self.elem.facts(seq.elem(j))
            if f:
                st.assume(z3.ForAll([j], Implies(And(0 <= j, j < n), And(*f))))
        return seq

    def __eq__(self, o):
        return type(o) is ListShape and self.elem == o.elem

    def __repr__(self):
        return "list[%r]" % (self.elem,)


def shape_of(v, st=None):
    from .values import SArr
    if isinstance(v, SArr):
        return ArrShape(v.t.sort())
    if isinstance(v, SInt):
        return IntShape()
    if isinstance(v, SBool):
        return BoolShape()
    if isinstance(v, SReal):
        return RealShape()
    if isinstance(v, SStr):
        w = v.single_win()
        if w is not None:
            return WinShape(w.base, v.is_str, w.xf)
        if v.concrete() is not None:
            return ConstShape(v)
        return RopeShape.of(v)
    if isinstance(v, STuple):
        return TupleShape([shape_of(x, st) for x in v.items])
    if isinstance(v, SymRef):
        return SymRefShape(v.cls)
    if isinstance(v, SOpt):
        return OptionShape(shape_of(v.inner, st))
    return ConstShape(v)


def join_shape(a, b):
    """least upper bound of two shapes, or raise Unsupported"""
    if a == b:
        return a
    if isinstance(a, ConstShape) and isinstance(a.v, SNone):
        return b if isinstance(b, OptionShape) else OptionShape(b)
    if isinstance(b, ConstShape) and isinstance(b.v, SNone):
        return a if isinstance(a, OptionShape) else OptionShape(a)
    if isinstance(a, OptionShape) or isinstance(b, OptionShape):
        ia = a.inner if isinstance(a, OptionShape) else a
        ib = b.inner if isinstance(b, OptionShape) else b
        return OptionShape(join_shape(ia, ib))
    # empty literal string vs window
    for x, y in ((a, b), (b, a)):
        if isinstance(x, ConstShape) and isinstance(x.v, SStr) and x.v.concrete() == b"" and isinstance(y, WinShape) \
                and y.is_str == x.v.is_str:
            return y
    def strkind(x):
        if isinstance(x, AnyStrShape):
            return x.is_str
        if isinstance(x, WinShape):
            return x.is_str
        if isinstance(x, ConstShape) and isinstance(x.v, SStr):
            return x.v.is_str
        return None
    ka, kb = strkind(a), strkind(b)
    if ka is not None and kb is not None and ka == kb:
        return AnyStrShape(ka)
    if isinstance(a, TupleShape) and isinstance(b, TupleShape) and len(a.shapes) == len(b.shapes):
        return TupleShape([join_shape(x, y) for x, y in zip(a.shapes, b.shapes)])
    if isinstance(a, IntShape) and isinstance(b, BoolShape) or isinstance(a, BoolShape) and isinstance(b, IntShape):
        return IntShape()
    if isinstance(a, RealShape) and isinstance(b, IntShape) or isinstance(a, IntShape) and isinstance(b, RealShape):
        return RealShape()
    raise Unsupported("no common shape for %r and %r" % (a, b))
