"""Verdicts, replay files, known findings, evidence."""
import fnmatch
import hashlib
import json
import os
import subprocess
import sys
import time

ROOT = os.path.dirname(os.path.dirname(os.path.abspath(__file__)))
OUT = os.environ.get("PYVC_OUT", ROOT)      # evidence / replay output root (scratch runs against a modified copy of the repository)
VENV_PY = "/venv/bin/python"


def load_known():
    p = os.path.join(ROOT, "known_findings.json")
    if not os.path.exists(p):
        return {"findings": [], "fixed": []}
    return json.load(open(p))


def load_baseline():
    p = os.path.join(ROOT, "baseline_obligations.json")
    if not os.path.exists(p):
        return {}
    return json.load(open(p))


def confirm_finding(f, repo_root):
    """re-run the committed native replay of a known finding: True iff the real code still misbehaves"""
    rp = f.get("replay")
    if not rp:
        return True
    env = dict(os.environ)
    env["PYTHONPATH"] = repo_root + os.pathsep + ROOT
    try:
        p = subprocess.run([VENV_PY, os.path.join(ROOT, rp)], capture_output=True, text=True, env=env, cwd=ROOT, timeout=120)
    except Exception:
        return True
    return p.returncode != 0


def match_known(known, prop, func, name):
    for f in known["findings"]:
        # an obligation-level finding is the same defect in whichever property's run the shared contract is checked
        if f.get("kind", "obligation") != "obligation":
            continue
        if f.get("function") == func and fnmatch.fnmatch(name, f.get("obligation", "")):
            return f
    return None


def write_replay(prop, idx, payload):
    d = os.path.join(OUT, "replays", prop)
    os.makedirs(d, exist_ok=True)
    path = os.path.join(d, "violation_%03d.json" % idx)
    json.dump(payload, open(path, "w"), indent=1, default=str)
    return path


def finish(prop, tier, seed, plan, results, errors, harness_out, wall, update_baseline=False, verbose=False):
    from pyvc import load
    repo_root = load.REPO
    known = load_known()
    baseline = load_baseline()
    base_names = set(baseline.get(prop, {}).get("discharged", []))
    lines = []
    viol = []
    undecided = []
    checker_errors = []
    kf_lines = []
    functions = []
    per_backend = {}
    n_oblig = n_dis = 0
    solver_time = 0.0
    samples = []
    demoted = []
    kf_obligs = []
    weakened = []
    all_dis_names = []
    assumptions = set(plan.get("assumptions", []))
    for (qual, k, err) in errors:
        checker_errors.append("task %s[%s] crashed: %s" % (qual, k, err.strip().splitlines()[-1]))
    seen_funcs = {}
    for (qual, k, fr) in sorted(results, key=lambda r: (r[0], r[1] if r[1] is not None else -1)):
        fmeta = seen_funcs.setdefault(qual, {"function": qual, "file": os.path.relpath(fr.file, repo_root) if fr.file else "",
                                             "line": fr.line, "source_sha256_16": fr.sha, "obligations": 0, "discharged": 0,
                                             "cases": 0, "paths": 0, "inlined": set(), "secs": 0.0})
        fmeta["cases"] += fr.cases
        fmeta["paths"] += fr.paths
        fmeta["secs"] += fr.secs
        fmeta["inlined"] |= set(fr.inlined)
        if fr.demoted:
            demoted.append({"function": qual, "case": k, "reason": fr.demoted})
            continue
        for l in fr.loops:
            if l.get("dropped"):
                weakened.append({"function": qual, "loop": l["loop"], "case": l["case"], "dropped": l["dropped"]})
        for o in fr.obligs:
            solver_time += o.secs
            kf = match_known(known, prop, qual, o.name) if o.status != "discharged" else None
            if kf is not None and o.status in ("failed", "undecided"):
                if kf.get("property") == prop:
                    kf_obligs.append((kf, qual, o))
                # a clause whose failure is a listed finding of ANOTHER property (the contract is shared): not this
                # property's business -- neither counted nor reported here
                continue
            n_oblig += 1
            fmeta["obligations"] += 1
            if o.status == "discharged":
                n_dis += 1
                fmeta["discharged"] += 1
                per_backend[o.backend] = per_backend.get(o.backend, 0) + 1
                all_dis_names.append("%s::%s" % (qual, o.name))
                if len(samples) < 4 and o.backend != "trivial":
                    samples.append({"obligation": "%s::%s" % (qual, o.name), "kind": o.kind, "verdict": "unsat (discharged)",
                                    "backend": o.backend, "secs": round(o.secs, 3)})
            elif o.status == "failed":
                viol.append((qual, o))
            elif o.status == "vacuous":
                checker_errors.append("vacuous precondition in %s::%s" % (qual, o.name))
            else:
                undecided.append((qual, o))
    # ---- bounded stand-ins ---------------------------------------------------------------------------
    bounded = []
    harness_viol = []
    for h in harness_out:
        if "error" in h:
            checker_errors.append("harness %s: %s" % (h.get("name"), h["error"]))
            continue
        bounded.append({"harness": h["name"], "evaluations": h.get("evaluations", 0), "bound": h.get("bound", ""),
                        "mismatches": len(h.get("mismatches", [])), "wall_s": h.get("wall_s")})
        allowed = plan.get("harness_checks", {}).get(h["name"])
        for mm in h.get("mismatches", []):
            if allowed is not None and mm.get("check") not in allowed:
                continue        # that facet of the stand-in belongs to another property
            cls = mm.get("class", "")
            kf = None
            for f in known["findings"]:
                if f.get("property") == prop and f.get("kind") == "harness" and f.get("harness") == h["name"] \
                        and fnmatch.fnmatch(cls, f.get("class", "")):
                    kf = f
                    break
            if kf is not None:
                kf_obligs.append((kf, "harness:" + h["name"], mm))
            else:
                harness_viol.append((h["name"], mm))
    # demoted functions: decided by the bounded stand-in if there is one
    if demoted and not plan.get("harness"):
        for d in demoted:
            undecided.append((d["function"], None))
    # ---- known findings -----------------------------------------------------------------------------------
    printed = set()
    kf_report = []
    for (kf, where, o) in kf_obligs:
        key = kf.get("id") or kf.get("what")
        if key in printed:
            continue
        printed.add(key)
        if confirm_finding(kf, repo_root):
            kf_lines.append("KNOWN-FINDING: property=%s %s" % (prop, kf.get("what", key)))
            kf_report.append({"id": key, "what": kf.get("what"), "where": where})
        else:
            # its native replay no longer fails but the obligation still does: this is something else
            if not isinstance(o, dict):
                viol.append((where, o))
            else:
                harness_viol.append((where, o))
    # ---- verdict ----------------------------------------------------------------------------------------------
    out_lines = []
    vcount = 0
    for (qual, o) in viol:
        vcount += 1
        full = "%s::%s" % (qual, o.name)
        payload = {"property": prop, "kind": "failed-obligation", "function": qual, "obligation": o.name,
                   "solver": o.backend, "solver_verdict": "sat (counter-model to the verification condition)",
                   "counter_model": o.model, "tier": tier, "in_baseline": full in base_names,
                   "note": "the counter-model is over the symbolic state at the failing program point (after loop cuts it may "
                           "not be reachable); concrete confirmation is attempted with the bounded stand-in"}
        concrete = None
        for h in harness_out:
            for mm in h.get("mismatches", []):
                concrete = {"harness": h["name"], "case": mm}
                break
            if concrete:
                break
        payload["concrete_failing_input"] = concrete
        path = write_replay(prop, vcount, payload)
        out_lines.append("VIOLATION property=%s replay=%s obligation=%s%s" % (
            prop, path, full, "" if concrete else " no-failing-input-found"))
    for (hname, mm) in harness_viol:
        vcount += 1
        payload = {"property": prop, "kind": "bounded-stand-in-mismatch", "harness": hname, "case": mm, "tier": tier}
        path = write_replay(prop, vcount, payload)
        out_lines.append("VIOLATION property=%s replay=%s harness=%s class=%s" % (prop, path, hname, mm.get("class", "")))
    status = 0
    if checker_errors:
        status = 3
    elif vcount:
        status = 1
    elif undecided:
        status = 2
    if n_oblig == 0 and not bounded and status == 0:
        checker_errors.append("zero obligations generated")
        status = 3
    # missing baseline obligations (function renamed / contract silently skipped) are checker errors unless demoted
    if base_names and status == 0 and tier == "quick":
        missing = [n for n in base_names if n not in set(all_dis_names)]
        dem_funcs = {d["function"] for d in demoted}
        missing = [n for n in missing if n.split("::")[0] not in dem_funcs]
        if missing and not update_baseline:
            undecided.append((missing[0].split("::")[0], None))
            lines.append("UNDECIDED %d baseline obligations were not generated on this tree (first: %s)" % (len(missing), missing[0]))
            status = 2
    for (qual, o) in undecided:
        lines.append("UNDECIDED %s::%s" % (qual, o.name if o is not None else "<function demoted / obligations missing>"))
    for d in demoted:
        lines.append("DEMOTED %s reason=%s" % (d["function"], d["reason"][:300]))
    for e in checker_errors:
        lines.append("CHECKER-ERROR %s" % e)
    # ---- evidence -----------------------------------------------------------------------------------------------
    funcs = []
    for q, m in sorted(seen_funcs.items()):
        m = dict(m)
        m["inlined"] = sorted(m["inlined"])
        m["secs"] = round(m["secs"], 2)
        funcs.append(m)
    trusted = sorted(set(plan.get("trusted_base", [])))
    ev = {
        "property_id": prop, "tier": tier, "seed": seed, "level": "proof",
        "coverage": {
            "obligations": n_oblig, "discharged": n_dis,
            "checker_cmd": "./check %s --tier %s" % (prop, tier),
            "trusted_base": trusted,
            "functions_under_contract": funcs,
            "per_backend": per_backend,
            "solver_time_s": round(solver_time, 2),
            "bounded": bounded,
            "demoted": demoted,
            "weakened_invariants": weakened[:40],
            "known_findings": kf_report,
            "not_decided": plan.get("not_decided", []),
            "samples": samples,
            "failed": [{"function": q, "obligation": o.name, "backend": o.backend} for (q, o) in viol],
            "undecided": [{"function": q, "obligation": (o.name if o is not None else None)} for (q, o) in undecided],
            "checker_errors": checker_errors,
            "budget": "each goal is decided on its cone of influence (hypotheses sharing symbols with it; the rest checked for consistency); z3 rlimit (deterministic) with an 8x wall-clock backstop; E-matching first, MBQI second, cvc5 CLI on z3 unknowns; baseline obligations were admitted at half this budget",
        },
        "assumptions": sorted(assumptions),
        "wall_s": round(wall, 2),
        "violations": vcount,
    }
    os.makedirs(os.path.join(OUT, "evidence"), exist_ok=True)
    json.dump(ev, open(os.path.join(OUT, "evidence", "%s.json" % prop), "w"), indent=1, default=str)
    if update_baseline and status in (0,):
        import fcntl
        bp = os.path.join(ROOT, "baseline_obligations.json")
        with open(bp + ".lock", "w") as lk:          # several properties may be re-baselined concurrently
            fcntl.flock(lk, fcntl.LOCK_EX)
            cur = json.load(open(bp)) if os.path.exists(bp) else {}
            cur[prop] = {"discharged": sorted(all_dis_names)}
            json.dump(cur, open(bp, "w"), indent=1)
    for l in kf_lines:
        print(l)
    for l in lines:
        print(l)
    for l in out_lines:
        print(l)
    print("%s tier=%s functions=%d obligations=%d discharged=%d known_findings=%d bounded=%s wall=%.1fs -> exit %d" % (
        prop, tier, len(funcs), n_oblig, n_dis, len(kf_report), [(b["harness"], b["evaluations"]) for b in bounded], wall, status))
    return status


def do_replay(prop, path):
    """re-run a recorded violation: concrete case through its harness, or re-check the named obligation"""
    from pyvc import load
    d = json.load(open(path))
    if d.get("kind") == "bounded-stand-in-mismatch" or d.get("concrete_failing_input"):
        case = d.get("case") or d["concrete_failing_input"]["case"]
        hname = d.get("harness") or d["concrete_failing_input"]["harness"]
        env = dict(os.environ)
        env["PYTHONPATH"] = load.REPO + os.pathsep + ROOT
        env["VERIF_REPLAY_CASE"] = json.dumps(case)
        p = subprocess.run([VENV_PY, os.path.join(ROOT, "harness", hname + ".py")], capture_output=True, text=True, env=env, cwd=ROOT)
        print(p.stdout[-2000:])
        try:
            out = json.loads(p.stdout.strip().splitlines()[-1])
        except Exception:
            print("CHECKER-ERROR replay harness failed: %s" % p.stderr[-500:])
            return 3
        if out.get("mismatches"):
            print("VIOLATION property=%s replay=%s" % (prop, path))
            return 1
        print("replay: the recorded input no longer fails")
        return 0
    # obligation-only replay: re-run the check of that property and see whether the obligation still fails
    from pyvc import cli
    return cli.main([prop, "--tier", "quick"])
