"""Verify functions against their contracts: run the executor from each case, collect obligations, discharge them."""
import os
import time
import traceback

import z3

from .smt import And, Or, Not, Implies, check_sat, prove, cone_of_influence, to_smt2, cvc5_check, TRUE, FALSE, const_bool
from .values import NONE, SExc, Unsupported
from .contracts import Ctx, REGISTRY
from .exec import Executor, Oblig


class OResult:
    """serialisable outcome of one obligation"""

    def __init__(self, name, kind, func, status, backend, secs, model=None, smt2=None, note=""):
        self.name, self.kind, self.func = name, kind, func
        self.status = status          # discharged | failed | undecided | vacuous
        self.backend = backend
        self.secs = secs
        self.model = model
        self.smt2 = smt2
        self.note = note

    def to_json(self):
        d = dict(name=self.name, kind=self.kind, func=self.func, status=self.status, backend=self.backend,
                 secs=round(self.secs, 3))
        if self.model is not None:
            d["model"] = self.model
        if self.note:
            d["note"] = self.note
        return d


class FResult:
    def __init__(self, qual):
        self.qual = qual
        self.obligs = []          # OResult
        self.demoted = None       # reason string when the function fell outside the subset
        self.loops = []
        self.inlined = []
        self.cases = 0
        self.paths = 0
        self.secs = 0.0
        self.sha = ""
        self.file = ""
        self.line = 0


def collect_obligations(env, con):
    """symbolic execution of the real body for every case of the contract -> (list[Oblig], Executor stats)"""
    finfo = env.repo.funcs.get(con.qual)
    if finfo is None:
        raise Unsupported("function %s not found in the repository (renamed or removed)" % con.qual)
    allob = []
    loops = []
    inlined = set()
    ncases = 0
    npaths = 0
    for case in con.cases(env):
        cname, st0, args, ghost = case
        ncases += 1
        ex = Executor(env, finfo, con)
        ex.cur_case = cname
        hook = getattr(con, "yield_hook", None)
        if hook is not None:
            ex.yield_hook = lambda e, s, v, ghost=ghost, args=args: hook(Ctx(e, s, args, ghost=ghost), v)
        ph = getattr(con, "point_hook", None)
        if ph is not None:
            ex.point_hook = lambda e, stmt, s, o, ghost=ghost, args=args: ph(Ctx(e, s, args, ghost=ghost), stmt, o)
        st0.locals = dict(args)
        for ax in con.ghost_axioms(Ctx(ex, st0, args, ghost=ghost)):
            st0.assume(ax)
        for (nm, f) in con.pre(Ctx(ex, st0, args, ghost=ghost)):
            st0.assume(f)
        old = st0.fork()
        ex.fentry = old
        ex.case_ghost = ghost
        if check_sat(st0.pc, 5000)[0] == "unsat":
            allob.append(Oblig("%s/pre.cover" % cname, "vacuous", [], FALSE, con.qual))
            continue
        outs = ex.run_block(finfo.body, st0)
        npaths += len(outs)
        entry_ctx = Ctx(ex, old, args, ghost=ghost)
        declared = con.raises(entry_ctx)
        for (s, o) in outs:
            if o is None or o[0] == "return":
                res = NONE if o is None else o[1]
                c = Ctx(ex, s, args, old=old, result=res, ghost=ghost)
                for (nm, goal) in con.post(c):
                    ex.oblige("post.%s" % nm, "post", s, goal)
                if con.exact_raises:
                    for entry in declared:
                        if entry[1] is not None:
                            ex.oblige("noraise.%s" % entry[0].__name__, "noraise", s, Not(entry[1]))
            elif o[0] == "raise":
                exc = o[1]
                match = None
                for entry in declared:
                    if issubclass(exc.cls, entry[0]):
                        match = entry
                        break
                if match is None:
                    ex.oblige("raise.undeclared.%s" % exc.cls.__name__, "raise", s, FALSE)
                else:
                    if match[1] is not None:
                        ex.oblige("raise.%s.sound" % match[0].__name__, "raise", s, match[1])
                    c = Ctx(ex, s, args, old=old, exc=exc, ghost=ghost)
                    for (nm, goal) in con.exc_post(c):
                        ex.oblige("raise.%s.post.%s" % (match[0].__name__, nm), "raise", s, goal)
            else:
                raise Unsupported("loop control escaping function")
        allob += ex.obligs
        loops += ex.loop_report
        inlined |= ex.inlined
    return finfo, allob, loops, inlined, ncases, npaths


def extract_model(solver, ob):
    try:
        m = solver.model()
    except z3.Z3Exception:
        return None
    out = {}
    for d in m.decls():
        if d.arity() == 0:
            v = m[d]
            if z3.is_int_value(v):
                out[d.name()] = v.as_long()
            elif z3.is_true(v) or z3.is_false(v):
                out[d.name()] = z3.is_true(v)
            elif z3.is_rational_value(v):
                out[d.name()] = float(v.as_fraction())
            else:
                # evaluate small prefix of byte arrays
                try:
                    arr = d()
                    out[d.name()] = [m.eval(z3.Select(arr, i), model_completion=True).as_long() for i in range(0, 48)]
                except Exception:
                    pass
    return out


def discharge(ob, timeout_s=10, use_cvc5=True, want_model=True):
    t0 = time.time()
    if z3.is_true(ob.goal):
        return OResult(ob.name, ob.kind, ob.func, "discharged", "trivial", 0.0)
    if ob.kind == "vacuous":
        return OResult(ob.name, ob.kind, ob.func, "vacuous", "z3", 0.0, note="contradictory precondition")
    assertions = list(ob.pc) + [Not(ob.goal)]
    # The hypotheses that share no symbol (transitively) with the negated goal cannot contribute to a contradiction unless
    # they are contradictory among themselves: decide the goal on its cone of influence, and the rest separately.
    neg = assertions[-1]
    cone, rest = cone_of_influence(assertions[:-1], neg)
    if len(cone) == 1:          # goal without symbols (literally false): the question is path feasibility, use everything
        cone, rest = assertions, []

    def _rest_unsat():
        if not rest:
            return False
        rr, _ = check_sat(rest, 2000, mbqi=False)
        return rr == "unsat"

    def _failed(solver, backend):
        if _rest_unsat():
            return OResult(ob.name, ob.kind, ob.func, "discharged", "z3", time.time() - t0, note="infeasible path")
        model = extract_model(solver, ob) if want_model else None
        n = ("counter-model of the goal's cone of influence (%d of %d hypotheses; the others share no symbol with it)"
             % (len(cone) - 1, len(assertions) - 1)) if rest else ""
        return OResult(ob.name, ob.kind, ob.func, "failed", backend, time.time() - t0, model=model, note=n)

    r, solver = check_sat(cone, int(timeout_s * 1000), mbqi=False)
    if r == "unsat":
        return OResult(ob.name, ob.kind, ob.func, "discharged", "z3", time.time() - t0)
    if r == "sat":
        return _failed(solver, "z3")
    r, solver = check_sat(cone, int(timeout_s * 1000), mbqi=True)
    if r == "unsat":
        return OResult(ob.name, ob.kind, ob.func, "discharged", "z3", time.time() - t0)
    if r == "sat":
        return _failed(solver, "z3")
    if _rest_unsat():
        return OResult(ob.name, ob.kind, ob.func, "discharged", "z3", time.time() - t0, note="infeasible path")
    assertions = cone
    smt2 = None
    if r == "unknown" and use_cvc5:
        try:
            smt2 = to_smt2(assertions)
            r2 = cvc5_check(smt2, timeout_s)
        except Exception:
            r2 = "unknown"
        if r2 == "unsat":
            return OResult(ob.name, ob.kind, ob.func, "discharged", "cvc5", time.time() - t0)
        if r2 == "sat":
            return OResult(ob.name, ob.kind, ob.func, "failed", "cvc5", time.time() - t0, model=None, smt2=smt2)
        if z3.is_false(ob.goal):
            # the contract could not even recognise the required structure on this path (goal is literally false) and
            # the path could not be refuted: the obligation cannot be discharged on this tree
            return OResult(ob.name, ob.kind, ob.func, "failed", "z3+cvc5", time.time() - t0, smt2=smt2,
                           note="structurally false goal on a path that was not refuted")
        return OResult(ob.name, ob.kind, ob.func, "undecided", "z3+cvc5", time.time() - t0, smt2=smt2,
                       note="unknown on both solvers")
    if r == "sat":
        model = extract_model(solver, ob) if want_model else None
        return OResult(ob.name, ob.kind, ob.func, "failed", "z3", time.time() - t0, model=model)
    return OResult(ob.name, ob.kind, ob.func, "undecided", "z3", time.time() - t0, note="unknown")


class _Budget(Exception):
    pass


def verify_function(env, con, timeout_s=10, use_cvc5=True):
    import signal
    fr = FResult(con.qual)
    t0 = time.time()
    budget = int(os.environ.get("PYVC_FUNC_TIMEOUT", "900"))

    def _alarm(signum, frame):
        raise _Budget()
    old = signal.signal(signal.SIGALRM, _alarm)
    signal.alarm(budget)
    try:
        return _verify_function(env, con, timeout_s, use_cvc5, fr, t0)
    except _Budget:
        fr.demoted = "time budget of %ds for symbolic execution + discharge exceeded" % budget
        fi = env.repo.funcs.get(con.qual)
        if fi is not None:
            fr.sha, fr.file, fr.line = fi.sha, fi.path, fi.lineno
        fr.obligs = []
        fr.secs = time.time() - t0
        return fr
    finally:
        signal.alarm(0)
        signal.signal(signal.SIGALRM, old)


def _verify_function(env, con, timeout_s, use_cvc5, fr, t0):
    try:
        finfo, obs, loops, inlined, ncases, npaths = collect_obligations(env, con)
    except Unsupported as e:
        fr.demoted = "outside subset: %s" % e
        fi = env.repo.funcs.get(con.qual)
        if fi is not None:
            fr.sha, fr.file, fr.line = fi.sha, fi.path, fi.lineno
        fr.secs = time.time() - t0
        return fr
    except Exception as e:   # engine error on (possibly edited) code: demote, never crash, never a verdict
        fr.demoted = "engine error: %s: %s @ %s" % (type(e).__name__, e, traceback.format_exc().strip().splitlines()[-3:])
        if os.environ.get("PYVC_DEBUG"):
            traceback.print_exc()
        fi = env.repo.funcs.get(con.qual)
        if fi is not None:
            fr.sha, fr.file, fr.line = fi.sha, fi.path, fi.lineno
        fr.secs = time.time() - t0
        return fr
    fr.sha, fr.file, fr.line = finfo.sha, finfo.path, finfo.lineno
    fr.loops, fr.inlined, fr.cases, fr.paths = loops, sorted(inlined), ncases, npaths
    for ob in obs:
        fr.obligs.append(discharge(ob, timeout_s, use_cvc5))
    fr.secs = time.time() - t0
    return fr
