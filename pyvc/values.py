"""Symbolic value model for pyvc.

Immutable values: SInt, SBool, SReal, SNone, SStr (rope of atoms), STuple, Ref (to a heap object),
SExc, callables, Opaque.  Mutable things live in State.heap as HObj / HList / HBio / HDict.
"""
import z3

from .smt import (And, Or, Not, Implies, If, Min, Max, iv, fresh_int, fresh_arr, fresh_bool, fresh_name,
                  const_int, const_bool, TRUE, FALSE, I, B, R, ArrII)


class Unsupported(Exception):
    """construct outside the engine's subset: the function is demoted to its bounded stand-in"""


class V:
    pass


class SInt(V):
    __slots__ = ("t",)

    def __init__(self, t):
        self.t = iv(t) if isinstance(t, int) else t

    def __repr__(self):
        return "SInt(%s)" % self.t


class SBool(V):
    __slots__ = ("t",)

    def __init__(self, t):
        self.t = z3.BoolVal(t) if isinstance(t, bool) else t

    def __repr__(self):
        return "SBool(%s)" % self.t


class SReal(V):
    __slots__ = ("t",)

    def __init__(self, t):
        if isinstance(t, (int, float)):
            t = z3.RealVal(t)
        self.t = t

    def __repr__(self):
        return "SReal(%s)" % self.t


class SArr(V):
    """a z3 array term carried as a value (ghost maps of modelled containers)"""
    __slots__ = ("t",)

    def __init__(self, t):
        self.t = t

    def __repr__(self):
        return "SArr(%s)" % self.t


class SNone(V):
    def __repr__(self):
        return "None"


NONE = SNone()


class STuple(V):
    __slots__ = ("items",)

    def __init__(self, items):
        self.items = tuple(items)

    def __repr__(self):
        return "STuple%r" % (self.items,)


class Ref(V):
    """reference to a mutable heap object in State.heap"""
    __slots__ = ("oid",)

    def __init__(self, oid):
        self.oid = oid

    def __repr__(self):
        return "Ref(%s)" % self.oid


class SymRef(V):
    """symbolic reference (an Int term) to an object of class `cls` whose fields live in State.cheap arrays"""
    __slots__ = ("cls", "t")

    def __init__(self, cls, t):
        self.cls = cls
        self.t = iv(t) if isinstance(t, int) else t

    def __repr__(self):
        return "SymRef(%s,%s)" % (self.cls, self.t)


class SExc(V):
    """exception value; cls is a real python class object (builtins or gunicorn's)"""

    def __init__(self, cls, args=(), fields=None):
        self.cls = cls
        self.args = tuple(args)
        self.fields = dict(fields or {})

    def __repr__(self):
        return "SExc(%s)" % getattr(self.cls, "__name__", self.cls)


class ClassV(V):
    """a class object (real python class from the live module)"""

    def __init__(self, pycls):
        self.pycls = pycls

    def __repr__(self):
        return "ClassV(%s)" % self.pycls.__name__


class FuncV(V):
    """a function of the repository: qual = 'module:QualName'; self_v bound receiver or None"""

    def __init__(self, qual, self_v=None):
        self.qual = qual
        self.self_v = self_v

    def __repr__(self):
        return "FuncV(%s)" % self.qual


class StubV(V):
    """an external callable modelled by a stub: name like 'os.kill' / 'len' / method stubs"""

    def __init__(self, name, self_v=None):
        self.name = name
        self.self_v = self_v

    def __repr__(self):
        return "StubV(%s)" % self.name


class ModV(V):
    def __init__(self, name):
        self.name = name

    def __repr__(self):
        return "ModV(%s)" % self.name


class RegexV(V):
    def __init__(self, pattern, name=""):
        self.pattern = pattern
        self.name = name


class MatchV(V):
    """result of a successful fixed-shape regex match; groups: list of SStr"""

    def __init__(self, groups):
        self.groups = groups


class Opaque(V):
    """a value the engine knows nothing about (logger, datetime, ...)"""

    def __init__(self, tag):
        self.tag = tag

    def __repr__(self):
        return "Opaque(%s)" % self.tag


class SOpt(V):
    """None (when not some) or `inner` (when some): only produced by havoc at loop heads / contract results;
    split into the two cases when loaded"""

    def __init__(self, some, inner):
        self.some = some
        self.inner = inner

    def __repr__(self):
        return "SOpt(%s,%r)" % (self.some, self.inner)


class PyConst(V):
    """a concrete python constant container (set/frozenset/dict of literals) read from the live module"""

    def __init__(self, val):
        self.val = val

    def __repr__(self):
        return "PyConst(%r)" % (self.val,)


# --------------------------------------------------------------------------------------------------
# strings: ropes of atoms
# --------------------------------------------------------------------------------------------------

class Lit:
    __slots__ = ("b",)

    def __init__(self, b):
        assert isinstance(b, bytes)
        self.b = b

    def length(self):
        return iv(len(self.b))

    def char(self, i):
        """code point at offset i (z3 Int term); caller guarantees 0<=i<len"""
        if not self.b:
            return iv(0)
        t = iv(self.b[-1])
        for k in range(len(self.b) - 2, -1, -1):
            t = If(i == k, iv(self.b[k]), t)
        return t

    def __repr__(self):
        return "Lit(%r)" % self.b


def _upper_cp(c, is_str):
    # ASCII a-z -> -32 ; str (latin-1): 0xe0-0xfe except 0xf7 -> -32 ; special chars excluded by side condition
    asc = And(c >= 97, c <= 122)
    if not is_str:
        return If(asc, c - 32, c)
    lat = And(c >= 0xe0, c <= 0xfe, c != 0xf7)
    return If(Or(asc, lat), c - 32, c)


def _lower_cp(c, is_str):
    asc = And(c >= 65, c <= 90)
    if not is_str:
        return If(asc, c + 32, c)
    lat = And(c >= 0xc0, c <= 0xde, c != 0xd7)
    return If(Or(asc, lat), c + 32, c)


def apply_xf(c, xf, is_str):
    for step in xf:
        if step == "upper":
            c = _upper_cp(c, is_str)
        elif step == "lower":
            c = _lower_cp(c, is_str)
        elif isinstance(step, tuple) and step[0] == "repl":
            c = If(c == step[1], iv(step[2]), c)
        else:
            raise Unsupported("char transform %r" % (step,))
    return c


class Win:
    """window base[lo:hi) with an optional per-character transform chain xf (tuple of 'upper' | 'lower' | ('repl',a,b))"""
    __slots__ = ("base", "lo", "hi", "xf", "is_str")

    def __init__(self, base, lo, hi, xf=(), is_str=False):
        self.base = base
        self.lo = iv(lo) if isinstance(lo, int) else z3.simplify(lo)
        self.hi = iv(hi) if isinstance(hi, int) else z3.simplify(hi)
        self.xf = tuple(xf) if xf else ()
        self.is_str = is_str

    def length(self):
        return z3.simplify(self.hi - self.lo)

    def char_at(self, p):
        """code point at absolute position p"""
        return apply_xf(z3.Select(self.base, p), self.xf, self.is_str)

    def char(self, i):
        return self.char_at(self.lo + i)

    def sub(self, lo, hi):
        return Win(self.base, lo, hi, self.xf, self.is_str)

    def __repr__(self):
        return "Win(%s[%s:%s]%s)" % (self.base, self.lo, self.hi, "".join(map(str, self.xf)))


_numlen = {k: z3.Function("numlen_" + k, I, I) for k in ("dec", "HEX", "hex")}
_numchar = {k: z3.Function("numchar_" + k, I, I, I) for k in ("dec", "HEX", "hex")}


class Num:
    """decimal / hex rendering of an Int term (as produced by %d, %s of int, str(int), %X)"""
    __slots__ = ("kind", "t")

    def __init__(self, kind, t):
        self.kind = kind
        self.t = iv(t) if isinstance(t, int) else t

    def length(self):
        return _numlen[self.kind](self.t)

    def char(self, i):
        return _numchar[self.kind](self.t, i)

    def __repr__(self):
        return "Num(%s,%s)" % (self.kind, self.t)


def num_axioms(atom):
    """facts about a Num atom: length >= 1, characters are digits of the base (ASCII), '-' only first if negative"""
    n = atom.length()
    j = z3.Int("j!num")
    c = atom.char(j)
    if atom.kind == "dec":
        digit = And(c >= 48, c <= 57)
        body = If(And(j == 0, atom.t < 0), c == 45, digit)
    elif atom.kind == "HEX":
        digit = Or(And(c >= 48, c <= 57), And(c >= 65, c <= 70))
        body = If(And(j == 0, atom.t < 0), c == 45, digit)
    else:
        digit = Or(And(c >= 48, c <= 57), And(c >= 97, c <= 102))
        body = If(And(j == 0, atom.t < 0), c == 45, digit)
    return [n >= 1, z3.ForAll([j], Implies(And(0 <= j, j < n), body)),
            Implies(And(atom.t >= 0, atom.t <= 9), And(n == 1, atom.char(iv(0)) == 48 + atom.t))]


_joinlen = z3.Function("joinlen", I, I)
_joinchar = z3.Function("joinchar", I, I, I)
_join_ids = {}


class JoinAtom:
    """concatenation of ALL elements of a symbolic sequence of strings (result of sep.join(symbolic list) with empty
    separator). Opaque at character level (uninterpreted length / characters keyed by an id); compared structurally."""
    __slots__ = ("seq", "jid", "is_str")

    def __init__(self, seq, is_str, jid=None):
        self.seq = seq
        self.is_str = is_str
        if jid is None:
            key = (id(seq),)
            jid = _join_ids.setdefault(key, len(_join_ids) + 1)
        self.jid = jid

    def length(self):
        return _joinlen(iv(self.jid))

    def char(self, i):
        return _joinchar(iv(self.jid), i)

    def __repr__(self):
        return "JoinAtom#%d" % self.jid


class SStr(V):
    """byte string or (latin-1) text string: rope of atoms"""
    __slots__ = ("atoms", "is_str")

    def __init__(self, atoms, is_str=False):
        out = []
        for a in atoms:
            if isinstance(a, Lit):
                if not a.b:
                    continue
                if out and isinstance(out[-1], Lit):
                    out[-1] = Lit(out[-1].b + a.b)
                    continue
            out.append(a)
        self.atoms = tuple(out)
        self.is_str = is_str

    @staticmethod
    def lit(x):
        if isinstance(x, str):
            return SStr([Lit(x.encode("latin-1"))], True)
        return SStr([Lit(bytes(x))], False)

    def concrete(self):
        """python bytes if fully literal else None"""
        if not self.atoms:
            return b""
        if len(self.atoms) == 1 and isinstance(self.atoms[0], Lit):
            return self.atoms[0].b
        return None

    def concrete_py(self):
        c = self.concrete()
        if c is None:
            return None
        return c.decode("latin-1") if self.is_str else c

    def single_win(self):
        if len(self.atoms) == 1 and isinstance(self.atoms[0], Win):
            return self.atoms[0]
        return None

    def length(self):
        t = iv(0)
        for a in self.atoms:
            t = t + a.length()
        return z3.simplify(t) if self.atoms else t

    def char(self, i):
        """code point at offset i (Int term), for 0 <= i < len"""
        if not self.atoms:
            return iv(0)
        offs = []
        off = iv(0)
        for a in self.atoms:
            offs.append(off)
            off = off + a.length()
        t = self.atoms[-1].char(i - offs[-1])
        for k in range(len(self.atoms) - 2, -1, -1):
            t = If(i < offs[k + 1], self.atoms[k].char(i - offs[k]), t)
        return t

    def with_str(self, is_str):
        atoms = []
        for a in self.atoms:
            if isinstance(a, Win) and a.is_str != is_str:
                a = Win(a.base, a.lo, a.hi, a.xf, is_str)
            elif isinstance(a, JoinAtom) and a.is_str != is_str:
                a = JoinAtom(a.seq, is_str, a.jid)
            atoms.append(a)
        return SStr(atoms, is_str)

    def axioms(self):
        out = []
        for a in self.atoms:
            if isinstance(a, Num):
                out += num_axioms(a)
            elif isinstance(a, JoinAtom):
                out.append(a.length() >= 0)
        return out

    def __repr__(self):
        return "%s%r" % ("S" if self.is_str else "B", list(self.atoms))


def mk_win(base, lo, hi, is_str=False, xf=()):
    return SStr([Win(base, lo, hi, xf, is_str)], is_str)


def concat(a, b):
    if a.is_str != b.is_str:
        raise Unsupported("concat of str and bytes")
    return SStr(list(a.atoms) + list(b.atoms), a.is_str)


_qcount = [0]


def qvar(prefix="q"):
    _qcount[0] += 1
    return z3.Int("%s?%d" % (prefix, _qcount[0]))


def str_eq(a, b):
    """z3 Bool: the two ropes denote the same string"""
    ca, cb = a.concrete(), b.concrete()
    if ca is not None and cb is not None:
        return TRUE if ca == cb else FALSE
    if ca is not None:
        a, b, ca, cb = b, a, cb, ca
    if cb is not None:
        conj = [a.length() == len(cb)]
        for k, ch in enumerate(cb):
            conj.append(a.char(iv(k)) == ch)
        return And(*conj)
    wa, wb = a.single_win(), b.single_win()
    if wa is not None and wb is not None and wa.base.eq(wb.base) and wa.xf == wb.xf:
        # same base: equal if same bounds, or pointwise
        j = qvar("j")
        return Or(And(wa.lo == wb.lo, wa.hi == wb.hi), And(wa.length() == 0, wb.length() == 0),
                  And(wa.length() == wb.length(),
                      z3.ForAll([j], Implies(And(0 <= j, j < wa.length()), wa.char(j) == wb.char(j)))))
    j = qvar("j")
    return And(a.length() == b.length(),
               z3.ForAll([j], Implies(And(0 <= j, j < a.length()), a.char(j) == b.char(j))))


def win_eq_rope(base, lo, hi, rope):
    """z3 Bool: base[lo:hi) == rope (pointwise)"""
    return str_eq(mk_win(base, lo, hi, rope.is_str), rope)


def in_class(c, cls):
    """c: Int term; cls: list of (lo,hi) inclusive code point ranges"""
    return Or(*[(c == a if a == b else And(c >= a, c <= b)) for a, b in cls])


def all_chars(s, pred):
    """forall chars of rope s: pred(codepoint)"""
    c = s.concrete()
    if c is not None:
        return And(*[pred(iv(ch)) for ch in c])
    w = s.single_win()
    if w is not None:
        p = qvar("p")
        return z3.ForAll([p], Implies(And(w.lo <= p, p < w.hi), pred(w.char_at(p))))
    j = qvar("j")
    return z3.ForAll([j], Implies(And(0 <= j, j < s.length()), pred(s.char(j))))


def any_char(s, pred):
    c = s.concrete()
    if c is not None:
        return Or(*[pred(iv(ch)) for ch in c])
    w = s.single_win()
    if w is not None:
        p = qvar("p")
        return z3.Exists([p], And(w.lo <= p, p < w.hi, pred(w.char_at(p))))
    j = qvar("j")
    return z3.Exists([j], And(0 <= j, j < s.length(), pred(s.char(j))))


def occurs_at(w, p, pat):
    """pattern bytes `pat` occurs in window w starting at absolute position p (does not check bounds)"""
    return And(*[w.char_at(p + k) == ch for k, ch in enumerate(pat)])


def find_axioms(w, pat, start, end, idx):
    """idx (Int, relative to w.lo) == w[start:end].find(pat) semantics: first occurrence fully inside [s,e) else -1.
    start/end are absolute positions already clamped into [w.lo, w.hi]."""
    m = len(pat)
    p = qvar("p")
    none_before = lambda lim: z3.ForAll([p], Implies(And(start <= p, p < lim), Not(occurs_at(w, p, pat))))
    found = And(idx >= start - w.lo, w.lo + idx + m <= end, occurs_at(w, w.lo + idx, pat), none_before(w.lo + idx))
    notfound = And(idx == -1, z3.ForAll([p], Implies(And(start <= p, p + m <= end), Not(occurs_at(w, p, pat)))))
    return Or(found, notfound)


# whitespace sets (code points) -------------------------------------------------------------------
WS_BYTES = [(9, 13), (32, 32)]
WS_STR = [(9, 13), (0x1c, 0x1f), (32, 32), (0x85, 0x85), (0xa0, 0xa0)]


def charset_ranges(chars):
    return [(c, c) for c in sorted(set(chars))]


# --------------------------------------------------------------------------------------------------
# heap objects
# --------------------------------------------------------------------------------------------------

class HObj:
    def __init__(self, cls, fields=None):
        self.cls = cls          # class name (str) e.g. 'Unreader'
        self.fields = dict(fields or {})

    def clone(self):
        return HObj(self.cls, self.fields)

    def __repr__(self):
        return "HObj(%s)" % self.cls


class HBio:
    """io.BytesIO; content: SStr; pos: None = positioned at the end (append mode), else an Int term (only 0 is modelled,
    as produced by io.BytesIO(initial_bytes))"""

    def __init__(self, content=None, pos=None):
        self.content = content if content is not None else SStr([], False)
        self.pos = pos

    def clone(self):
        return HBio(self.content, self.pos)


class SymSeqA:
    """immutable symbolic sequence view backed by arrays: elements elem(i) for lo <= i < hi (absolute indices);
    eshape packs/unpacks an element into the scalar components stored in `arrays`"""

    def __init__(self, lo, hi, arrays, eshape):
        self.lo = iv(lo) if isinstance(lo, int) else lo
        self.hi = iv(hi) if isinstance(hi, int) else hi
        self.arrays = list(arrays)
        self.eshape = eshape

    def length(self):
        return self.hi - self.lo

    def elem(self, i):
        return self.eshape.pack([z3.Select(a, i) for a in self.arrays])

    def get(self, k):
        return self.elem(self.lo + k)

    def append(self, v):
        comps = self.eshape.unpack(v)
        arrays = [z3.Store(a, self.hi, c) for a, c in zip(self.arrays, comps)]
        return SymSeqA(self.lo, self.hi + 1, arrays, self.eshape)

    def drop_first(self):
        return SymSeqA(self.lo + 1, self.hi, self.arrays, self.eshape)

    def drop_last(self):
        return SymSeqA(self.lo, self.hi - 1, self.arrays, self.eshape)


class HList:
    """python list: concrete items (list of V), or a symbolic view (SymSeqA), or -- only as the result of
    concrete.extend(symbolic) -- a concrete prefix followed by a symbolic tail (prefix is not None)"""

    def __init__(self, items=None, sym=None, prefix=None):
        self.items = list(items) if items is not None else None
        self.sym = sym
        self.prefix = list(prefix) if prefix is not None else None

    def clone(self):
        return HList(self.items, self.sym, self.prefix)

    def is_concrete(self):
        return self.items is not None

    def length(self):
        if self.items is not None:
            return iv(len(self.items))
        return self.sym.length()


class SMaybe(V):
    """value slot of a dict key that may be absent (only inside HDict.items; produced by loop havoc)"""

    def __init__(self, present, inner):
        self.present = present
        self.inner = inner

    def __repr__(self):
        return "SMaybe(%s,%r)" % (self.present, self.inner)


class HDict:
    """dict with concrete python keys -> V (e.g. small literal dicts, environ with literal keys).
    `dyn`: an abstract region of keys that are symbolic strings with a literal prefix no concrete key shares
    ({'prefix': bytes, 'count': z3 Int number of stores, 'last': (key, has-bool)}): membership there is unknown, loads give
    an arbitrary string, stores are counted. A value may be SMaybe (key possibly absent)."""

    def __init__(self, items=None, dyn=None):
        self.items = dict(items or {})
        self.dyn = dict(dyn) if dyn else None

    def clone(self):
        return HDict(self.items, self.dyn)



def _same_const(a, b):
    if a is b:
        return True
    if isinstance(a, SNone) and isinstance(b, SNone):
        return True
    if isinstance(a, SStr) and isinstance(b, SStr):
        return a.concrete() is not None and a.concrete() == b.concrete() and a.is_str == b.is_str
    if isinstance(a, Ref) and isinstance(b, Ref):
        return a.oid == b.oid
    if isinstance(a, SInt) and isinstance(b, SInt):
        return a.t.eq(b.t)
    if isinstance(a, SBool) and isinstance(b, SBool):
        return a.t.eq(b.t)
    if isinstance(a, ClassV) and isinstance(b, ClassV):
        return a.pycls is b.pycls
    if isinstance(a, FuncV) and isinstance(b, FuncV):
        return a.qual == b.qual and (a.self_v is b.self_v or (a.self_v is not None and b.self_v is not None and _same_const(a.self_v, b.self_v)))
    if isinstance(a, StubV) and isinstance(b, StubV):
        return a.name == b.name
    if isinstance(a, ModV) and isinstance(b, ModV):
        return a.name == b.name
    if isinstance(a, Opaque) and isinstance(b, Opaque):
        return a.tag == b.tag
    if isinstance(a, PyConst) and isinstance(b, PyConst):
        return a.val == b.val
    if isinstance(a, STuple) and isinstance(b, STuple):
        return len(a.items) == len(b.items) and all(_same_const(x, y) for x, y in zip(a.items, b.items))
    return False
