"""Verification environment: stubs for builtins / stdlib, hooks for modelled objects, contract application."""
import ast
import re as _re

import z3

from . import strops, regex
from .smt import (And, Or, Not, Implies, If, Min, Max, iv, fresh_int, fresh_bool, fresh_real, fresh_name, const_int,
                  const_bool, TRUE, FALSE, entails, I, B, R)
from .values import (V, SInt, SBool, SReal, SNone, NONE, SStr, STuple, Ref, SymRef, SExc, ClassV, FuncV, StubV, ModV,
                     RegexV, MatchV, Opaque, PyConst, SOpt, Lit, Win, Num, mk_win, concat, str_eq, HObj, HList, HBio,
                     HDict, SymSeqA, Unsupported, all_chars, in_class)
from .shapes import (Shape, IntShape, BoolShape, RealShape, ConstShape, WinShape, TupleShape, SymRefShape, OptionShape,
                     ListShape, shape_of)
from .contracts import REGISTRY, INLINE, Ctx
from .exec import Res, SSuper, SPartial, SLambda, SGen

STUBS = {}


def stub(*names):
    def deco(f):
        for n in names:
            STUBS[n] = f
        return f
    return deco


class SeqIter:
    """iteration model for sequences with a known (possibly symbolic) length"""

    def __init__(self, length, elem):
        self.length = length
        self.elem = elem

    def step(self, ex, st, idx):
        a, b = ex.split(st, idx < self.length)
        out = []
        if a is not None:
            out.append((a, "item", self.elem(a, idx)))
        if b is not None:
            out.append((b, "stop", None))
        return out


class VerifyEnv:
    def __init__(self, repo):
        self.repo = repo
        self.stubs = STUBS
        self.pyclasses = {}
        self.class_models = {}       # class name -> ClassModel (lazy fields, hooks)
        self.symref_models = {}      # cls -> {field: Shape}
        self.assumptions = set()
        self.ctx_models = {}
        self.iter_models = []

    # ---- classes ------------------------------------------------------------------------------------
    def register_pycls(self, name, pycls):
        self.pyclasses[name] = pycls

    def pycls_of(self, name):
        if name in self.pyclasses:
            return self.pyclasses[name]
        return None

    def use_class(self, module, name):
        c = self.repo.class_by_name(module, name)
        if c is not None:
            self.pyclasses[name] = c
        return c

    # ---- hooks (overridable by class models) ------------------------------------------------------------
    def attr_hook(self, ex, st, ref, o, attr):
        cm = self.class_models.get(o.cls)
        if cm is not None:
            return cm.get_attr(ex, st, ref, o, attr)
        return None

    def setattr_hook(self, ex, st, ref, o, attr, v):
        cm = self.class_models.get(o.cls)
        if cm is not None:
            return cm.set_attr(ex, st, ref, o, attr, v)
        return False

    def truth_hook(self, ex, st, ref, o):
        cm = self.class_models.get(o.cls)
        if cm is not None and hasattr(cm, "truth"):
            return cm.truth(ex, st, ref, o)
        return None

    def contains_hook(self, ex, st, ref, o, item):
        cm = self.class_models.get(getattr(o, "cls", None))
        if cm is not None:
            return cm.contains(ex, st, ref, o, item)
        return None

    def index_hook(self, ex, st, ref, o, key):
        cm = self.class_models.get(getattr(o, "cls", None))
        if cm is not None:
            return cm.getitem(ex, st, ref, o, key)
        return None

    def setitem_hook(self, ex, st, ref, o, key, v):
        cm = self.class_models.get(getattr(o, "cls", None))
        if cm is not None:
            return cm.setitem(ex, st, ref, o, key, v)
        if isinstance(o, HList) and o.items is not None and isinstance(key, SInt):
            ck = const_int(key.t)
            if ck is not None and -len(o.items) <= ck < len(o.items):
                o.items[ck] = v
                return [(st, None)]
        return None

    def delitem(self, ex, st, cont, key):
        if isinstance(cont, Ref):
            o = st.obj(cont)
            if isinstance(o, HDict):
                k = ex.dict_key(key)
                if k in o.items:
                    del o.items[k]
                    return [(st, None)]
                return [(st, ("raise", SExc(KeyError)))]
            cm = self.class_models.get(getattr(o, "cls", None))
            if cm is not None:
                r = cm.delitem(ex, st, cont, o, key)
                if r is not None:
                    return r
        raise Unsupported("del item of %r" % (cont,))

    def global_hook(self, ex, st, module, name):
        """contracts may bind module-level names of modules that cannot be imported here (optional third-party dependency)"""
        ov = getattr(self, "global_overrides", None)
        if ov:
            return ov.get((module, name))
        return None

    def mod_attr_hook(self, ex, st, full):
        if full in ("os.environ",):
            return st.ghost.get("os.environ")
        ov = getattr(self, "mod_attr_overrides", None)
        if ov and full in ov:
            return ov[full]
        return None

    def symref_get(self, ex, st, ref, attr):
        model = self.symref_models.get(ref.cls)
        if model is None or attr not in model:
            raise Unsupported("field %s of symbolic %s" % (attr, ref.cls))
        shp = model[attr]
        if callable(shp) and not isinstance(shp, Shape):
            return shp(ex, st, ref)
        if isinstance(shp, str):
            return StubV(shp, ref)
        arrs = []
        for k, srt in enumerate(shp.sorts):
            key = (ref.cls, "%s#%d" % (attr, k))
            if key not in st.cheap:
                st.cheap[key] = z3.Array("heap.%s.%s.%d" % (ref.cls, attr, k), I, srt)
            arrs.append(st.cheap[key])
        return shp.pack([z3.Select(a, ref.t) for a in arrs])

    def symref_set(self, ex, st, ref, attr, v):
        model = self.symref_models.get(ref.cls)
        if model is None or attr not in model:
            raise Unsupported("store to field %s of symbolic %s" % (attr, ref.cls))
        shp = model[attr]
        if not isinstance(shp, Shape):
            return          # field modelled by a function / stub name: stores are not tracked
        comps = shp.unpack(v)
        for k, (srt, c) in enumerate(zip(shp.sorts, comps)):
            key = (ref.cls, "%s#%d" % (attr, k))
            if key not in st.cheap:
                st.cheap[key] = z3.Array("heap.%s.%s.%d" % (ref.cls, attr, k), I, srt)
            st.cheap[key] = z3.Store(st.cheap[key], ref.t, c)

    # ---- iteration --------------------------------------------------------------------------------------
    def iter_model(self, ex, st, v):
        items = ex.concrete_items(st, v)
        if items is not None:
            def elem(s, idx, items=items):
                ci = const_int(idx)
                if ci is not None:
                    return items[ci]
                raise Unsupported("symbolic index into concrete sequence in for-loop")
            return SeqIter(iv(len(items)), elem)
        seq = ex.sym_seq(st, v)
        if seq is not None:
            return SeqIter(seq.length(), lambda s, idx, seq=seq: seq.get(idx))
        if isinstance(v, Ref) and isinstance(st.obj(v), HDict):
            keys = [SStr.lit(k) if isinstance(k, str) else SInt(k) for k in st.obj(v).items]      # literal dict: its keys in order

            def kelem(s, idx, keys=keys):
                ci = const_int(idx)
                if ci is None:
                    raise Unsupported("symbolic index into literal dict keys")
                return keys[ci]
            return SeqIter(iv(len(keys)), kelem)
        for fn in self.iter_models:
            r = fn(ex, st, v)
            if r is not None:
                return r
        if isinstance(v, SStr) and not v.is_str:
            return SeqIter(v.length(), lambda s, idx, v=v: SInt(v.char(idx)))
        raise Unsupported("iteration over %r" % (v,))

    # ---- context managers -------------------------------------------------------------------------------
    def ctx_enter(self, ex, st, cmv):
        for fn in self.ctx_models.values():
            r = fn("enter", ex, st, cmv, None)
            if r is not None:
                return r
        raise Unsupported("context manager %r" % (cmv,))

    def ctx_exit(self, ex, st, cmv, outcome):
        for fn in self.ctx_models.values():
            r = fn("exit", ex, st, cmv, outcome)
            if r is not None:
                return r
        return [(st, outcome)]

    # ---- calls -----------------------------------------------------------------------------------------
    def abstract_registry(self):
        return REGISTRY

    def may_inline(self, qual):
        return qual in INLINE or qual in self._force_inline

    _force_inline = frozenset()

    def contract_for(self, qual, ex, st, fv, args, kwargs):
        c = REGISTRY.get(qual)
        if ex.contract is not None and qual in getattr(ex.contract, "inline_callees", ()):
            # this caller is verified against the BODIES of these small callees (reported as inlined)
            self._force_inline = frozenset(ex.contract.inline_callees)
            return None
        if c is not None and ex.contract is c and ex.depth == 0 and getattr(c, "recursive_inline", False):
            return None
        return c

    def call_stub(self, ex, st, sv, args, kwargs, node):
        name = sv.name
        f = self.stubs.get(name)
        if f is None and name.startswith("str."):
            m = strops.METHODS.get(name[4:])
            if m is not None:
                return m(ex, st, sv.self_v, args)
            if name == "str.split":
                return strops.m_split(ex, st, sv.self_v, args, kwargs)
        if f is None and name.startswith("opaque."):
            f = self.stubs.get("opaque.*")
        if f is None:
            # class-model method stubs: '<Class>.<method>'
            cls, _, meth = name.rpartition(".")
            cm = self.class_models.get(cls)
            if cm is not None:
                r = cm.call(ex, st, sv.self_v, meth, args, kwargs, node)
                if r is not None:
                    return r
            raise Unsupported("no model for external call %s" % name)
        return f(ex, st, sv.self_v, args, kwargs, node)

    # ---- contracts at call sites -------------------------------------------------------------------------
    def apply_contract(self, ex, st, con, finfo, loc, node):
        site = getattr(node, "_site", None) or ("L%d" % getattr(node, "lineno", 0))
        c = Ctx(ex, st, loc, mode="call")
        short = finfo.qual.split(":")[1]
        for ax in con.ghost_axioms(c):
            st.assume(ax)
        for (nm, goal) in con.pre(c):
            ex.oblige("%s.call.pre(%s):%s" % (site, short, nm), "call.pre", st, goal)
            st.assume(goal)
        outs = []
        raises = con.raises(c)
        old = st.fork()
        # exceptional outcomes
        for entry in raises:
            ecls, cond = entry[0], entry[1]
            fields = entry[2] if len(entry) > 2 else {}
            s2 = st.fork()
            if cond is not None:
                s2.assume(cond)
            if not ex.feasible(s2):
                continue
            c2 = Ctx(ex, s2, loc, old=old, mode="call")
            self._havoc(ex, s2, con, c2)
            exc = SExc(ecls, (), dict(fields) if isinstance(fields, dict) else fields(c2))
            c2.exc = exc
            for (nm, fact) in con.exc_post(c2):
                s2.assume(fact)
            outs.append(Res(s2, None, exc))
        # normal outcome
        s1 = st
        if con.exact_raises:
            for entry in raises:
                if entry[1] is not None:
                    s1.assume(Not(entry[1]))
        c1 = Ctx(ex, s1, loc, old=old, mode="call")
        self._havoc(ex, s1, con, c1)
        shp = con.result_shape(c1)
        if shp is None:
            c1.result = NONE
        elif isinstance(shp, V):
            c1.result = shp
        elif isinstance(shp, ListShape):
            c1.result = s1.alloc(HList(sym=shp.fresh_seq(s1, "ret")))
        else:
            c1.result = shp.fresh(s1, "ret.%s" % short)
        con.effects(c1)
        for (nm, fact) in con.post(c1):
            s1.assume(fact)
        if ex.feasible(s1):
            outs.append(Res(s1, c1.result, None))
        return outs

    def _havoc(self, ex, st, con, c):
        for loc in con.modifies(c):
            kind = loc[0]
            if kind == "field":
                _, ref, name = loc[:3]
                o = st.obj(ref)
                cur = o.fields.get(name)
                shp = loc[3] if len(loc) > 3 else None
                if shp is None:
                    if cur is None:
                        raise Unsupported("havoc of unset field %s" % name)
                    if isinstance(cur, Ref):
                        self._havoc_obj(ex, st, cur, name, None)
                        continue
                    shp = shape_of(cur)
                if isinstance(shp, V):
                    o.fields[name] = shp
                elif isinstance(shp, ListShape):
                    o.fields[name] = st.alloc(HList(sym=shp.fresh_seq(st, "%s'" % name, view=False)))
                elif isinstance(shp, ConstShape):
                    o.fields[name] = shp.v
                else:
                    o.fields[name] = shp.fresh(st, "%s'" % name)
            elif kind == "obj":
                self._havoc_obj(ex, st, loc[1], "obj", loc[2] if len(loc) > 2 else None)
            elif kind == "cheap":
                key = (loc[1], loc[2])
                for k in [k for k in st.cheap if k[0] == loc[1] and k[1].split("#")[0] == loc[2]]:
                    st.cheap[k] = z3.Const(fresh_name("heap.%s.%s" % k), st.cheap[k].sort())
            elif kind == "ghost":
                cur = st.ghost[loc[1]]
                shp = loc[2] if len(loc) > 2 else None
                if shp is not None:
                    st.ghost[loc[1]] = shp.fresh(st, "ghost.%s'" % loc[1]) if isinstance(shp, Shape) else shp
                elif isinstance(cur, V):
                    st.ghost[loc[1]] = shape_of(cur).fresh(st, "ghost.%s'" % loc[1])
                else:
                    st.ghost[loc[1]] = z3.Const(fresh_name("ghost.%s" % loc[1]), cur.sort())
            else:
                raise Unsupported("modifies descriptor %r" % (loc,))

    def _havoc_obj(self, ex, st, ref, name, shp):
        o = st.obj(ref)
        if isinstance(o, HBio):
            if shp is None:
                if not o.content.atoms:
                    raise Unsupported("havoc of empty BytesIO without a declared shape")
                shp = shape_of(o.content)
            o.content = shp.fresh(st, name + ".content'")
        elif isinstance(o, HList):
            if shp is None:
                if o.sym is not None:
                    shp = ListShape(o.sym.eshape)
                else:
                    raise Unsupported("havoc of concrete list without declared shape")
            o.items = None
            o.sym = shp.fresh_seq(st, name + "'")
        else:
            raise Unsupported("havoc of object %r" % (o,))


class ClassModel:
    """model of an external / abstracted class: lazily created fields, method stubs"""

    def get_attr(self, ex, st, ref, o, attr):
        return None

    def set_attr(self, ex, st, ref, o, attr, v):
        return False

    def contains(self, ex, st, ref, o, item):
        return None

    def getitem(self, ex, st, ref, o, key):
        return None

    def setitem(self, ex, st, ref, o, key, v):
        return None

    def delitem(self, ex, st, ref, o, key):
        return None

    def call(self, ex, st, self_v, meth, args, kwargs, node):
        return None


# ======================================================================================================
# builtin stubs
# ======================================================================================================

def R1(ex, st, v):
    return [ex.res(st, v)]


@stub("len")
def _len(ex, st, self_v, args, kwargs, node):
    v = args[0]
    if isinstance(v, SStr):
        return R1(ex, st, SInt(v.length()))
    if isinstance(v, STuple):
        return R1(ex, st, SInt(len(v.items)))
    if isinstance(v, Ref):
        o = st.obj(v)
        if isinstance(o, HList):
            return R1(ex, st, SInt(o.length()))
        if isinstance(o, HDict):
            return R1(ex, st, SInt(len(o.items)))
        cm = ex.env.class_models.get(getattr(o, "cls", None))
        if cm is not None:
            r = cm.call(ex, st, v, "__len__", [], {}, node)
            if r is not None:
                return r
    if isinstance(v, PyConst):
        return R1(ex, st, SInt(len(v.val)))
    raise Unsupported("len(%r)" % (v,))


def _minmax(is_min):
    def f(ex, st, self_v, args, kwargs, node):
        if len(args) == 1:
            items = ex.concrete_items(st, args[0])
            if items is None:
                raise Unsupported("min/max of symbolic sequence")
            args = items
        ts = []
        real = False
        for a in args:
            t, r = ex.num(a)
            if t is None:
                raise Unsupported("min/max of %r" % (a,))
            ts.append((t, r))
            real = real or r
        acc = None
        for t, r in ts:
            if real and not r:
                t = z3.ToReal(t)
            acc = t if acc is None else (Min(acc, t) if is_min else Max(acc, t))
        return R1(ex, st, SReal(acc) if real else SInt(acc))
    return f


STUBS["min"] = _minmax(True)
STUBS["max"] = _minmax(False)


def isinstance_py(ex, st, v, cls):
    """-> python bool or z3 Bool"""
    if isinstance(cls, STuple):
        rs = [isinstance_py(ex, st, v, c) for c in cls.items]
        if any(r is True for r in rs):
            return True
        sym = [r for r in rs if r is not False and r is not True]
        if sym:
            return Or(*sym)
        return False
    if not isinstance(cls, ClassV):
        raise Unsupported("isinstance against %r" % (cls,))
    pc = cls.pycls
    if isinstance(v, SOpt):
        return And(v.some, _b(isinstance_py(ex, st, v.inner, cls)))
    if isinstance(v, SBool):
        return pc in (bool, int, object)
    if isinstance(v, SInt):
        return pc in (int, object)
    if isinstance(v, SReal):
        return pc in (float, object)
    if isinstance(v, SStr):
        return pc in ((str, object) if v.is_str else (bytes, object))
    if isinstance(v, SNone):
        return pc is object or pc is type(None)
    if isinstance(v, STuple):
        return pc in (tuple, object)
    if isinstance(v, SExc):
        return issubclass(v.cls, pc)
    if isinstance(v, Ref):
        o = st.obj(v)
        if isinstance(o, HList):
            return pc in (list, object)
        if isinstance(o, HDict):
            return pc in (dict, object)
        if isinstance(o, HBio):
            import io
            return pc in (io.BytesIO, object)
        if isinstance(o, HObj):
            real = ex.env.pycls_of(o.cls)
            if real is not None:
                return issubclass(real, pc)
            if pc in (int, str, bytes, tuple, list, dict, float, bool):
                return False
            cm = ex.env.class_models.get(o.cls)
            r = getattr(cm, "isinstance", None)
            if r is not None:
                return r(ex, st, v, o, pc)
            return pc.__name__ == o.cls
    if isinstance(v, (ClassV, FuncV, StubV, ModV, SymRef, Opaque, SPartial)):
        if pc in (int, str, bytes, tuple, list, dict, float, bool):
            return False
        if isinstance(v, Opaque):
            return fresh_bool("isinstance.opaque")
        return pc is object
    raise Unsupported("isinstance(%r, %s)" % (v, pc.__name__))


def _b(x):
    return z3.BoolVal(x) if isinstance(x, bool) else x


@stub("isinstance")
def _isinstance(ex, st, self_v, args, kwargs, node):
    r = isinstance_py(ex, st, args[0], args[1])
    return R1(ex, st, SBool(r))


@stub("int")
def _int(ex, st, self_v, args, kwargs, node):
    base = 10
    if len(args) > 1:
        base = const_int(args[1].t)
    if not args:
        return R1(ex, st, SInt(0))
    return strops.to_int(ex, st, args[0], base)


@stub("str")
def _str(ex, st, self_v, args, kwargs, node):
    if not args:
        return R1(ex, st, SStr.lit(""))
    if len(args) >= 2:
        # str(b, encoding)
        return strops.m_decode(ex, st, args[0], args[1:2])
    return R1(ex, st, strops.to_str(ex, st, args[0]))


@stub("bool")
def _bool(ex, st, self_v, args, kwargs, node):
    return R1(ex, st, SBool(ex.truth(args[0], st)))


@stub("float")
def _float(ex, st, self_v, args, kwargs, node):
    t, r = ex.num(args[0])
    if t is None:
        raise Unsupported("float(%r)" % (args[0],))
    return R1(ex, st, SReal(t if r else z3.ToReal(t)))


@stub("hasattr")
def _hasattr(ex, st, self_v, args, kwargs, node):
    v, name = args[0], args[1].concrete_py()
    if isinstance(v, Ref):
        o = st.obj(v)
        if isinstance(o, HObj):
            if name in o.fields:
                return R1(ex, st, SBool(True))
            pyc = ex.env.pycls_of(o.cls)
            if pyc is not None:
                return R1(ex, st, SBool(hasattr(pyc, name)))
            cm = ex.env.class_models.get(o.cls)
            ha = getattr(cm, "hasattr", None)
            if ha is not None:
                return R1(ex, st, SBool(ha(ex, st, v, o, name)))
    if isinstance(v, SExc):
        return R1(ex, st, SBool(name in v.fields or hasattr(v.cls, name)))
    if isinstance(v, SNone):
        return R1(ex, st, SBool(False))
    if isinstance(v, ModV):
        import importlib
        return R1(ex, st, SBool(hasattr(importlib.import_module(v.name), name)))
    if isinstance(v, ClassV):
        return R1(ex, st, SBool(hasattr(v.pycls, name)))
    if isinstance(v, Opaque):
        return R1(ex, st, SBool(fresh_bool("hasattr.%s" % name)))
    raise Unsupported("hasattr(%r, %s)" % (v, name))


@stub("getattr")
def _getattr(ex, st, self_v, args, kwargs, node):
    name = args[1].concrete_py() if isinstance(args[1], SStr) else None
    if name is None:
        raise Unsupported("getattr with symbolic name")
    try:
        return ex.getattr(st, args[0], name)
    except Unsupported:
        if len(args) > 2:
            return R1(ex, st, args[2])
        raise


@stub("list", "tuple")
def _list(ex, st, self_v, args, kwargs, node):
    if not args:
        return R1(ex, st, st.alloc(HList([])))
    v = args[0]
    items = ex.concrete_items(st, v)
    if items is not None:
        return R1(ex, st, st.alloc(HList(list(items))))
    seq = ex.sym_seq(st, v)
    if seq is not None:
        return R1(ex, st, st.alloc(HList(sym=seq)))
    for fn in ex.env.iter_models:
        r = fn(ex, st, v, as_list=True)
        if r is not None:
            return R1(ex, st, r)
    raise Unsupported("list(%r)" % (v,))


@stub("any", "all")
def _any(ex, st, self_v, args, kwargs, node):
    is_any = node.func.id == "any"
    g = args[0]
    if isinstance(g, SGen):
        ge = g.node
        if len(ge.generators) != 1 or ge.generators[0].ifs:
            raise Unsupported("any/all generator shape")
        gen = ge.generators[0]
        rs = ex.ev(gen.iter, st)
        if len(rs) != 1 or rs[0].exc is not None:
            raise Unsupported("any/all iterable forks")
        itv, st = rs[0].v, rs[0].st
        items = ex.concrete_items(st, itv)
        if items is not None:
            terms = []
            for it in items:
                saved = dict(st.locals)
                ex.bind_target(gen.target, it, st)
                r2 = ex.ev(ge.elt, st)
                if len(r2) != 1 or r2[0].exc is not None:
                    raise Unsupported("any/all element forks")
                terms.append(ex.truth(r2[0].v, st))
                st.locals = saved
            return R1(ex, st, SBool(Or(*terms) if is_any else And(*terms)))
        # symbolic: quantify over the index
        rng = None
        if isinstance(itv, SStr) and not itv.is_str and itv.single_win() is not None:
            # quantify over ABSOLUTE stream positions (trigger base[p]) rather than offsets: E-matching friendly
            w = itv.single_win()
            length = None
            elem = lambda j: SInt(w.char_at(j))
            rng = lambda j: And(w.lo <= j, j < w.hi)
        elif isinstance(itv, SStr) and not itv.is_str:
            length = itv.length()
            elem = lambda j: SInt(itv.char(j))
        else:
            seq = ex.sym_seq(st, itv)
            if seq is None:
                raise Unsupported("any/all over %r" % (itv,))
            length = seq.length()
            elem = lambda j: seq.get(j)
        j = z3.Int(fresh_name("aj"))
        saved = dict(st.locals)
        npc = len(st.pc)
        ex.bind_target(gen.target, elem(j), st)
        r2 = ex.ev(ge.elt, st)
        if len(r2) != 1 or r2[0].exc is not None or len(st.pc) != npc:
            raise Unsupported("any/all element expression forks or adds facts")
        body = ex.truth(r2[0].v, st)
        st.locals = saved
        rg = rng(j) if rng is not None else And(0 <= j, j < length)
        t = z3.Exists([j], And(rg, body)) if is_any else z3.ForAll([j], Implies(rg, body))
        return R1(ex, st, SBool(t))
    items = ex.concrete_items(st, g)
    if items is not None:
        ts = [ex.truth(x, st) for x in items]
        return R1(ex, st, SBool(Or(*ts) if is_any else And(*ts)))
    raise Unsupported("any/all of %r" % (g,))


@stub("range")
def _range(ex, st, self_v, args, kwargs, node):
    if len(args) == 1:
        lo, hi = iv(0), args[0].t
    elif len(args) == 2:
        lo, hi = args[0].t, args[1].t
    else:
        raise Unsupported("range with step")
    clo, chi = const_int(lo), const_int(hi)
    if clo is not None and chi is not None and chi - clo <= 8:
        # small constant range: a literal list (for-loops over it are unrolled)
        return R1(ex, st, st.alloc(HList([SInt(k) for k in range(clo, chi)])))
    n = If(hi > lo, hi - lo, iv(0))
    i = z3.Int("i?range")
    arr = z3.Lambda([i], lo + i)
    return R1(ex, st, st.alloc(HList(sym=SymSeqA(iv(0), n, [arr], IntShape()))))


@stub("super")
def _super(ex, st, self_v, args, kwargs, node):
    slf = st.locals.get("self")
    if slf is None:
        raise Unsupported("super() outside method")
    # class in which the currently executing function is defined
    fi = ex.env.repo.funcs.get(st.locals.get("__qual__").concrete_py()) if "__qual__" in st.locals else None
    qual = ex.cur_qual()
    mod, _, rest = qual.partition(":")
    cname = rest.rsplit(".", 1)[0]
    pycls = ex.env.repo.class_by_name(mod, cname)
    if pycls is None:
        raise Unsupported("super(): class %s not importable" % cname)
    return R1(ex, st, SSuper(slf, pycls))


@stub("io.BytesIO", "_io.BytesIO")
def _bytesio(ex, st, self_v, args, kwargs, node):
    if args:
        d = args[0]
        if not isinstance(d, SStr) or d.is_str:
            raise Unsupported("io.BytesIO(%r)" % (d,))
        # BytesIO(initial): the stream position is 0 (tell() == 0, a write overwrites from the start)
        return R1(ex, st, st.alloc(HBio(d, pos=iv(0))))
    return R1(ex, st, st.alloc(HBio()))


@stub("BytesIO.write")
def _bio_write(ex, st, self_v, args, kwargs, node):
    o = st.obj(self_v)
    d = args[0]
    if not isinstance(d, SStr) or d.is_str:
        return [ex.res_exc(st, SExc(TypeError))]
    cur = o.content
    if o.pos is not None:
        if entails(st.pc, o.pos == cur.length(), 2000):
            o.pos = None
        elif const_int(o.pos) == 0:
            # overwrite from position 0: new content = d ++ content[len(d):]
            tail = strops.slice_str(cur, d.length(), None) if cur.atoms else cur
            keep = entails(st.pc, d.length() >= cur.length(), 2000)
            o.content = d if keep else concat(d, tail)
            o.pos = None if keep else d.length()
            return R1(ex, st, SInt(d.length()))
        else:
            raise Unsupported("BytesIO.write at a position inside the buffer")
    if not cur.atoms:
        o.content = d
    elif not d.atoms:
        pass
    else:
        wc, wd = cur.single_win(), d.single_win()
        merged = None
        if wc is not None and wd is not None and wc.base.eq(wd.base) and wc.xf == wd.xf:
            # adjacent windows of the same stream merge into one window
            adj = Or(wd.length() == 0, wc.length() == 0, wc.hi == wd.lo)
            if entails(st.pc, adj, 3000):
                lo = If(wc.length() == 0, wd.lo, wc.lo)
                hi = If(wd.length() == 0, If(wc.length() == 0, wd.lo, wc.hi), wd.hi)
                merged = mk_win(wc.base, z3.simplify(lo), z3.simplify(hi), False, wc.xf)
        o.content = merged if merged is not None else concat(cur, d)
    return R1(ex, st, SInt(d.length()))


@stub("BytesIO.getvalue")
def _bio_getvalue(ex, st, self_v, args, kwargs, node):
    return R1(ex, st, st.obj(self_v).content)


@stub("BytesIO.tell")
def _bio_tell(ex, st, self_v, args, kwargs, node):
    o = st.obj(self_v)
    if o.pos is not None:
        return R1(ex, st, SInt(o.pos))
    return R1(ex, st, SInt(o.content.length()))


@stub("BytesIO.seek")
def _bio_seek(ex, st, self_v, args, kwargs, node):
    off = const_int(args[0].t)
    wh = const_int(args[1].t) if len(args) > 1 else 0
    if off == 0 and wh == 2:
        st.obj(self_v).pos = None
        return R1(ex, st, SInt(st.obj(self_v).content.length()))
    raise Unsupported("BytesIO.seek other than seek(0, SEEK_END)")


@stub("list.append")
def _list_append(ex, st, self_v, args, kwargs, node):
    o = st.obj(self_v)
    if o.items is not None:
        o.items.append(args[0])
    else:
        o.sym = o.sym.append(args[0])
    return R1(ex, st, NONE)


@stub("list.extend")
def _list_extend(ex, st, self_v, args, kwargs, node):
    o = st.obj(self_v)
    items = ex.concrete_items(st, args[0])
    if o.items is not None and items is not None:
        o.items.extend(items)
        return R1(ex, st, NONE)
    seq = ex.sym_seq(st, args[0])
    if o.items is not None and seq is not None and o.prefix is None:
        if not o.items:
            o.items, o.sym = None, seq
        else:
            # concrete prefix followed by a symbolic tail (only join / iteration-free uses are supported afterwards)
            o.prefix, o.items, o.sym = list(o.items), None, seq
        return R1(ex, st, NONE)
    raise Unsupported("list.extend with symbolic lists")


@stub("list.insert")
def _list_insert(ex, st, self_v, args, kwargs, node):
    o = st.obj(self_v)
    k = const_int(args[0].t)
    if o.items is not None and k is not None:
        o.items.insert(k, args[1])
        return R1(ex, st, NONE)
    raise Unsupported("list.insert on symbolic list")


@stub("list.pop")
def _list_pop(ex, st, self_v, args, kwargs, node):
    o = st.obj(self_v)
    k = const_int(args[0].t) if args else -1
    if k is None:
        raise Unsupported("list.pop(symbolic)")
    if o.items is not None:
        if not o.items or not (-len(o.items) <= k < len(o.items)):
            return [ex.res_exc(st, SExc(IndexError))]
        return R1(ex, st, o.items.pop(k))
    if k not in (0, -1):
        raise Unsupported("list.pop(k) on symbolic list")
    ok, bad = ex.split(st, o.sym.length() > 0)
    out = []
    if ok is not None:
        oo = ok.obj(self_v)
        if k == 0:
            v = oo.sym.get(iv(0))
            oo.sym = oo.sym.drop_first()
        else:
            v = oo.sym.elem(oo.sym.hi - 1)
            oo.sym = oo.sym.drop_last()
        out.append(ex.res(ok, v))
    if bad is not None:
        out.append(ex.res_exc(bad, SExc(IndexError)))
    return out


@stub("list.remove")
def _list_remove(ex, st, self_v, args, kwargs, node):
    o = st.obj(self_v)
    if o.items is None:
        raise Unsupported("list.remove on symbolic list")
    out = []
    cur = st
    for k, it in enumerate(o.items):
        a, cur = ex.split(cur, ex.equal(args[0], it, cur))
        if a is not None:
            a.obj(self_v).items.pop(k)
            out.append(ex.res(a, NONE))
        if cur is None:
            return out
    out.append(ex.res_exc(cur, SExc(ValueError)))
    return out


@stub("str.split")
def _str_split(ex, st, self_v, args, kwargs, node):
    return strops.m_split(ex, st, self_v, args, kwargs)


@stub("str.format")
def _str_format(ex, st, self_v, args, kwargs, node):
    return R1(ex, st, strops.fresh_str(st, "format", self_v.is_str))


@stub("regex.fullmatch", "regex.search", "regex.match")
def _regex(ex, st, self_v, args, kwargs, node):
    kind = node.func.attr
    return regex.apply(ex, st, self_v, kind, args[0])


@stub("match.group")
def _match_group(ex, st, self_v, args, kwargs, node):
    k = const_int(args[0].t)
    return R1(ex, st, self_v.groups[k])


@stub("next")
def _next(ex, st, self_v, args, kwargs, node):
    v = args[0]
    if isinstance(v, Ref):
        o = st.obj(v)
        if isinstance(o, HObj):
            pyc = ex.env.pycls_of(o.cls)
            if pyc is not None:
                fi = ex.env.repo.func_for_method(pyc, "__next__")
                if fi is not None:
                    return ex.call_func(FuncV(fi.qual, v), st, [], {}, node)
            cm = ex.env.class_models.get(o.cls)
            if cm is not None:
                r = cm.call(ex, st, v, "__next__", [], {}, node)
                if r is not None:
                    return r
    raise Unsupported("next(%r)" % (v,))


@stub("iter")
def _iter(ex, st, self_v, args, kwargs, node):
    return R1(ex, st, args[0])


@stub("object.__init__")
def _obj_init(ex, st, self_v, args, kwargs, node):
    return R1(ex, st, NONE)


@stub("print")
def _print(ex, st, self_v, args, kwargs, node):
    return R1(ex, st, NONE)


@stub("functools.partial")
def _partial(ex, st, self_v, args, kwargs, node):
    return R1(ex, st, SPartial(args[0], args[1:]))


@stub("exc.with_traceback")
def _with_tb(ex, st, self_v, args, kwargs, node):
    return R1(ex, st, self_v)


@stub("opaque.*")
def _opaque_any(ex, st, self_v, args, kwargs, node):
    return R1(ex, st, Opaque("ret"))


@stub("dict.get")
def _dict_get(ex, st, self_v, args, kwargs, node):
    o = st.obj(self_v)
    default = args[1] if len(args) > 1 else NONE
    rs = ex.index(st, self_v, args[0])
    out = []
    for r in rs:
        if r.exc is not None and r.exc.cls is KeyError:
            out.append(ex.res(r.st, default))
        else:
            out.append(r)
    return out


@stub("dict.update")
def _dict_update(ex, st, self_v, args, kwargs, node):
    o = st.obj(self_v)
    src = args[0]
    if isinstance(src, Ref) and isinstance(st.obj(src), HDict):
        o.items.update(st.obj(src).items)
        return R1(ex, st, NONE)
    raise Unsupported("dict.update(%r)" % (src,))


@stub("dict.items")
def _dict_items(ex, st, self_v, args, kwargs, node):
    o = st.obj(self_v)
    items = [STuple([ex.lift_const(k), v]) for k, v in o.items.items()]
    return R1(ex, st, st.alloc(HList(items)))


@stub("dict.copy")
def _dict_copy(ex, st, self_v, args, kwargs, node):
    return R1(ex, st, st.alloc(st.obj(self_v).clone()))


@stub("const.get")
def _const_get(ex, st, self_v, args, kwargs, node):
    d = self_v.val
    a0 = args[0]
    if isinstance(a0, SInt) and const_int(a0.t) is None and all(isinstance(k, int) for k in d):
        # symbolic integer key into a constant dict: one path per key, plus the default
        outs = []
        cur = st
        for k in d:
            hit, cur = ex.split(cur, a0.t == int(k))
            if hit is not None:
                outs.append(ex.res(hit, ex.lift(d[k])))
            if cur is None:
                return outs
        outs.append(ex.res(cur, args[1] if len(args) > 1 else NONE))
        return outs
    k = ex.dict_key(args[0])
    if k in d:
        return R1(ex, st, ex.lift(d[k]))
    return R1(ex, st, args[1] if len(args) > 1 else NONE)
