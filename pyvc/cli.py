"""pyvc command line:  check <ID> [--tier quick|thorough] [--replay FILE] [--update-baseline] [-v]

Exit codes: 0 property held on everything decided; 1 violation (VIOLATION line printed); 2 undecided; 3 checker error.
"""
import argparse
import fnmatch
import importlib
import json
import multiprocessing as mp
import os
import pkgutil
import subprocess
import sys
import time
import traceback

ROOT = os.path.dirname(os.path.dirname(os.path.abspath(__file__)))
sys.path.insert(0, ROOT)

from pyvc import load, env as envm, verify  # noqa: E402
from pyvc import contracts as pc            # noqa: E402

VENV_PY = "/venv/bin/python"


def load_contracts():
    import contracts as cpkg
    for m in sorted(pkgutil.iter_modules(cpkg.__path__), key=lambda m: m.name):
        importlib.import_module("contracts." + m.name)


def _task(args):
    qual, case_idx, timeout_s, repo_root = args
    try:
        repo = load.repo()
        con = pc.REGISTRY[qual]
        if case_idx is not None:
            orig = con.cases
            con.cases = lambda env, orig=orig: orig(env)[case_idx:case_idx + 1]
        e = envm.VerifyEnv(repo)
        fr = verify.verify_function(e, con, timeout_s=timeout_s)
        return (qual, case_idx, fr, None)
    except Exception:
        return (qual, case_idx, None, traceback.format_exc())


def start_harness(name, tier, seed, repo_root):
    """bounded stand-in: starts harness/<name>.py against the real code (under the repository's interpreter; the stub
    differential test needs z3 and runs under this interpreter); runs concurrently with the deductive tasks"""
    path = os.path.join(ROOT, "harness", name + ".py")
    env = dict(os.environ)
    env["PYTHONPATH"] = repo_root + os.pathsep + ROOT
    env["VERIF_TIER"] = tier
    env["VERIF_SEED"] = str(seed)
    py = sys.executable if name == "stubtest" else VENV_PY
    return (name, time.time(), subprocess.Popen([py, path], stdout=subprocess.PIPE, stderr=subprocess.PIPE, text=True, env=env, cwd=ROOT))


def finish_harness(h, tier):
    name, t0, p = h
    try:
        stdout, stderr = p.communicate(timeout=3600 if tier == "thorough" else 1500)
    except subprocess.TimeoutExpired:
        p.kill()
        stdout, stderr = p.communicate()
    try:
        out = json.loads(stdout.strip().splitlines()[-1])
    except Exception:
        out = {"error": "harness %s produced no JSON (rc=%s): %s" % (name, p.returncode, (stderr or stdout)[-600:])}
    out["wall_s"] = round(time.time() - t0, 2)
    out["name"] = name
    return out


def run_harness(name, tier, seed, repo_root):
    return finish_harness(start_harness(name, tier, seed, repo_root), tier)


def main(argv=None):
    ap = argparse.ArgumentParser()
    ap.add_argument("prop")
    ap.add_argument("--tier", default=os.environ.get("VERIF_TIER", "quick"))
    ap.add_argument("--replay")
    ap.add_argument("--update-baseline", action="store_true")
    ap.add_argument("-v", action="store_true")
    ap.add_argument("-j", type=int, default=min(16, os.cpu_count() or 4))
    a = ap.parse_args(argv)
    seed = int(os.environ.get("VERIF_SEED", "0") or 0)
    tier = a.tier if a.tier in ("quick", "thorough") else "quick"
    prop = a.prop
    t_start = time.time()
    from pyvc import report
    if a.replay:
        return report.do_replay(prop, a.replay)
    try:
        load_contracts()
        from contracts import PLAN
    except Exception:
        traceback.print_exc()
        print("CHECKER-ERROR could not load contracts")
        return 3
    plan = PLAN.get(prop)
    if plan is None:
        print("CHECKER-ERROR no plan for property %s" % prop)
        return 3
    repo_root = load.REPO
    timeout_s = 10 if tier == "quick" else 40
    if a.update_baseline:
        # an obligation enters the baseline only if it discharges with HALF the solver budget: ordinary runs then have a
        # factor-two margin, so verdicts do not flip on a loaded machine or with differently numbered fresh symbols
        timeout_s = timeout_s / 2
    tasks = []
    for qual, con in sorted(pc.REGISTRY.items()):
        if con.trusted or prop not in con.props:
            continue
        if tier == "quick" and getattr(con, "thorough_only", False):
            continue
        ncases = getattr(con, "parallel_cases", 0)
        if getattr(con, "run_cases", None) is not None and not os.environ.get("PYVC_ALL_CASES"):
            for k in con.run_cases:
                tasks.append((qual, k, timeout_s, repo_root))
        elif ncases:
            for k in range(ncases):
                tasks.append((qual, k, timeout_s, repo_root))
        else:
            tasks.append((qual, None, timeout_s, repo_root))
    results = []
    errors = []
    started = []
    for h in plan.get("harness", []):
        try:
            started.append(start_harness(h, tier, seed, repo_root))
        except Exception as e:
            started.append((h, e))
    if tasks:
        # heavy tasks first
        tasks.sort(key=lambda t: -getattr(pc.REGISTRY[t[0]], "weight", 1))
        with mp.get_context("fork").Pool(min(a.j, len(tasks)), maxtasksperchild=1) as pool:   # one fresh process per task: no state leaks between contracts
            for (qual, k, fr, err) in pool.imap_unordered(_task, tasks):
                if err:
                    errors.append((qual, k, err))
                else:
                    results.append((qual, k, fr))
    harness_out = []
    for h in started:
        if len(h) == 2:
            harness_out.append({"name": h[0], "error": "%s: %s" % (type(h[1]).__name__, h[1])})
            continue
        try:
            harness_out.append(finish_harness(h, tier))
        except Exception as e:
            harness_out.append({"name": h[0], "error": "%s: %s" % (type(e).__name__, e)})
    return report.finish(prop, tier, seed, plan, results, errors, harness_out, time.time() - t_start,
                         update_baseline=a.update_baseline, verbose=a.v)


if __name__ == "__main__":
    sys.exit(main())
