"""Loops: cut at the loop head, havoc what the body modifies, Houdini over candidate invariant conjuncts.

Candidates come from the sidecar contract (keyed by loop ordinal + anchor) plus automatic 'unchanged' candidates.
A dropped candidate is recorded in the loop report and is never a verdict by itself.
"""
import ast
import os

import z3

from .smt import And, Or, Not, Implies, iv, fresh_int, fresh_name, entails, check_sat, TRUE
from .values import (V, SInt, SBool, SNone, NONE, SStr, STuple, Ref, SymRef, SExc, Opaque, HObj, HList, HBio, HDict, SMaybe,
                     SymSeqA, Unsupported, SOpt, _same_const, mk_win)
from .shapes import (shape_of, join_shape, ConstShape, ListShape, WinShape, OptionShape, IntShape, BoolShape)


class LoopVars:
    """what the loop body may modify: local names and (oid, field) heap locations, whole list/bio objects"""

    def __init__(self):
        self.names = set()
        self.fields = set()     # (oid, field)
        self.objs = set()       # oid of HList / HBio / HDict mutated in place
        self.cheap = set()      # (cls, field)
        self.ghost = set()


class L:
    """proxy for invariant candidates: L.name -> local value; L.st -> state"""

    def __init__(self, ex, st, extra=None):
        object.__setattr__(self, "_ex", ex)
        object.__setattr__(self, "_st", st)
        object.__setattr__(self, "_extra", extra or {})

    def __getattr__(self, n):
        if n in self._extra:
            return self._extra[n]
        if n == "st":
            return self._st
        if n == "ex":
            return self._ex
        if n in self._st.locals:
            return self._st.locals[n]
        raise KeyError("invariant refers to unknown local %r" % n)

    def has(self, n):
        return n in self._st.locals


def diff_states(ex, a, b, lv):
    """record in lv everything that differs between state a (before) and b (after one body execution)"""
    for n, v in b.locals.items():
        if n.startswith("__"):
            continue
        if n not in a.locals or not _same_val(a.locals[n], v):
            lv.names.add(n)
    for oid, ob in b.heap.items():
        oa = a.heap.get(oid)
        if oa is None:
            continue
        if isinstance(ob, HObj):
            lazy = ob.cls in ex.env.class_models
            for f, v in ob.fields.items():
                if f not in oa.fields:
                    if lazy:
                        continue     # lazily materialised read-only field of a modelled object (e.g. Config): not a write
                    lv.fields.add((oid, f))
                elif not _same_val(oa.fields[f], v):
                    lv.fields.add((oid, f))
        elif isinstance(ob, HList):
            if ob.items is not None and oa.items is not None:
                if len(ob.items) != len(oa.items) or any(not _same_val(x, y) for x, y in zip(oa.items, ob.items)):
                    lv.objs.add(oid)
            elif ob.sym is not oa.sym or (ob.items is None) != (oa.items is None):
                lv.objs.add(oid)
        elif isinstance(ob, HBio):
            if not _same_val(oa.content, ob.content) or (oa.pos is None) != (ob.pos is None):
                lv.objs.add(oid)
        elif isinstance(ob, HDict):
            if set(ob.items) != set(oa.items) or any(not _same_val(oa.items[k], ob.items[k]) for k in ob.items) \
                    or (ob.dyn is None) != (oa.dyn is None) or (ob.dyn is not None and not ob.dyn["count"].eq(oa.dyn["count"])):
                lv.objs.add(oid)
    for k, arr in b.cheap.items():
        if k not in a.cheap or not a.cheap[k].eq(arr):
            lv.cheap.add(k)
    for k, v in b.ghost.items():
        if k in a.ghost and a.ghost[k] is v:
            continue
        if not isinstance(v, V) and not hasattr(v, "eq"):
            raise Unsupported("structured ghost value %s modified inside a loop" % k)
        if k not in a.ghost or not (_same_val(a.ghost[k], v) if isinstance(v, V) else a.ghost[k].eq(v)):
            lv.ghost.add(k)


def _same_val(a, b):
    if a is b:
        return True
    if isinstance(a, SInt) and isinstance(b, SInt):
        return a.t.eq(b.t)
    if isinstance(a, SBool) and isinstance(b, SBool):
        return a.t.eq(b.t)
    if isinstance(a, SStr) and isinstance(b, SStr):
        if a.is_str != b.is_str or len(a.atoms) != len(b.atoms):
            return False
        for x, y in zip(a.atoms, b.atoms):
            if type(x) is not type(y):
                return False
            if hasattr(x, "b"):
                if x.b != y.b:
                    return False
            elif hasattr(x, "base"):
                if not (x.base.eq(y.base) and x.lo.eq(y.lo) and x.hi.eq(y.hi) and x.xf == y.xf):
                    return False
            else:
                if not (x.kind == y.kind and x.t.eq(y.t)):
                    return False
        return True
    if isinstance(a, STuple) and isinstance(b, STuple):
        return len(a.items) == len(b.items) and all(_same_val(x, y) for x, y in zip(a.items, b.items))
    if isinstance(a, SOpt) and isinstance(b, SOpt):
        return a.some.eq(b.some) and _same_val(a.inner, b.inner)
    if isinstance(a, SymRef) and isinstance(b, SymRef):
        return a.cls == b.cls and a.t.eq(b.t)
    if isinstance(a, SExc) and isinstance(b, SExc):
        return a is b
    if hasattr(a, "t") and hasattr(b, "t") and type(a) is type(b):
        return a.t.eq(b.t)
    return _same_const(a, b)


HAVOC_SHAPES = {}
HBUDGET = int(os.environ.get("PYVC_HOUDINI_BUDGET", "8000"))


def havoc_value(ex, st, name, cur, declared, peek=None):
    """fresh value generalising `cur` (and `peek`, the value after one iteration)"""
    if declared is not None:
        if isinstance(declared, ListShape):
            raise Unsupported("list shape for a non-list location %s" % name)
        HAVOC_SHAPES[name] = declared
        return declared.fresh(st, name)
    sh = shape_of(cur)
    if peek is not None:
        sh = join_shape(sh, shape_of(peek))
    HAVOC_SHAPES[name] = sh
    if isinstance(sh, ConstShape):
        return sh.v
    return sh.fresh(st, name)


def havoc_obj(ex, st, oid, name, declared, peek_obj):
    o = st.heap[oid]
    if isinstance(o, HBio):
        cur = o.content
        pk = peek_obj.content if peek_obj is not None else None
        sh = declared
        if sh is None:
            cands = [x for x in (cur, pk) if x is not None and x.atoms]
            if not cands:
                return
            sh = shape_of(cands[0])
            for c in cands[1:]:
                sh = join_shape(sh, shape_of(c))
        if isinstance(sh, ConstShape):
            raise Unsupported("BytesIO with literal content modified in a loop")
        o.content = sh.fresh(st, name + ".content")
        if o.pos is not None or (peek_obj is not None and peek_obj.pos is not None):
            raise Unsupported("BytesIO with an explicit stream position modified in a loop")
        return
    if isinstance(o, HList):
        sh = declared
        if sh is None:
            elems = []
            if o.items is not None:
                elems += o.items
            if peek_obj is not None and peek_obj.items is not None:
                elems += peek_obj.items
            if o.sym is not None:
                sh = ListShape(o.sym.eshape)
            elif peek_obj is not None and peek_obj.sym is not None:
                sh = ListShape(peek_obj.sym.eshape)
            elif elems:
                es = shape_of(elems[0])
                for e in elems[1:]:
                    es = join_shape(es, shape_of(e))
                sh = ListShape(es)
            else:
                return
        if not isinstance(sh, ListShape):
            raise Unsupported("declared shape of list %s is not a list shape" % name)
        o.items = None
        o.sym = sh.fresh_seq(st, name)
        return
    if isinstance(o, HDict):
        return havoc_dict(ex, st, oid, name, [peek_obj] if peek_obj is not None else [])
    raise Unsupported("havoc of heap object %r" % (o,))


def havoc_dict(ex, st, oid, name, peeks):
    """keys whose value changes in some iteration get a fresh value of the joined shape; keys that appear in the body
    become SMaybe (possibly absent); the dynamic region's store count becomes a fresh non-negative integer"""
    o = st.heap[oid]
    keys = list(o.items)
    for pk in peeks:
        keys += [k for k in pk.items if k not in keys]
    for k in keys:
        cur = o.items.get(k)
        afters = [pk.items[k] for pk in peeks if k in pk.items]
        changed = [a for a in afters if cur is None or not _same_val(cur, a)]
        missing_somewhere = cur is None or any(k not in pk.items for pk in peeks)
        if cur is not None and not changed and not isinstance(cur, SMaybe):
            continue
        vals = [x.inner if isinstance(x, SMaybe) else x for x in ([cur] if cur is not None else []) + changed]
        sh = shape_of(vals[0])
        for x in vals[1:]:
            sh = join_shape(sh, shape_of(x))
        fresh = sh.v if isinstance(sh, ConstShape) else sh.fresh(st, "%s[%r]" % (name, k))
        if cur is None or isinstance(cur, SMaybe) or any(isinstance(a, SMaybe) for a in afters):
            o.items[k] = SMaybe(z3.Bool(fresh_name("%s.has.%s" % (name, k))), fresh)
        else:
            o.items[k] = fresh
    dyns = [d for d in [o.dyn] + [pk.dyn for pk in peeks] if d is not None]
    if dyns:
        c = z3.Int(fresh_name(name + ".dyn.count"))
        st.assume(c >= 0)
        o.dyn = {"prefix": dyns[0]["prefix"], "count": c, "last": None}


def loc_name(ex, st, oid):
    for n, v in st.locals.items():
        if isinstance(v, Ref) and v.oid == oid:
            return n
    return "obj%d" % oid


def run_loop(ex, s, st, kind, itv):
    ordinal = ex.static_loop_ordinal(s)
    anchor = ("while " + ast.unparse(s.test)) if kind == "while" else ("for %s in %s" % (ast.unparse(s.target), ast.unparse(s.iter)))
    side = None
    if ex.contract is not None and ex.depth == 0:
        side = ex.contract.loop_spec(ordinal, anchor)
    declared = dict(side.get("types", {})) if side else {}
    cands = list(side.get("cands", [])) if side else []
    variant = side.get("variant") if side else None

    # iterator model for `for`
    it = None
    if kind == "for":
        it = ex.env.iter_model(ex, st, itv)
    entry = st

    # ---- discover what the body modifies and the shapes: run the body once from the entry state (peek) ----------
    lv = LoopVars()
    peeks = []
    probe = entry.fork()
    n_oblig = len(ex.obligs)
    saved_ord = ex.loop_ordinal
    saved_hooks = (ex.yield_hook, ex.point_hook)
    # hooks keep running during the probe (their ghost updates matter); obligations emitted there are discarded below
    try:
        idx0 = iv(0)
        for (b_st, b_out) in _one_iteration(ex, s, probe, kind, it, idx0, probe_mode=True):
            if b_out is None or b_out == ("continue",):
                peeks.append(b_st)
            diff_states(ex, entry, b_st, lv)
    finally:
        del ex.obligs[n_oblig:]
        ex.loop_ordinal = saved_ord
        ex.yield_hook, ex.point_hook = saved_hooks
    # names assigned syntactically in the body that exist at entry are also considered modified
    for n in ex.assigned_names(s.body) | (ex.assigned_names([s]) if kind == "for" else set()):
        if n in entry.locals:
            lv.names.add(n)

    # ---- havoc -----------------------------------------------------------------------------------------------------
    shapes = {}

    def make_head(round_peeks):
        h = entry.fork()
        for n in sorted(lv.names):
            if n not in entry.locals:
                continue
            pk = None
            for p in round_peeks:
                if n in p.locals and not _same_val(p.locals[n], entry.locals[n]):
                    pk = p.locals[n]
                    break
            cur = entry.locals[n]
            if isinstance(cur, Ref) and isinstance(declared.get(n), ListShape):
                # rebinding a name to a new list each iteration: allocate a fresh symbolic list
                h.locals[n] = h.alloc(HList(sym=declared[n].fresh_seq(h, n)))
                continue
            if isinstance(cur, Ref):
                if pk is not None and isinstance(pk, Ref) and pk.oid != cur.oid:
                    po = None
                    for p in round_peeks:
                        if n in p.locals and isinstance(p.locals[n], Ref):
                            po = p.heap.get(p.locals[n].oid)
                    co = entry.heap.get(cur.oid)
                    if isinstance(co, (HBio, HList)) and isinstance(po, type(co)):
                        # name rebound to a different object of the same kind: model as a fresh object
                        newo = co.clone()
                        ref = h.alloc(newo)
                        h.locals[n] = ref
                        havoc_obj(ex, h, ref.oid, n, declared.get(n), po)
                        continue
                    raise Unsupported("loop rebinds %s to a different object" % n)
                continue
            h.locals[n] = havoc_value(ex, h, n, cur, declared.get(n), pk)
            shapes[("name", n)] = HAVOC_SHAPES.get(n)
        for (oid, f) in sorted(lv.fields, key=lambda x: (x[0], x[1])):
            o = h.heap[oid]
            cur = entry.heap[oid].fields.get(f)
            pk = None
            for p in round_peeks:
                pv = p.heap[oid].fields.get(f)
                if pv is not None and (cur is None or not _same_val(pv, cur)):
                    pk = pv
                    break
            nm = "%s.%s" % (loc_name(ex, entry, oid), f)
            if cur is None:
                if pk is None:
                    continue
                cur = pk
            if isinstance(cur, Ref):
                if pk is not None and isinstance(pk, Ref) and pk.oid != cur.oid:
                    co = entry.heap.get(cur.oid)
                    po = None
                    for p in round_peeks:
                        pv = p.heap[oid].fields.get(f)
                        if isinstance(pv, Ref):
                            po = p.heap.get(pv.oid)
                    if isinstance(co, (HBio, HList)) and isinstance(po, type(co)):
                        ref = h.alloc(co.clone())
                        o.fields[f] = ref
                        havoc_obj(ex, h, ref.oid, nm, declared.get(nm), po)
                        continue
                    raise Unsupported("loop rebinds field %s to a different object" % nm)
                continue
            o.fields[f] = havoc_value(ex, h, nm, cur, declared.get(nm), pk)
            shapes[("field", oid, f)] = HAVOC_SHAPES.get(nm)
        for oid in sorted(lv.objs):
            po = None
            for p in round_peeks:
                if oid in p.heap:
                    po = p.heap[oid]
                    break
            nm = loc_name(ex, entry, oid)
            if isinstance(h.heap[oid], HDict):
                havoc_dict(ex, h, oid, nm, [p.heap[oid] for p in round_peeks if oid in p.heap])
                continue
            havoc_obj(ex, h, oid, nm, declared.get(nm), po)
        for k in sorted(lv.cheap):
            arr = entry.cheap.get(k)
            if arr is None:
                for p in round_peeks:
                    if k in p.cheap:
                        arr = p.cheap[k]
            h.cheap[k] = z3.Const(fresh_name("heap.%s.%s" % k), arr.sort())
        for k in sorted(lv.ghost):
            cur = entry.ghost.get(k)
            if isinstance(cur, V):
                h.ghost[k] = havoc_value(ex, h, "ghost." + k, cur, declared.get("ghost." + k))
            elif cur is not None:
                h.ghost[k] = z3.Const(fresh_name("ghost." + k), cur.sort())
        return h

    # loop index ghost for `for` loops over sequences
    idx = fresh_int("i%d" % ordinal) if kind == "for" else None

    def extra_of(state, index):
        e = {"entry": entry, "loop_index": index, "fentry": ex.fentry, "g": ex.case_ghost, "iter": itv}
        return e

    # automatic candidates: each havoc'd scalar local / field unchanged w.r.t. entry
    auto = []
    for n in sorted(lv.names):
        if n in entry.locals and not isinstance(entry.locals[n], Ref):
            auto.append(("auto:%s unchanged" % n, _unchanged_local(n)))
    for (oid, f) in sorted(lv.fields, key=lambda x: (x[0], x[1])):
        if f in entry.heap[oid].fields and not isinstance(entry.heap[oid].fields[f], Ref):
            auto.append(("auto:%s.%s unchanged" % (loc_name(ex, entry, oid), f), _unchanged_field(oid, f)))
    named = []
    for k, c in enumerate(cands):
        if isinstance(c, tuple):
            named.append(c)
        else:
            named.append(("cand%d" % k, c))
    all_cands = named + auto

    def eval_cand(fn, state, index):
        try:
            r = fn(L(ex, state, extra_of(state, index)))
        except KeyError as e:
            return None
        except (Unsupported, AttributeError, TypeError, IndexError) as e:
            return None
        if isinstance(r, bool):
            return z3.BoolVal(r)
        if isinstance(r, (list, tuple)):
            return And(*r)
        return r

    # establish
    active = []
    dropped = []
    for (nm, fn) in all_cands:
        g = eval_cand(fn, entry, iv(0))
        if g is None:
            dropped.append((nm, "not evaluable at entry"))
            continue
        if entails(entry.pc, g, 3000):
            active.append((nm, fn))
        else:
            dropped.append((nm, "not established at entry"))

    # Houdini iteration
    rounds = 0
    while True:
        rounds += 1
        if rounds > 12:
            raise Unsupported("Houdini did not converge")
        n_oblig = len(ex.obligs)
        ord_save = ex.loop_ordinal
        head = make_head(peeks)
        if kind == "for" and it.length is not None:
            head.assume(0 <= idx, idx <= it.length)
        elif kind == "for":
            head.assume(0 <= idx)
        assumed_ok = True
        head_goals = {}
        for (nm, fn) in active:
            g = eval_cand(fn, head, idx)
            head_goals[nm] = g
            if g is None:
                assumed_ok = False
                dropped.append((nm, "not evaluable at head"))
                active = [(a, b) for (a, b) in active if a != nm]
                break
            head.assume(g)
            if os.environ.get("PYVC_DEBUG2"):
                print("   after assuming", nm, check_sat(head.pc, 5000)[0])
        if not assumed_ok:
            continue
        if active and check_sat(head.pc, 1500)[0] == "unsat":
            # a semantic invariant that holds at entry cannot contradict the havoc'd head: some candidate is not a
            # formula of the state (vacuity guard) -> refuse to continue
            raise Unsupported("inconsistent loop head after assuming candidates %s (non-semantic candidate?)" % [a for a, _ in active])
        head_snapshot = head.fork()
        body_outs = list(_one_iteration(ex, s, head, kind, it, idx, probe_mode=False))
        failed = set()
        shape_problem = None
        # completeness of the modified-set: diff every end state against the head; new locations -> redo
        lv2 = LoopVars()
        for (b_st, b_out) in body_outs:
            diff_states(ex, head_snapshot, b_st, lv2)
        grew = False
        for n in lv2.names:
            if n in entry.locals and n not in lv.names:
                lv.names.add(n); grew = True
        for k in lv2.fields:
            if k[0] in entry.heap and k not in lv.fields:
                lv.fields.add(k); grew = True
        for k in lv2.objs:
            if k in entry.heap and k not in lv.objs:
                lv.objs.add(k); grew = True
        for k in lv2.cheap - lv.cheap:
            lv.cheap.add(k); grew = True
        for k in lv2.ghost - lv.ghost:
            lv.ghost.add(k); grew = True
        if grew:
            peeks = peeks + [b for (b, o) in body_outs if o is None or o == ("continue",)]
            del ex.obligs[n_oblig:]
            ex.loop_ordinal = ord_save
            continue
        for (b_st, b_out) in body_outs:
            if b_out is None or b_out == ("continue",):
                # shape stability: every havoc'd location must still fit its havoc shape
                try:
                    _check_shapes(ex, head_snapshot, b_st, lv, shapes)
                except Unsupported as e:
                    shape_problem = e
                    break
                nidx = (idx + 1) if kind == "for" else None
                goals = []
                for (nm, fn) in active:
                    if nm in failed:
                        continue
                    g = eval_cand(fn, b_st, nidx)
                    if g is None:
                        failed.add(nm)
                        continue
                    hg = head_goals.get(nm)
                    if hg is not None and kind != "for" and hg.eq(g):
                        continue        # same formula as assumed at the head: trivially preserved
                    goals.append((nm, g))
                if goals and not entails(b_st.pc, And(*[g for _, g in goals]), HBUDGET):
                    for (nm, g) in goals:
                        if not entails(b_st.pc, g, HBUDGET):
                            failed.add(nm)
                            if os.environ.get("PYVC_DEBUG_CAND") == nm:
                                r, sv = check_sat(list(b_st.pc) + [Not(g)], 20000)
                                print("   [cand %s] not preserved: %s" % (nm, r))
                                from .smt import to_smt2
                                open("/tmp/cand_%s_%d.smt2" % (nm, len(b_st.pc)), "w").write(to_smt2(list(b_st.pc) + [Not(g)]))
                                if r == "sat":
                                    m = sv.model()
                                    print("    ", {d.name(): m[d] for d in m.decls() if d.arity() == 0 and not z3.is_array(m[d]) and "?" not in d.name()})
                                print("    goal:", str(g)[:800])
        if shape_problem is not None and os.environ.get("PYVC_DEBUG"):
            print("  [loop %d %s] shape problem: %s; active=%s dropped=%s" % (ordinal, anchor, shape_problem, [a for a, _ in active], dropped))
        if shape_problem is not None:
            # retry once with the end-of-body states as additional peeks (shape join), else give up
            if rounds <= 3:
                peeks = peeks + [b for (b, o) in body_outs if o is None or o == ("continue",)]
                del ex.obligs[n_oblig:]
                ex.loop_ordinal = ord_save
                continue
            raise shape_problem
        if failed:
            for nm in failed:
                dropped.append((nm, "not preserved"))
            active = [(a, b) for (a, b) in active if a not in failed]
            del ex.obligs[n_oblig:]
            ex.loop_ordinal = ord_save
            continue
        break

    if os.environ.get("PYVC_DEBUG"):
        print("  [loop %d %s] kept=%s dropped=%s" % (ordinal, anchor, [a for a, _ in active if not a.startswith("auto:")], [(a, w) for a, w in dropped if not a.startswith("auto:")]))
    ex.loop_report.append({"loop": ordinal, "anchor": anchor, "kept": [a for a, _ in active],
                           "dropped": [(a, why) for (a, why) in dropped if not a.startswith("auto:")],
                           "case": ex.cur_case})
    # variant (termination), only when the sidecar gives one
    if variant is not None:
        v0 = variant(L(ex, head_snapshot, extra_of(head_snapshot, idx)))
        for (b_st, b_out) in body_outs:
            if b_out is None or b_out == ("continue",):
                v1 = variant(L(ex, b_st, extra_of(b_st, idx)))
                ex.oblige("loop%d.variant" % ordinal, "variant", b_st, And(v1 < v0, v0 >= 0))

    # exits
    outs = []
    for (b_st, b_out) in body_outs:
        if b_out is None or b_out == ("continue",):
            continue
        if b_out == ("exit",):
            outs += ex.run_block(s.orelse, b_st) if s.orelse else [(b_st, None)]
        elif b_out == ("break",):
            outs.append((b_st, None))
        else:
            outs.append((b_st, b_out))
    return outs


def _unchanged_local(n):
    def f(Lp):
        cur = Lp._st.locals.get(n)
        old = Lp.entry.locals.get(n)
        if cur is None or old is None:
            raise KeyError(n)
        return Lp.ex.equal(cur, old, Lp._st) if not isinstance(cur, SStr) else _str_same(Lp, cur, old)
    return f


def _str_same(Lp, cur, old):
    if not isinstance(old, SStr):
        raise KeyError("type")
    wc, wo = cur.single_win(), old.single_win()
    if wc is not None and wo is not None and wc.base.eq(wo.base) and wc.xf == wo.xf:
        return And(wc.lo == wo.lo, wc.hi == wo.hi)
    if _same_val(cur, old):
        return TRUE
    raise KeyError("rope")


def _unchanged_field(oid, fld):
    def f(Lp):
        cur = Lp._st.heap[oid].fields.get(fld)
        old = Lp.entry.heap[oid].fields.get(fld)
        if cur is None or old is None:
            raise KeyError(fld)
        if isinstance(cur, SStr):
            return _str_same(Lp, cur, old)
        return Lp.ex.equal(cur, old, Lp._st)
    return f


def _check_shapes(ex, head, end, lv, shapes):
    for n in lv.names:
        if n in head.locals and n in end.locals:
            hv, ev = head.locals[n], end.locals[n]
            if isinstance(hv, Ref) or isinstance(ev, Ref):
                if isinstance(hv, Ref) and isinstance(ev, Ref):
                    if hv.oid != ev.oid:
                        ho, eo = head.heap.get(hv.oid), end.heap.get(ev.oid)
                        if type(ho) is not type(eo) or isinstance(ho, HObj):
                            raise Unsupported("loop variable %s rebound to another object" % n)
                        _fits_obj(ho, eo, n)
                    continue
                raise Unsupported("loop variable %s changes between object and value" % n)
            _fits(hv, ev, n, shapes.get(("name", n)))
    for (oid, f) in lv.fields:
        hv, ev = head.heap[oid].fields.get(f), end.heap[oid].fields.get(f)
        if hv is None or ev is None:
            if hv is None and ev is None:
                continue
            raise Unsupported("field %s appears/disappears in loop" % f)
        if isinstance(hv, Ref) and isinstance(ev, Ref):
            if hv.oid != ev.oid:
                ho, eo = head.heap.get(hv.oid), end.heap.get(ev.oid)
                if type(ho) is not type(eo) or isinstance(ho, HObj):
                    raise Unsupported("field %s rebound to another object" % f)
                _fits_obj(ho, eo, f)
            continue
        _fits(hv, ev, f, shapes.get(("field", oid, f)))
    for oid in lv.objs:
        _fits_obj(head.heap[oid], end.heap[oid], "obj%d" % oid)


def _fits(hv, ev, name, sh=None):
    if sh is None:
        sh = shape_of(hv)
    if isinstance(sh, ConstShape):
        if not _same_val(hv, ev):
            raise Unsupported("loop modifies %s whose havoc shape is a constant" % name)
        return
    if not sh.accepts(ev):
        raise Unsupported("value of %s after the body (%r) does not fit its havoc shape %r" % (name, ev, sh))


def _fits_obj(ho, eo, name):
    if isinstance(ho, HBio):
        if eo.content.atoms and ho.content.atoms:
            _fits(ho.content, eo.content, name + ".content")
        elif eo.content.atoms and not ho.content.atoms:
            raise Unsupported("BytesIO %s: content shape unknown at loop head" % name)
    elif isinstance(ho, HList):
        if ho.sym is not None:
            if eo.sym is not None:
                if not (eo.sym.eshape == ho.sym.eshape):
                    raise Unsupported("list %s element shape changes" % name)
            else:
                for x in eo.items:
                    if not ho.sym.eshape.accepts(x):
                        raise Unsupported("list %s element does not fit shape" % name)
        else:
            if eo.sym is not None or len(eo.items) != len(ho.items):
                raise Unsupported("list %s changes length but was not havoc'd symbolically" % name)
    elif isinstance(ho, HDict):
        for k, ev in eo.items.items():
            if k not in ho.items:
                raise Unsupported("dict %s gains key %r that was not anticipated at the loop head" % (name, k))
            hv = ho.items[k]
            if isinstance(ev, SMaybe) and not isinstance(hv, SMaybe):
                raise Unsupported("dict %s key %r may disappear" % (name, k))
            hin = hv.inner if isinstance(hv, SMaybe) else hv
            ein = ev.inner if isinstance(ev, SMaybe) else ev
            if _same_val(hin, ein):
                continue
            if isinstance(shape_of(hin), ConstShape):
                raise Unsupported("dict %s[%r] modified but havoc'd as a constant" % (name, k))
            if not shape_of(hin).accepts(ein):
                raise Unsupported("dict %s[%r]: value after the body does not fit its havoc shape" % (name, k))
        if (eo.dyn is not None) and ho.dyn is None:
            raise Unsupported("dict %s gains a dynamic region inside the loop" % name)


def _one_iteration(ex, s, head, kind, it, idx, probe_mode):
    """from the loop head state: evaluate the condition / fetch the next element, run the body once.
    yields (state, outcome) where outcome in None | ('continue',) | ('break',) | ('exit',) | return/raise"""
    if kind == "while":
        for r in ex.ev(s.test, head):
            if r.exc is not None:
                yield (r.st, ("raise", r.exc))
                continue
            c = ex.truth(r.v, r.st)
            a, b = ex.split(r.st, c)
            if b is not None:
                yield (b, ("exit",))
            if a is not None:
                for (s1, o) in ex.run_block(s.body, a):
                    yield (s1, o)
        return
    # for
    for (s0, status, elem) in it.step(ex, head, idx):
        if status == "stop":
            yield (s0, ("exit",))
        elif status == "raise":
            yield (s0, ("raise", elem))
        else:
            for (s1, o1) in ex.assign(s.target, elem, s0):
                if o1 is not None:
                    yield (s1, o1)
                    continue
                for (s2, o2) in ex.run_block(s.body, s1):
                    yield (s2, o2)
