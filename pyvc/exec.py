"""Forward symbolic executor over the real Python AST (per path; loops cut at Houdini invariants; calls -> contracts)."""
import ast
import builtins

import z3

from . import strops
from .smt import (And, Or, Not, Implies, If, Min, Max, iv, fresh_int, fresh_bool, fresh_real, fresh_name, const_int,
                  const_bool, TRUE, FALSE, check_sat, quick_sat, entails, I, B, R)
from .values import (V, SInt, SBool, SReal, SNone, NONE, SStr, STuple, Ref, SymRef, SExc, ClassV, FuncV, StubV, ModV,
                     RegexV, MatchV, Opaque, PyConst, SOpt, Lit, Win, Num, mk_win, concat, str_eq, HObj, HList, HBio,
                     HDict, SMaybe, SymSeqA, Unsupported, _same_const)
from .shapes import (Shape, IntShape, BoolShape, RealShape, ConstShape, WinShape, TupleShape, SymRefShape,
                     OptionShape, ListShape, shape_of, join_shape)
from .state import State


class Res:
    __slots__ = ("st", "v", "exc")

    def __init__(self, st, v=None, exc=None):
        self.st, self.v, self.exc = st, v, exc


class Oblig:
    def __init__(self, name, kind, pc, goal, func, info=None):
        self.name = name
        self.kind = kind
        self.pc = list(pc)
        self.goal = goal
        self.func = func
        self.info = info or {}


class SSuper(V):
    def __init__(self, self_v, pycls):
        self.self_v = self_v
        self.pycls = pycls


class SPartial(V):
    def __init__(self, func, args):
        self.func = func
        self.args = args


class SLambda(V):
    def __init__(self, node, closure):
        self.node = node
        self.closure = closure


class SGen(V):
    """a generator expression / comprehension source that was not materialised"""

    def __init__(self, node, closure):
        self.node = node
        self.closure = closure


MAX_PATHS = 4000


class Executor:
    def __init__(self, env, finfo, contract=None):
        self.env = env                  # VerifyEnv: repo, contracts, stubs
        self.finfo = finfo
        self.contract = contract        # contract of the function being verified (loop candidates etc.)
        self.obligs = []
        self.loop_report = []
        self.npaths = 0
        self.depth = 0
        self.module_stack = [finfo.module]
        self.qual_stack = [finfo.qual]
        self.loop_ordinal = 0
        self.fentry = None
        self.case_ghost = {}
        self._loop_ids = {}
        k = 0
        for n in ast.walk(ast.Module(body=list(finfo.body), type_ignores=[])):
            pass
        for n in self._loops_in_order(finfo.body):
            self._loop_ids[id(n)] = k
            k += 1
        self.cur_case = ""
        self.yield_hook = None
        self.point_hook = None          # every-point invariant (C17)
        self.inlined = set()

    def _loops_in_order(self, stmts):
        out = []

        def visit(n):
            if isinstance(n, (ast.While, ast.For)):
                out.append(n)
            for ch in ast.iter_child_nodes(n):
                if isinstance(ch, (ast.FunctionDef, ast.Lambda, ast.ClassDef)):
                    continue
                visit(ch)
        for s in stmts:
            visit(s)
        return out

    def static_loop_ordinal(self, node):
        if self.depth > 0:
            return -1
        return self._loop_ids.get(id(node), -1)

    # ---- small helpers ----------------------------------------------------------------------------
    def res(self, st, v):
        return Res(st, v, None)

    def res_exc(self, st, exc):
        return Res(st, None, exc)

    def feasible(self, st):
        return quick_sat(st.pc) != "unsat"

    def split(self, st, cond):
        """fork on a z3 Bool: returns (st_true|None, st_false|None); st itself is reused for one of them"""
        cb = const_bool(cond)
        if cb is True:
            return st, None
        if cb is False:
            return None, st
        r1 = quick_sat(st.pc + [cond])
        r2 = quick_sat(st.pc + [Not(cond)])
        t_ok, f_ok = r1 != "unsat", r2 != "unsat"
        if t_ok and f_ok:
            a = st.fork()
            a.assume(cond)
            st.assume(Not(cond))
            return a, st
        if t_ok:
            st.assume(cond)
            return st, None
        if f_ok:
            st.assume(Not(cond))
            return None, st
        return None, None

    def oblige(self, name, kind, st, goal, info=None):
        self.obligs.append(Oblig("%s%s" % (self.cur_case and self.cur_case + "/" or "", name), kind, st.pc, goal,
                                 self.finfo.qual, info))

    def module(self):
        return self.module_stack[-1]

    def cur_qual(self):
        return self.qual_stack[-1]

    # ---- truthiness -------------------------------------------------------------------------------
    def truth(self, v, st):
        if isinstance(v, SBool):
            return v.t
        if isinstance(v, SInt):
            return v.t != 0
        if isinstance(v, SReal):
            return v.t != 0
        if isinstance(v, SNone):
            return FALSE
        if isinstance(v, SStr):
            c = v.concrete()
            if c is not None:
                return TRUE if c else FALSE
            return v.length() > 0
        if isinstance(v, STuple):
            return TRUE if v.items else FALSE
        if isinstance(v, SOpt):
            return And(v.some, self.truth(v.inner, st))
        if isinstance(v, Ref):
            o = st.obj(v)
            if isinstance(o, HList):
                return o.length() > 0
            if isinstance(o, HDict):
                return TRUE if o.items else FALSE
            if isinstance(o, HObj):
                tr = self.env.truth_hook(self, st, v, o)
                if tr is not None:
                    return tr
                return TRUE
            return TRUE
        if isinstance(v, PyConst):
            return TRUE if v.val else FALSE
        if isinstance(v, (ClassV, FuncV, StubV, ModV, RegexV, MatchV, SExc, SymRef, SPartial, SLambda)):
            return TRUE
        if isinstance(v, Opaque):
            return fresh_bool("truth.%s" % v.tag)
        raise Unsupported("truthiness of %r" % (v,))

    # ---- expressions ------------------------------------------------------------------------------
    def ev(self, e, st):
        m = getattr(self, "ev_" + type(e).__name__, None)
        if m is None:
            raise Unsupported("expression %s" % type(e).__name__)
        return m(e, st)

    def ev_many(self, es, st):
        """evaluate expressions left to right -> list of (st, [values]) or (st, SExc)"""
        results = [(st, [])]
        for e in es:
            nxt = []
            for (s, vs) in results:
                if isinstance(vs, SExc):
                    nxt.append((s, vs))
                    continue
                if isinstance(e, ast.Starred):
                    for r in self.ev(e.value, s):
                        if r.exc is not None:
                            nxt.append((r.st, r.exc))
                        else:
                            items = self.concrete_items(r.st, r.v)
                            if items is None:
                                raise Unsupported("star-args of symbolic sequence")
                            nxt.append((r.st, vs + list(items)))
                    continue
                for r in self.ev(e, s):
                    if r.exc is not None:
                        nxt.append((r.st, r.exc))
                    else:
                        nxt.append((r.st, vs + [r.v]))
            results = nxt
        return results

    def ev1(self, e, st, k):
        """evaluate e then continue with k(st, v) -> list of Res; exceptions propagate"""
        out = []
        for r in self.ev(e, st):
            if r.exc is not None:
                out.append(r)
            else:
                out += k(r.st, r.v)
        return out

    def ev_Constant(self, e, st):
        return [self.res(st, self.lift_const(e.value))]

    def lift_const(self, c):
        if c is None:
            return NONE
        if isinstance(c, bool):
            return SBool(c)
        if isinstance(c, int):
            return SInt(c)
        if isinstance(c, float):
            return SReal(c)
        if isinstance(c, str):
            try:
                return SStr.lit(c)
            except UnicodeEncodeError:
                return Opaque("nonlatin-str")
        if isinstance(c, bytes):
            return SStr.lit(c)
        if c is Ellipsis:
            return Opaque("ellipsis")
        raise Unsupported("constant %r" % (c,))

    def lift(self, obj, name=""):
        """python object from a live module -> V"""
        import re
        import types
        if obj is None or isinstance(obj, (bool, int, float, str, bytes)):
            return self.lift_const(obj)
        if isinstance(obj, tuple):
            return STuple([self.lift(x) for x in obj])
        if isinstance(obj, re.Pattern):
            return RegexV(obj.pattern, name)
        if isinstance(obj, types.ModuleType):
            return ModV(obj.__name__)
        if isinstance(obj, type):
            return ClassV(obj)
        if isinstance(obj, (types.FunctionType,)):
            q = "%s:%s" % (obj.__module__, obj.__qualname__)
            if q in self.env.repo.funcs:
                return FuncV(q)
            return StubV("%s.%s" % (obj.__module__, obj.__qualname__))
        if isinstance(obj, (types.BuiltinFunctionType, types.BuiltinMethodType)):
            owner = getattr(obj, "__self__", None)
            if isinstance(owner, type):
                return StubV("%s.%s" % (owner.__name__, obj.__name__))
            mod = getattr(obj, "__module__", None) or "builtins"
            return StubV(("%s.%s" % (mod, obj.__name__)) if mod != "builtins" else obj.__name__)
        if isinstance(obj, types.MethodType):
            return StubV("%s.%s" % (type(obj.__self__).__name__, obj.__name__))
        if isinstance(obj, (set, frozenset, dict, list)):
            try:
                return PyConst(obj)
            except Exception:
                pass
        return Opaque("live:%s" % type(obj).__name__)

    def ev_Name(self, e, st):
        n = e.id
        if n in st.locals:
            v = st.locals[n]
            if isinstance(v, SOpt):
                return self._split_opt(st, v, lambda s, x: s.locals.__setitem__(n, x))
            return [self.res(st, v)]
        gv = self.env.global_hook(self, st, self.module(), n)
        if gv is not None:
            return [self.res(st, gv)]
        live = self.env.repo.live(self.module())
        if live is not None and n in live.__dict__:
            return [self.res(st, self.lift(live.__dict__[n], n))]
        if hasattr(builtins, n):
            b = getattr(builtins, n)
            if isinstance(b, type) and issubclass(b, BaseException):
                return [self.res(st, ClassV(b))]
            if isinstance(b, type) and n in ("int", "str", "bytes", "tuple", "list", "dict", "bool", "float", "object",
                                              "set", "frozenset", "type"):
                return [self.res(st, ClassV(b))]
            return [self.res(st, StubV(n))]
        if self.depth == 0 and n in self._assigned_locals():
            # a local that is assigned on some other path: CPython raises UnboundLocalError here
            return [self.res_exc(st, SExc(UnboundLocalError))]
        raise Unsupported("unbound name %s" % n)

    def _assigned_locals(self):
        if not hasattr(self, "_assigned_cache"):
            self._assigned_cache = self.assigned_names(self.finfo.body)
        return self._assigned_cache

    def _split_opt(self, st, v, setter):
        a, b = self.split(st, v.some)
        out = []
        if a is not None:
            setter(a, v.inner)
            out.append(self.res(a, v.inner))
        if b is not None:
            setter(b, NONE)
            out.append(self.res(b, NONE))
        return out

    def ev_Tuple(self, e, st):
        out = []
        for (s, vs) in self.ev_many(e.elts, st):
            out.append(Res(s, None, vs) if isinstance(vs, SExc) else self.res(s, STuple(vs)))
        return out

    def ev_List(self, e, st):
        out = []
        for (s, vs) in self.ev_many(e.elts, st):
            out.append(Res(s, None, vs) if isinstance(vs, SExc) else self.res(s, s.alloc(HList(vs))))
        return out

    def ev_Set(self, e, st):
        out = []
        for (s, vs) in self.ev_many(e.elts, st):
            out.append(Res(s, None, vs) if isinstance(vs, SExc) else self.res(s, STuple(vs)))
        return out

    def ev_Dict(self, e, st):
        out = []
        if any(k is None for k in e.keys):
            raise Unsupported("dict unpacking")
        for (s, ks) in self.ev_many(e.keys, st):
            if isinstance(ks, SExc):
                out.append(Res(s, None, ks))
                continue
            for (s2, vs) in self.ev_many(e.values, s):
                if isinstance(vs, SExc):
                    out.append(Res(s2, None, vs))
                    continue
                d = {}
                for k, v in zip(ks, vs):
                    d[self.dict_key(k)] = v
                out.append(self.res(s2, s2.alloc(HDict(d))))
        return out

    def dict_dyn_key(self, o, k, create=False):
        """is the symbolic string key k in the dict's abstract region: it starts with a literal prefix that no concrete
        key of the dict shares (so it cannot alias any of them)"""
        if not (k.atoms and isinstance(k.atoms[0], Lit) and k.atoms[0].b):
            return False
        p = k.atoms[0].b
        if o.dyn is not None:
            if p.startswith(o.dyn["prefix"]):
                return True
            return False
        ptxt = p.decode("latin-1")
        for key in o.items:
            if isinstance(key, str) and (key.startswith(ptxt) or ptxt.startswith(key)):
                return False
        o.dyn = {"prefix": p, "count": iv(0), "last": None}
        return True

    def dict_key(self, k):
        if isinstance(k, SStr):
            c = k.concrete_py()
            if c is not None:
                return c
        if isinstance(k, SInt):
            c = const_int(k.t)
            if c is not None:
                return c
        raise Unsupported("symbolic dict key %r" % (k,))

    def ev_JoinedStr(self, e, st):
        return [self.res(st, strops.fresh_str(st, "fstring", True))]

    def ev_Lambda(self, e, st):
        return [self.res(st, SLambda(e, dict(st.locals)))]

    def ev_GeneratorExp(self, e, st):
        return [self.res(st, SGen(e, None))]

    def ev_ListComp(self, e, st):
        if len(e.generators) != 1:
            raise Unsupported("nested comprehension")
        g = e.generators[0]
        if g.ifs:
            return self._filtered_comp(e, g, st)
        out = []
        for r in self.ev(g.iter, st):
            if r.exc is not None:
                out.append(r)
                continue
            out += self.map_seq(r.st, r.v, g.target, e.elt)
        return out

    def _filtered_comp(self, e, g, st):
        """[elt for target in <concrete sequence> if cond...]: every condition must evaluate to a constant per element"""
        out = []
        for r in self.ev(g.iter, st):
            if r.exc is not None:
                out.append(r)
                continue
            items = self.concrete_items(r.st, r.v)
            if items is None:
                raise Unsupported("filtered comprehension over a symbolic sequence")
            s1 = r.st
            vals = []
            for it in items:
                self.bind_target(g.target, it, s1)
                keep = True
                for cond in g.ifs:
                    rs = self.ev(cond, s1)
                    if len(rs) != 1 or rs[0].exc is not None:
                        raise Unsupported("filter of a comprehension forks")
                    b = const_bool(self.truth(rs[0].v, rs[0].st))
                    if b is None:
                        raise Unsupported("filter of a comprehension is not constant")
                    keep = keep and b
                if keep:
                    rs = self.ev(e.elt, s1)
                    if len(rs) != 1 or rs[0].exc is not None:
                        raise Unsupported("element of a filtered comprehension forks")
                    vals.append(rs[0].v)
            out.append(self.res(s1, s1.alloc(HList(vals))))
        return out

    def map_seq(self, st, seqv, target, elt):
        """[elt for target in seqv]"""
        items = self.concrete_items(st, seqv)
        if items is not None:
            results = [(st, [])]
            for it in items:
                nxt = []
                for (s, vs) in results:
                    saved = dict(s.locals)
                    self.bind_target(target, it, s)
                    for r in self.ev(elt, s):
                        if r.exc is not None:
                            raise Unsupported("exception inside comprehension")
                        nxt.append((r.st, vs + [r.v]))
                    # comprehension variables do not leak
                results = nxt
            return [self.res(s, s.alloc(HList(vs))) for (s, vs) in results]
        seq = self.sym_seq(st, seqv)
        if seq is None:
            raise Unsupported("comprehension over %r" % (seqv,))
        # symbolic map: evaluate elt on a generic element (index ci). Facts the evaluation adds (e.g. strip axioms) and
        # the fresh symbols it introduces are generalised over the index: fresh x  ->  array cell X[ci], fact -> forall ci
        from . import smt as _smt
        ci = z3.Int(fresh_name("ci"))
        mark = next(_smt._counter)
        s2 = st.fork()
        s2.locals = dict(st.locals)
        npc = len(s2.pc)
        self.bind_target(target, seq.elem(ci), s2)
        rs = self.ev(elt, s2)
        if len(rs) != 1 or rs[0].exc is not None or rs[0].st is not s2:
            raise Unsupported("comprehension element expression forks")
        v = rs[0].v
        shp = shape_of(v)
        comps = shp.unpack(v)
        facts = s2.pc[npc:]
        fresh = {}

        def collect(t):
            stack, seen = [t], set()
            while stack:
                x = stack.pop()
                if x.get_id() in seen:
                    continue
                seen.add(x.get_id())
                if z3.is_const(x) and x.decl().kind() == z3.Z3_OP_UNINTERPRETED:
                    nm = x.decl().name()
                    if "!" in nm:
                        try:
                            k = int(nm.rsplit("!", 1)[1])
                        except ValueError:
                            k = -1
                        if k > mark and not x.eq(ci):
                            fresh[nm] = x
                elif z3.is_quantifier(x):
                    stack.append(x.body())
                else:
                    stack.extend(x.children())
        for t in list(facts) + list(comps):
            collect(t)
        subs = []
        for nm, x in fresh.items():
            if z3.is_array(x):
                raise Unsupported("comprehension element introduces a fresh array")
            arr = z3.Array(nm + "[]", I, x.sort())
            subs.append((x, z3.Select(arr, ci)))
        comps = [z3.substitute(c, *subs) if subs else c for c in comps]
        if facts:
            body = z3.substitute(And(*facts), *subs) if subs else And(*facts)
            st.assume(z3.ForAll([ci], Implies(And(seq.lo <= ci, ci < seq.hi), body)))
        arrays = []
        for c in comps:
            # identity on an existing array cell -> reuse the array itself
            if z3.is_select(c) and c.arg(1).eq(ci):
                arrays.append(c.arg(0))
            else:
                arrays.append(z3.Lambda([ci], c))
        newseq = SymSeqA(seq.lo, seq.hi, arrays, shp)
        return [self.res(st, st.alloc(HList(sym=newseq)))]

    def ev_IfExp(self, e, st):
        out = []
        for r in self.ev(e.test, st):
            if r.exc is not None:
                out.append(r)
                continue
            c = self.truth(r.v, r.st)
            a, b = self.split(r.st, c)
            if a is not None:
                out += self.ev(e.body, a)
            if b is not None:
                out += self.ev(e.orelse, b)
        return out

    def ev_BoolOp(self, e, st):
        is_and = isinstance(e.op, ast.And)

        def go(k, s):
            out = []
            for r in self.ev(e.values[k], s):
                if r.exc is not None or k == len(e.values) - 1:
                    out.append(r)
                    continue
                c = self.truth(r.v, r.st)
                a, b = self.split(r.st, c)
                if is_and:
                    if a is not None:
                        out += go(k + 1, a)
                    if b is not None:
                        out.append(self.res(b, r.v))
                else:
                    if a is not None:
                        out.append(self.res(a, r.v))
                    if b is not None:
                        out += go(k + 1, b)
            return out
        # fast path: all operands pure booleans -> single z3 term (no forking)
        rs = self._pure_bools(e.values, st)
        if rs is not None:
            return [self.res(st, SBool(And(*rs) if is_and else Or(*rs)))]
        return go(0, st)

    def _pure_bools(self, exprs, st):
        """if every expr is a 'simple' comparison / name evaluating without forking to SBool, return the terms"""
        terms = []
        npc = len(st.pc)
        for x in exprs:
            if not self._is_simple(x):
                return None
        snapshot_locals = dict(st.locals)
        for x in exprs:
            rs = self.ev(x, st)
            if len(rs) != 1 or rs[0].exc is not None or rs[0].st is not st or not isinstance(rs[0].v, SBool):
                st.locals = snapshot_locals
                del st.pc[npc:]
                return None
            terms.append(rs[0].v.t)
        if len(st.pc) != npc:
            # evaluation introduced facts (e.g. find axioms): keep them, they are definitional
            pass
        return terms

    def _is_simple(self, x):
        if isinstance(x, ast.Compare):
            return all(self._is_simple_atom(a) for a in [x.left] + x.comparators) and all(
                isinstance(o, (ast.Lt, ast.LtE, ast.Gt, ast.GtE, ast.Eq, ast.NotEq)) for o in x.ops)
        if isinstance(x, ast.UnaryOp) and isinstance(x.op, ast.Not):
            return self._is_simple(x.operand)
        return False

    def _is_simple_atom(self, a):
        if isinstance(a, ast.Constant) and isinstance(a.value, (int, bool)) and not isinstance(a.value, str):
            return True
        if isinstance(a, ast.Name):
            return True
        if isinstance(a, ast.BinOp) and isinstance(a.op, (ast.Add, ast.Sub)):
            return self._is_simple_atom(a.left) and self._is_simple_atom(a.right)
        return False

    def ev_UnaryOp(self, e, st):
        def k(s, v):
            if isinstance(e.op, ast.Not):
                return [self.res(s, SBool(Not(self.truth(v, s))))]
            if isinstance(e.op, ast.USub):
                if isinstance(v, SInt):
                    return [self.res(s, SInt(-v.t))]
                if isinstance(v, SReal):
                    return [self.res(s, SReal(-v.t))]
            if isinstance(e.op, ast.UAdd) and isinstance(v, (SInt, SReal)):
                return [self.res(s, v)]
            raise Unsupported("unary %s on %r" % (type(e.op).__name__, v))
        return self.ev1(e.operand, st, k)

    def ev_BinOp(self, e, st):
        out = []
        for (s, vs) in self.ev_many([e.left, e.right], st):
            if isinstance(vs, SExc):
                out.append(Res(s, None, vs))
            else:
                out += self.binop(e.op, vs[0], vs[1], s)
        return out

    def num(self, v):
        """numeric term + is_real"""
        if isinstance(v, SInt):
            return v.t, False
        if isinstance(v, SBool):
            return If(v.t, iv(1), iv(0)), False
        if isinstance(v, SReal):
            return v.t, True
        return None, None

    def binop(self, op, a, b, st):
        if isinstance(a, Opaque) or isinstance(b, Opaque):
            return [self.res(st, Opaque("arith"))]
        ta, ra = self.num(a)
        tb, rb = self.num(b)
        if ta is not None and tb is not None:
            real = ra or rb
            if real:
                ta = z3.ToReal(ta) if not ra else ta
                tb = z3.ToReal(tb) if not rb else tb
            wrap = SReal if real else SInt
            if isinstance(op, ast.Add):
                return [self.res(st, wrap(ta + tb))]
            if isinstance(op, ast.Sub):
                return [self.res(st, wrap(ta - tb))]
            if isinstance(op, ast.Mult):
                return [self.res(st, wrap(ta * tb))]
            if isinstance(op, ast.Div):
                tra = z3.ToReal(ta) if not real else ta
                trb = z3.ToReal(tb) if not real else tb
                ok, bad = self.split(st, trb != 0)
                out = []
                if ok is not None:
                    out.append(self.res(ok, SReal(tra / trb)))
                if bad is not None:
                    out.append(self.res_exc(bad, SExc(ZeroDivisionError)))
                return out
            if isinstance(op, ast.RShift) and not real:
                cb = const_int(tb)
                if cb is not None and cb >= 0:
                    # floor division by 2**cb (python semantics for negative too), as a function of the operand
                    q = z3.Function("shr%d" % cb, I, I)(ta)
                    st.assume(q * (2 ** cb) <= ta, ta < (q + 1) * (2 ** cb))
                    return [self.res(st, SInt(q))]
            if isinstance(op, ast.FloorDiv) and not real:
                cb = const_int(tb)
                if cb is not None and cb > 0:
                    q = fresh_int("fdiv")
                    st.assume(q * cb <= ta, ta < (q + 1) * cb)
                    return [self.res(st, SInt(q))]
            if isinstance(op, ast.Mod) and not real:
                cb = const_int(tb)
                if cb is not None and cb > 0:
                    q = fresh_int("modq")
                    r = fresh_int("modr")
                    st.assume(ta == q * cb + r, 0 <= r, r < cb)
                    return [self.res(st, SInt(r))]
            if isinstance(op, ast.BitOr) and not real:
                return [self.res(st, SInt(fresh_int("bitor")))]
            raise Unsupported("arithmetic %s" % type(op).__name__)
        if isinstance(op, ast.Add):
            if isinstance(a, SStr) and isinstance(b, SStr):
                if a.is_str != b.is_str:
                    return [self.res_exc(st, SExc(TypeError))]
                return [self.res(st, self.merge_adjacent(st, concat(a, b)))]
            la, lb = self.concrete_items(st, a), self.concrete_items(st, b)
            if la is not None and lb is not None:
                if isinstance(a, STuple):
                    return [self.res(st, STuple(la + lb))]
                return [self.res(st, st.alloc(HList(la + lb)))]
        if isinstance(op, ast.Mod) and isinstance(a, SStr):
            r = strops.format_percent(self, st, a, b)
            if r is None:
                return [self.res_exc(st, SExc(TypeError))]
            return [self.res(st, r)]
        if isinstance(op, ast.Mult) and isinstance(a, SStr) and isinstance(b, SInt):
            ca, cb = a.concrete(), const_int(b.t)
            if ca is not None and cb is not None:
                return [self.res(st, SStr([Lit(ca * cb)], a.is_str))]
        raise Unsupported("binop %s on %r, %r" % (type(op).__name__, a, b))

    def merge_adjacent(self, st, s):
        """a rope of two windows of the same stream that are provably adjacent is one window"""
        if len(s.atoms) != 2 or not all(isinstance(a, Win) for a in s.atoms):
            return s
        x, y = s.atoms
        if not (x.base.eq(y.base) and x.xf == y.xf):
            return s
        adj = Or(x.length() == 0, y.length() == 0, x.hi == y.lo)
        if not entails(st.pc, adj, 2000):
            return s
        lo = If(x.length() == 0, y.lo, x.lo)
        hi = If(y.length() == 0, If(x.length() == 0, y.lo, x.hi), y.hi)
        return mk_win(x.base, z3.simplify(lo), z3.simplify(hi), s.is_str, x.xf)

    def ev_Compare(self, e, st):
        operands = [e.left] + list(e.comparators)
        out = []
        for (s, vs) in self.ev_many(operands, st):
            if isinstance(vs, SExc):
                out.append(Res(s, None, vs))
                continue
            terms = []
            for k, op in enumerate(e.ops):
                terms.append(self.compare(op, vs[k], vs[k + 1], s))
            out.append(self.res(s, SBool(And(*terms))))
        return out

    def compare(self, op, a, b, st):
        if isinstance(op, (ast.Is, ast.IsNot)):
            r = self.identical(a, b, st)
            return r if isinstance(op, ast.Is) else Not(r)
        if isinstance(op, (ast.Eq, ast.NotEq)):
            r = self.equal(a, b, st)
            return r if isinstance(op, ast.Eq) else Not(r)
        if isinstance(op, (ast.In, ast.NotIn)):
            r = self.contains(b, a, st)
            return r if isinstance(op, ast.In) else Not(r)
        ta, ra = self.num(a)
        tb, rb = self.num(b)
        if ta is not None and tb is not None:
            if ra or rb:
                ta = z3.ToReal(ta) if not ra else ta
                tb = z3.ToReal(tb) if not rb else tb
            return {ast.Lt: lambda: ta < tb, ast.LtE: lambda: ta <= tb, ast.Gt: lambda: ta > tb,
                    ast.GtE: lambda: ta >= tb}[type(op)]()
        if isinstance(a, STuple) and isinstance(b, STuple):
            return self.tuple_less(op, a.items, b.items, st)
        raise Unsupported("ordering %s of %r and %r" % (type(op).__name__, a, b))

    def tuple_less(self, op, xs, ys, st):
        strict = isinstance(op, (ast.Lt, ast.Gt))
        if isinstance(op, (ast.Gt, ast.GtE)):
            xs, ys = ys, xs
        # xs < ys (or <=) lexicographic
        if not xs and not ys:
            return FALSE if strict else TRUE
        if not xs:
            return TRUE
        if not ys:
            return FALSE
        x, y = xs[0], ys[0]
        lt = self.compare(ast.Lt(), x, y, st)
        eq = self.equal(x, y, st)
        return Or(lt, And(eq, self.tuple_less(ast.Lt() if strict else ast.LtE(), xs[1:], ys[1:], st)))

    def identical(self, a, b, st):
        if isinstance(a, SOpt):
            return If(a.some, self.identical(a.inner, b, st), self.identical(NONE, b, st))
        if isinstance(b, SOpt):
            return self.identical(b, a, st)
        if isinstance(a, SNone) or isinstance(b, SNone):
            return TRUE if (isinstance(a, SNone) and isinstance(b, SNone)) else FALSE
        if isinstance(a, Opaque) or isinstance(b, Opaque):
            return fresh_bool("is.opaque")
        if isinstance(a, SBool) and isinstance(b, SBool):
            return a.t == b.t
        if isinstance(a, SBool) or isinstance(b, SBool):
            return FALSE       # `x is False` where x is not a bool
        if isinstance(a, Ref) and isinstance(b, Ref):
            return TRUE if a.oid == b.oid else FALSE
        if isinstance(a, SymRef) and isinstance(b, SymRef):
            return a.t == b.t
        if isinstance(a, ClassV) and isinstance(b, ClassV):
            return TRUE if a.pycls is b.pycls else FALSE
        if isinstance(a, SInt) and isinstance(b, SInt):
            return a.t == b.t
        if type(a) is not type(b):
            return FALSE
        if _same_const(a, b):
            return TRUE
        raise Unsupported("identity of %r and %r" % (a, b))

    def equal(self, a, b, st):
        if isinstance(a, SOpt):
            return If(a.some, self.equal(a.inner, b, st), self.equal(NONE, b, st))
        if isinstance(b, SOpt):
            return self.equal(b, a, st)
        ta, ra = self.num(a)
        tb, rb = self.num(b)
        if ta is not None and tb is not None:
            if ra or rb:
                ta = z3.ToReal(ta) if not ra else ta
                tb = z3.ToReal(tb) if not rb else tb
            return ta == tb
        if isinstance(a, SStr) and isinstance(b, SStr):
            if a.is_str != b.is_str:
                return FALSE
            return str_eq(a, b)
        if isinstance(a, SNone) or isinstance(b, SNone):
            return TRUE if (isinstance(a, SNone) and isinstance(b, SNone)) else FALSE
        if isinstance(a, STuple) and isinstance(b, STuple):
            if len(a.items) != len(b.items):
                return FALSE
            return And(*[self.equal(x, y, st) for x, y in zip(a.items, b.items)])
        if isinstance(a, Ref) and isinstance(b, Ref):
            if a.oid == b.oid:
                return TRUE
            oa, ob = st.obj(a), st.obj(b)
            if isinstance(oa, HObj) and isinstance(ob, HObj):
                return FALSE      # distinct objects without __eq__
            la, lb = self.concrete_items(st, a), self.concrete_items(st, b)
            if la is not None and lb is not None:
                if len(la) != len(lb):
                    return FALSE
                return And(*[self.equal(x, y, st) for x, y in zip(la, lb)])
        if isinstance(a, SymRef) and isinstance(b, SymRef):
            return a.t == b.t
        if isinstance(a, SExc) and isinstance(b, SExc):
            return TRUE if a is b else FALSE          # exception objects without __eq__: identity
        for x, y in ((a, b), (b, a)):
            # a symbolic name object compared with a literal: the literal's id in that name space (contracts register it)
            if isinstance(x, SymRef) and isinstance(y, SStr) and y.concrete_py() is not None:
                lits = getattr(self.env, "symref_lits", {}).get(x.cls)
                if lits is not None:
                    return x.t == lits(y.concrete_py())
        for x, y in ((a, b), (b, a)):
            # an object allocated by the code under analysis is never a pre-existing module-level object
            if isinstance(x, Ref) and isinstance(y, Opaque) and y.tag.startswith("live:"):
                return FALSE
        if isinstance(a, Opaque) or isinstance(b, Opaque):
            return fresh_bool("eq.opaque")
        if type(a) is not type(b):
            if isinstance(a, (SInt, SBool, SReal, SStr, SNone, STuple)) or isinstance(b, (SInt, SBool, SReal, SStr, SNone, STuple)):
                return FALSE
        if _same_const(a, b):
            return TRUE
        if isinstance(a, (ClassV, FuncV, StubV)) and isinstance(b, (ClassV, FuncV, StubV)):
            return FALSE
        raise Unsupported("equality of %r and %r" % (a, b))

    def contains(self, container, item, st):
        if isinstance(container, SStr):
            return strops.contains(self, st, container, item).t
        if isinstance(container, PyConst):
            val = container.val
            if isinstance(item, SStr):
                c = item.concrete_py()
                if c is not None:
                    return TRUE if c in val else FALSE
                cands = [k for k in val if isinstance(k, (str, bytes))]
                return Or(*[str_eq(item, SStr.lit(k)) for k in cands if isinstance(k, str) == item.is_str])
            if isinstance(item, SInt):
                c = const_int(item.t)
                if c is not None:
                    return TRUE if c in val else FALSE
                return Or(*[item.t == int(k) for k in val if isinstance(k, int)])
            raise Unsupported("membership of %r in constant" % (item,))
        items = self.concrete_items(st, container)
        if items is not None:
            return Or(*[self.equal(item, x, st) for x in items])
        seq = self.sym_seq(st, container)
        if seq is not None:
            j = z3.Int(fresh_name("mj"))
            return z3.Exists([j], And(seq.lo <= j, j < seq.hi, self.equal(item, seq.elem(j), st)))
        if isinstance(container, Ref):
            o = st.obj(container)
            if isinstance(o, HDict):
                if isinstance(item, SStr) and item.concrete_py() is None:
                    if self.dict_dyn_key(o, item):
                        has = z3.Bool(fresh_name("dict.has"))
                        o.dyn["last"] = (item, has)
                        return has
                    return Or(*[str_eq(item, SStr.lit(k)) for k in o.items if isinstance(k, str)])
                kk = self.dict_key(item)
                if kk in o.items:
                    return o.items[kk].present if isinstance(o.items[kk], SMaybe) else TRUE
                return FALSE
            r = self.env.contains_hook(self, st, container, o, item)
            if r is not None:
                return r
        raise Unsupported("membership in %r" % (container,))

    # ---- sequences --------------------------------------------------------------------------------
    def concrete_items(self, st, v):
        if isinstance(v, STuple):
            return list(v.items)
        if isinstance(v, PyConst) and isinstance(v.val, (list, tuple)) and all(isinstance(x, (int, str, bytes)) for x in v.val):
            return [self.lift(x) for x in v.val]          # module / class level constant list of scalars
        if isinstance(v, Ref):
            o = st.obj(v)
            if isinstance(o, HList) and o.items is not None:
                return list(o.items)
        return None

    def sym_seq(self, st, v):
        if isinstance(v, Ref):
            o = st.obj(v)
            if isinstance(o, HList) and o.sym is not None:
                if o.prefix is not None:
                    raise Unsupported("list with concrete prefix and symbolic tail used as a sequence")
                return o.sym
        return None

    def dict_items(self, st, v):
        if isinstance(v, Ref):
            o = st.obj(v)
            if isinstance(o, HDict):
                return o.items
        raise Unsupported("expected a literal dict, got %r" % (v,))

    # ---- attribute / subscript --------------------------------------------------------------------
    def ev_Attribute(self, e, st):
        return self.ev1(e.value, st, lambda s, v: self.getattr(s, v, e.attr))

    def getattr(self, st, v, attr):
        if isinstance(v, Ref):
            o = st.obj(v)
            if isinstance(o, HObj):
                if attr in o.fields:
                    fv = o.fields[attr]
                    if isinstance(fv, SOpt):
                        return self._split_opt(st, fv, lambda s, x: s.obj(v).fields.__setitem__(attr, x))
                    return [self.res(st, fv)]
                r = self.env.attr_hook(self, st, v, o, attr)
                if r is not None:
                    if isinstance(r, SOpt):
                        return self._split_opt(st, r, lambda s, x: s.obj(v).fields.__setitem__(attr, x))
                    return [self.res(st, r)]
                pycls = self.env.pycls_of(o.cls)
                if pycls is not None:
                    fi = self.env.repo.func_for_method(pycls, attr)
                    if fi is not None:
                        return [self.res(st, FuncV(fi.qual, v))]
                    if hasattr(pycls, attr):
                        ca = getattr(pycls, attr)
                        if isinstance(ca, property):
                            q = "%s:%s" % (ca.fget.__module__, ca.fget.__qualname__)
                            if q in self.env.repo.funcs:
                                self.env._force_inline = frozenset(set(self.env._force_inline) | {q})
                                return self.call_func(FuncV(q, v), st, [], {}, None)
                            raise Unsupported("property %s.%s" % (o.cls, attr))
                        return [self.res(st, self.lift(ca, attr))]
                    raise Unsupported("unknown attribute %s.%s" % (o.cls, attr))
                aq = "abstract:%s.%s" % (o.cls, attr)
                if aq in self.env.abstract_registry():
                    return [self.res(st, FuncV(aq, v))]
                return [self.res(st, StubV("%s.%s" % (o.cls, attr), v))]
            if isinstance(o, HList):
                return [self.res(st, StubV("list." + attr, v))]
            if isinstance(o, HBio):
                return [self.res(st, StubV("BytesIO." + attr, v))]
            if isinstance(o, HDict):
                return [self.res(st, StubV("dict." + attr, v))]
        if isinstance(v, SStr):
            return [self.res(st, StubV("str." + attr, v))]
        if isinstance(v, ModV):
            return [self.res(st, self.mod_attr(st, v, attr))]
        if isinstance(v, SExc):
            if attr in v.fields:
                return [self.res(st, v.fields[attr])]
            if attr == "args":
                return [self.res(st, STuple(v.args))]
            if attr == "errno":
                return [self.res(st, v.fields.get("errno", NONE))]
            if attr == "with_traceback":
                return [self.res(st, StubV("exc.with_traceback", v))]
            if attr == "__traceback__":
                return [self.res(st, Opaque("traceback"))]
            raise Unsupported("exception attribute %s" % attr)
        if isinstance(v, ClassV):
            if hasattr(v.pycls, attr):
                a = getattr(v.pycls, attr)
                import types
                if isinstance(a, types.FunctionType):
                    q = "%s:%s" % (a.__module__, a.__qualname__)
                    if q in self.env.repo.funcs:
                        return [self.res(st, FuncV(q))]
                return [self.res(st, self.lift(a, attr))]
            raise Unsupported("class attribute %s.%s" % (v.pycls.__name__, attr))
        if isinstance(v, SymRef):
            return [self.res(st, self.env.symref_get(self, st, v, attr))]
        if isinstance(v, SSuper):
            pycls = v.pycls
            mro = self.env.pycls_of(st.obj(v.self_v).cls).__mro__
            idx = mro.index(pycls)
            for c in mro[idx + 1:]:
                q = "%s:%s.%s" % (c.__module__, c.__qualname__, attr)
                if q in self.env.repo.funcs and attr in c.__dict__:
                    return [self.res(st, FuncV(q, v.self_v))]
            if attr == "__init__":
                return [self.res(st, StubV("object.__init__", v.self_v))]
            raise Unsupported("super().%s" % attr)
        if isinstance(v, MatchV):
            return [self.res(st, StubV("match." + attr, v))]
        if isinstance(v, RegexV):
            return [self.res(st, StubV("regex." + attr, v))]
        if isinstance(v, STuple):
            return [self.res(st, StubV("tuple." + attr, v))]
        if isinstance(v, Opaque):
            return [self.res(st, StubV("opaque.%s.%s" % (v.tag, attr), v))]
        if isinstance(v, PyConst):
            return [self.res(st, StubV("const." + attr, v))]
        if isinstance(v, (SInt, SReal)):
            return [self.res(st, StubV("num." + attr, v))]
        if isinstance(v, StubV) and v.name in ("sys.stderr", "sys.stdout"):
            return [self.res(st, StubV("opaque.stream." + attr, v))]
        raise Unsupported("attribute %s of %r" % (attr, v))

    def mod_attr(self, st, m, attr):
        full = "%s.%s" % (m.name, attr)
        g = self.env.mod_attr_hook(self, st, full)
        if g is not None:
            return g
        if full in self.env.stubs:
            return StubV(full)
        import importlib
        try:
            mod = importlib.import_module(m.name)
        except Exception:
            raise Unsupported("module %s" % m.name)
        if m.name.startswith("gunicorn"):
            mod = self.env.repo.live(m.name) or mod
        if not hasattr(mod, attr):
            raise Unsupported("module attribute %s" % full)
        obj = getattr(mod, attr)
        import types
        if isinstance(obj, (int, str, bytes, float, bool, tuple, type(None))) or isinstance(obj, type) \
                or isinstance(obj, types.ModuleType):
            import enum
            if isinstance(obj, enum.IntEnum):
                return SInt(int(obj))
            return self.lift(obj, attr)
        if isinstance(obj, types.FunctionType) and obj.__module__.startswith("gunicorn"):
            return self.lift(obj, attr)
        return StubV(full)

    def ev_Subscript(self, e, st):
        if isinstance(e.slice, ast.Slice):
            parts = [e.value] + [x if x is not None else ast.Constant(None) for x in (e.slice.lower, e.slice.upper)]
            if e.slice.step is not None:
                raise Unsupported("slice step")
            out = []
            for (s, vs) in self.ev_many(parts, st):
                if isinstance(vs, SExc):
                    out.append(Res(s, None, vs))
                    continue
                out += self.slice(s, vs[0], vs[1], vs[2])
            return out
        out = []
        for (s, vs) in self.ev_many([e.value, e.slice], st):
            if isinstance(vs, SExc):
                out.append(Res(s, None, vs))
                continue
            out += self.index(s, vs[0], vs[1])
        return out

    def slice(self, st, v, lo, hi):
        lo_t = None if isinstance(lo, SNone) else lo.t
        hi_t = None if isinstance(hi, SNone) else hi.t
        if isinstance(v, SStr):
            return [self.res(st, strops.slice_str(v, lo_t, hi_t, st))]
        items = self.concrete_items(st, v)
        if items is not None:
            cl = const_int(lo_t) if lo_t is not None else None
            ch = const_int(hi_t) if hi_t is not None else None
            if (lo_t is None or cl is not None) and (hi_t is None or ch is not None):
                r = items[cl if lo_t is not None else None:ch if hi_t is not None else None]
                return [self.res(st, STuple(r) if isinstance(v, STuple) else st.alloc(HList(r)))]
        seq = self.sym_seq(st, v)
        if seq is not None:
            n = seq.length()
            a = seq.lo + (strops.clamp_index(lo_t, n) if lo_t is not None else iv(0))
            b = seq.lo + (strops.clamp_index(hi_t, n) if hi_t is not None else n)
            b = If(b < a, a, b)
            return [self.res(st, st.alloc(HList(sym=SymSeqA(a, b, seq.arrays, seq.eshape))))]
        raise Unsupported("slice of %r" % (v,))

    def index(self, st, v, k):
        if isinstance(v, SStr):
            if not isinstance(k, SInt):
                raise Unsupported("string index %r" % (k,))
            return strops.index_str(self, st, v, k.t)
        items = self.concrete_items(st, v)
        if items is not None:
            if not isinstance(k, (SInt, SBool)):
                raise Unsupported("index %r" % (k,))
            kt, _ = self.num(k)
            ck = const_int(kt)
            if ck is not None:
                if -len(items) <= ck < len(items):
                    return [self.res(st, items[ck])]
                return [self.res_exc(st, SExc(IndexError))]
            out = []
            for j, it in enumerate(items):
                a, st = self.split(st, Or(kt == j, kt == j - len(items)))
                if a is not None:
                    out.append(self.res(a, it))
                if st is None:
                    return out
            out.append(self.res_exc(st, SExc(IndexError)))
            return out
        seq = self.sym_seq(st, v)
        if seq is not None:
            kt = k.t
            n = seq.length()
            kk = If(kt < 0, kt + n, kt)
            ok, bad = self.split(st, And(kk >= 0, kk < n))
            out = []
            if ok is not None:
                out.append(self.res(ok, seq.get(kk)))
            if bad is not None:
                out.append(self.res_exc(bad, SExc(IndexError)))
            return out
        if isinstance(v, Ref):
            o = st.obj(v)
            if isinstance(o, HDict):
                if isinstance(k, SStr) and k.concrete_py() is None and self.dict_dyn_key(o, k):
                    val = strops.fresh_str(st, "dict.dyn.value", k.is_str)
                    last = o.dyn.get("last")
                    if last is not None and last[0].atoms == k.atoms and entails(st.pc, last[1], 500):
                        return [self.res(st, val)]            # guarded by `key in d`
                    miss = st.fork()
                    return [self.res(st, val), self.res_exc(miss, SExc(KeyError))]
                if isinstance(k, SStr) and k.concrete_py() is None:
                    # symbolic key against literal keys: case split
                    out = []
                    for key, val in o.items.items():
                        if isinstance(key, str) and k.is_str:
                            a, st = self.split(st, str_eq(k, SStr.lit(key)))
                            if a is not None:
                                out.append(self.res(a, val))
                            if st is None:
                                return out
                    out.append(self.res_exc(st, SExc(KeyError)))
                    return out
                key = self.dict_key(k)
                if key in o.items:
                    val = o.items[key]
                    if isinstance(val, SMaybe):
                        out = []
                        a, b = self.split(st, val.present)
                        if a is not None:
                            out.append(self.res(a, val.inner))
                        if b is not None:
                            out.append(self.res_exc(b, SExc(KeyError)))
                        return out
                    return [self.res(st, val)]
                return [self.res_exc(st, SExc(KeyError))]
            r = self.env.index_hook(self, st, v, o, k)
            if r is not None:
                return r
        if isinstance(v, PyConst) and isinstance(v.val, dict):
            key = self.dict_key(k)
            if key in v.val:
                return [self.res(st, self.lift(v.val[key]))]
            return [self.res_exc(st, SExc(KeyError))]
        raise Unsupported("subscript of %r" % (v,))

    # ---- calls ------------------------------------------------------------------------------------
    def ev_Call(self, e, st):
        out = []
        for r in self.ev(e.func, st):
            if r.exc is not None:
                out.append(r)
                continue
            fv = r.v
            if self._is_log_call(e, fv, r.st):
                argres = self._ev_log_args(e.args, r.st)
            else:
                argres = self.ev_many(e.args, r.st)
            for (s, vs) in argres:
                if isinstance(vs, SExc):
                    out.append(Res(s, None, vs))
                    continue
                kwnames = [k.arg for k in e.keywords]
                for (s2, kvs) in self.ev_many([k.value for k in e.keywords], s):
                    if isinstance(kvs, SExc):
                        out.append(Res(s2, None, kvs))
                        continue
                    kw = {}
                    for nme, val in zip(kwnames, kvs):
                        if nme is None:
                            # f(**d): d must be a literal dict with string keys
                            od = s2.obj(val) if isinstance(val, Ref) else None
                            if not isinstance(od, HDict) or od.dyn is not None or not all(isinstance(k2, str) for k2 in od.items):
                                raise Unsupported("**kwargs call with a non-literal mapping")
                            kw.update(od.items)
                        else:
                            kw[nme] = val
                    out += self.call(fv, s2, vs, kw, e)
        return out

    LOG_METHODS = ("debug", "info", "warning", "error", "critical", "exception")

    def _is_log_call(self, e, fv, st):
        if not (isinstance(e.func, ast.Attribute) and e.func.attr in self.LOG_METHODS and isinstance(fv, StubV)):
            return False
        recv = fv.self_v if hasattr(fv, "self_v") else None
        return isinstance(recv, Ref) and isinstance(st.obj(recv), HObj) and st.obj(recv).cls == "Logger"

    def _ev_log_args(self, args, st):
        """arguments of a log call that fall outside the subset are replaced by an opaque value: they are ASSUMED pure and
        total (recorded in env.assumptions); arguments inside the subset are evaluated normally"""
        try:
            self.ev_many(args, st.fork())
            return self.ev_many(args, st)
        except Unsupported:
            pass
        self.env.assumptions.add("log-message arguments outside the subset are assumed pure and total")
        return [(st, [Opaque("log-argument") for _ in args])]

    def call(self, fv, st, args, kwargs, node):
        self.npaths += 1
        if self.npaths > MAX_PATHS * 50:
            raise Unsupported("call budget exceeded")
        if isinstance(fv, FuncV):
            return self.call_func(fv, st, args, kwargs, node)
        if isinstance(fv, StubV):
            return self.env.call_stub(self, st, fv, args, kwargs, node)
        if isinstance(fv, ClassV):
            return self.call_class(fv, st, args, kwargs, node)
        if isinstance(fv, SPartial):
            return self.call(fv.func, st, list(fv.args) + list(args), kwargs, node)
        if isinstance(fv, Opaque):
            return self.env.call_stub(self, st, StubV("opaque.%s.__call__" % fv.tag, fv), args, kwargs, node)
        if isinstance(fv, Ref) and isinstance(st.obj(fv), HObj):
            aq = "abstract:%s.__call__" % st.obj(fv).cls
            if aq in self.env.abstract_registry():
                return self.call_func(FuncV(aq, fv), st, args, kwargs, node)
        raise Unsupported("call of %r" % (fv,))

    def call_class(self, cv, st, args, kwargs, node):
        pycls = cv.pycls
        if issubclass(pycls, BaseException):
            return [self.res(st, SExc(pycls, args, kwargs))]
        name = "%s.%s" % (pycls.__module__, pycls.__qualname__)
        if pycls.__module__.startswith("gunicorn") and ("ctor:" + pycls.__name__) in self.env.stubs:
            return self.env.call_stub(self, st, StubV("ctor:" + pycls.__name__), args, kwargs, node)
        if pycls.__module__.startswith("gunicorn"):
            key = pycls.__name__
            ref = st.alloc(HObj(key))
            self.env.register_pycls(key, pycls)
            fi = self.env.repo.func_for_method(pycls, "__init__")
            if fi is None:
                return [self.res(st, ref)]
            out = []
            for r in self.call_func(FuncV(fi.qual, ref), st, args, kwargs, node):
                if r.exc is not None:
                    out.append(r)
                else:
                    out.append(self.res(r.st, ref))
            return out
        cname = pycls.__name__
        if pycls.__module__ not in ("builtins",):
            cname = "%s.%s" % (pycls.__module__, pycls.__name__)
        return self.env.call_stub(self, st, StubV(cname), args, kwargs, node)

    def bind_params(self, finfo, self_v, args, kwargs, st):
        a = finfo.node.args
        params = [p.arg for p in a.posonlyargs + a.args]
        vals = list(args)
        if self_v is not None:
            vals = [self_v] + vals
        loc = {}
        if len(vals) > len(params) and a.vararg is None:
            raise Unsupported("too many positional args for %s" % finfo.qual)
        for p, v in zip(params, vals):
            loc[p] = v
        if a.vararg is not None:
            loc[a.vararg.arg] = STuple(vals[len(params):])
        defaults = a.defaults
        first_def = len(params) - len(defaults)
        for k, p in enumerate(params):
            if p in loc:
                continue
            if p in kwargs:
                loc[p] = kwargs[p]
            elif k >= first_def:
                loc[p] = self.eval_default(defaults[k - first_def], finfo)
            else:
                raise Unsupported("missing argument %s for %s" % (p, finfo.qual))
        for k, p in enumerate(a.kwonlyargs):
            if p.arg in kwargs:
                loc[p.arg] = kwargs[p.arg]
            elif a.kw_defaults[k] is not None:
                loc[p.arg] = self.eval_default(a.kw_defaults[k], finfo)
        extra = [k for k in kwargs if k not in loc]
        if extra:
            if a.kwarg is None:
                raise Unsupported("unexpected keyword %s" % extra)
        return loc

    def eval_default(self, node, finfo):
        if isinstance(node, ast.Constant):
            return self.lift_const(node.value)
        if isinstance(node, ast.UnaryOp) and isinstance(node.op, ast.USub) and isinstance(node.operand, ast.Constant):
            return self.lift_const(-node.operand.value)
        raise Unsupported("default value expression")

    def call_func(self, fv, st, args, kwargs, node):
        finfo = self.env.repo.funcs.get(fv.qual)
        if finfo is None:
            con = self.env.abstract_registry().get(fv.qual)
            if con is None:
                raise Unsupported("no source for %s" % fv.qual)
            vals = ([fv.self_v] if fv.self_v is not None else []) + list(args)
            loc = dict(zip(con.params, vals))
            for k, v in kwargs.items():
                loc[k] = v
            for p, d in getattr(con, "defaults", {}).items():
                loc.setdefault(p, d)

            class _FI:
                qual = fv.qual
            return self.env.apply_contract(self, st, con, _FI, loc, node)
        loc = self.bind_params(finfo, fv.self_v, args, kwargs, st)
        if finfo.is_generator:
            # calling a generator function runs nothing: it returns a generator object
            return [self.res(st, st.alloc(HObj("generator", {"g_func": FuncV(fv.qual, fv.self_v), "g_args": STuple(list(loc.values()))})))]
        con = self.env.contract_for(fv.qual, self, st, fv, args, kwargs)
        if con is not None and not (self.contract is not None and con is self.contract and False):
            return self.env.apply_contract(self, st, con, finfo, loc, node)
        if not self.env.may_inline(fv.qual):
            raise Unsupported("call to %s (no contract, not inlinable)" % fv.qual)
        if self.depth > 6:
            raise Unsupported("inline depth")
        self.inlined.add(fv.qual)
        self.depth += 1
        self.module_stack.append(finfo.module)
        self.qual_stack.append(finfo.qual)
        try:
            saved = st.locals
            st.locals = loc
            out = []
            for (s, o) in self.run_block(finfo.body, st):
                s.locals = dict(saved) if s is not st else saved
                if o is None:
                    out.append(self.res(s, NONE))
                elif o[0] == "return":
                    out.append(self.res(s, o[1]))
                elif o[0] == "raise":
                    out.append(self.res_exc(s, o[1]))
                else:
                    raise Unsupported("break/continue escaping a function")
            return out
        finally:
            self.depth -= 1
            self.module_stack.pop()
            self.qual_stack.pop()

    # ---- statements -------------------------------------------------------------------------------
    def run_block(self, stmts, st):
        outs = [(st, None)]
        for s in stmts:
            nxt = []
            progressed = False
            for (s0, o) in outs:
                if o is not None:
                    nxt.append((s0, o))
                else:
                    progressed = True
                    nxt += self.step(s, s0)
            outs = nxt
            if not progressed:
                break
            if len(outs) > MAX_PATHS:
                raise Unsupported("path explosion (%d paths)" % len(outs))
        return outs

    def step(self, s, st):
        m = getattr(self, "st_" + type(s).__name__, None)
        if m is None:
            raise Unsupported("statement %s" % type(s).__name__)
        outs = m(s, st)
        if self.point_hook is not None and self.depth == 0:
            for (s1, o) in outs:
                self.point_hook(self, s, s1, o)
        return outs

    def _res_to_outs(self, rs):
        return [(r.st, ("raise", r.exc) if r.exc is not None else None) for r in rs]

    def st_Expr(self, s, st):
        if isinstance(s.value, ast.Constant):
            return [(st, None)]
        if isinstance(s.value, (ast.Yield, ast.YieldFrom)):
            return self.st_yield(s.value, st)
        return self._res_to_outs(self.ev(s.value, st))

    def st_yield(self, y, st):
        if isinstance(y, ast.YieldFrom) or self.yield_hook is None:
            raise Unsupported("yield without a generator contract")
        outs = []
        for r in self.ev(y.value, st) if y.value is not None else [self.res(st, NONE)]:
            if r.exc is not None:
                outs.append((r.st, ("raise", r.exc)))
            else:
                self.yield_hook(self, r.st, r.v)
                outs.append((r.st, None))
        return outs

    def st_Pass(self, s, st):
        return [(st, None)]

    def st_Import(self, s, st):
        return [(st, None)]

    st_ImportFrom = st_Import
    st_Global = st_Import
    st_Nonlocal = st_Import

    def st_FunctionDef(self, s, st):
        st.locals[s.name] = Opaque("closure:" + s.name)
        return [(st, None)]

    def st_Assign(self, s, st):
        outs = []
        if isinstance(s.value, (ast.Yield, ast.YieldFrom)):
            raise Unsupported("yield expression value")
        for r in self.ev(s.value, st):
            if r.exc is not None:
                outs.append((r.st, ("raise", r.exc)))
                continue
            cur = [(r.st, None)]
            for t in s.targets:
                nxt = []
                for (s1, o) in cur:
                    if o is not None:
                        nxt.append((s1, o))
                    else:
                        nxt += self.assign(t, r.v, s1)
                cur = nxt
            outs += cur
        return outs

    def st_AnnAssign(self, s, st):
        if s.value is None:
            return [(st, None)]
        return self.st_Assign(ast.Assign(targets=[s.target], value=s.value), st)

    def bind_target(self, t, v, st):
        outs = self.assign(t, v, st)
        if len(outs) != 1 or outs[0][1] is not None or outs[0][0] is not st:
            raise Unsupported("forking / failing target binding")

    def assign(self, t, v, st):
        """assign value to target -> list of (st, outcome)"""
        if isinstance(t, ast.Name):
            st.locals[t.id] = v
            return [(st, None)]
        if isinstance(t, ast.Attribute):
            outs = []
            for r in self.ev(t.value, st):
                if r.exc is not None:
                    outs.append((r.st, ("raise", r.exc)))
                else:
                    self.setattr(r.st, r.v, t.attr, v)
                    outs.append((r.st, None))
            return outs
        if isinstance(t, (ast.Tuple, ast.List)):
            items = self.concrete_items(st, v)
            if items is None:
                seq = self.sym_seq(st, v)
                if seq is not None:
                    return self.unpack_sym(t, seq, st)
                raise Unsupported("unpack of %r" % (v,))
            star = [k for k, x in enumerate(t.elts) if isinstance(x, ast.Starred)]
            if star:
                k = star[0]
                nafter = len(t.elts) - k - 1
                if len(items) < len(t.elts) - 1:
                    return [(st, ("raise", SExc(ValueError)))]
                mid = items[k:len(items) - nafter]
                seqs = items[:k] + [st.alloc(HList(mid))] + items[len(items) - nafter:]
                tg = [x.value if isinstance(x, ast.Starred) else x for x in t.elts]
            else:
                if len(items) != len(t.elts):
                    return [(st, ("raise", SExc(ValueError)))]
                seqs, tg = items, t.elts
            cur = [(st, None)]
            for tt, vv in zip(tg, seqs):
                nxt = []
                for (s1, o) in cur:
                    nxt += [(s1, o)] if o is not None else self.assign(tt, vv, s1)
                cur = nxt
            return cur
        if isinstance(t, ast.Subscript):
            outs = []
            for (s1, vs) in self.ev_many([t.value, t.slice], st):
                if isinstance(vs, SExc):
                    outs.append((s1, ("raise", vs)))
                else:
                    outs += self.setitem(s1, vs[0], vs[1], v)
            return outs
        raise Unsupported("assignment target %s" % type(t).__name__)

    def unpack_sym(self, t, seq, st):
        n = len(t.elts)
        if any(isinstance(x, ast.Starred) for x in t.elts):
            raise Unsupported("star-unpack of symbolic list")
        ok, bad = self.split(st, seq.length() == n)
        outs = []
        if ok is not None:
            cur = [(ok, None)]
            for k, tt in enumerate(t.elts):
                nxt = []
                for (s1, o) in cur:
                    nxt += [(s1, o)] if o is not None else self.assign(tt, seq.get(iv(k)), s1)
                cur = nxt
            outs += cur
        if bad is not None:
            outs.append((bad, ("raise", SExc(ValueError))))
        return outs

    def setattr(self, st, obj, attr, v):
        if isinstance(obj, Ref):
            o = st.obj(obj)
            if isinstance(o, HObj):
                if self.env.setattr_hook(self, st, obj, o, attr, v):
                    return
                pycls = self.env.pycls_of(o.cls)
                ca = getattr(pycls, attr, None) if pycls is not None else None
                if isinstance(ca, property) and ca.fset is not None:
                    q = "%s:%s" % (ca.fset.__module__, ca.fset.__qualname__)
                    if q in self.env.repo.funcs:
                        self.env._force_inline = frozenset(set(self.env._force_inline) | {q})
                        rs = self.call_func(FuncV(q, obj), st, [v], {}, None)
                        if len(rs) != 1 or rs[0].exc is not None or rs[0].st is not st:
                            raise Unsupported("property setter %s.%s forks or raises" % (o.cls, attr))
                        return
                o.fields[attr] = v
                return
        if isinstance(obj, SymRef):
            self.env.symref_set(self, st, obj, attr, v)
            return
        if isinstance(obj, Opaque):
            return
        raise Unsupported("attribute store on %r" % (obj,))

    def setitem(self, st, cont, key, v):
        if isinstance(cont, Ref):
            o = st.obj(cont)
            if isinstance(o, HDict):
                if isinstance(key, SStr) and key.concrete_py() is None and self.dict_dyn_key(o, key, create=True):
                    o.dyn["count"] = o.dyn["count"] + 1
                    o.dyn["last"] = None
                    return [(st, None)]
                o.items[self.dict_key(key)] = v
                return [(st, None)]
            r = self.env.setitem_hook(self, st, cont, o, key, v)
            if r is not None:
                return r
        raise Unsupported("item store on %r" % (cont,))

    def st_AugAssign(self, s, st):
        load = {ast.Name: lambda t: ast.Name(id=t.id, ctx=ast.Load()),
                ast.Attribute: lambda t: ast.Attribute(value=t.value, attr=t.attr, ctx=ast.Load()),
                ast.Subscript: lambda t: ast.Subscript(value=t.value, slice=t.slice, ctx=ast.Load())}
        mk = load.get(type(s.target))
        if mk is None:
            raise Unsupported("augassign target")
        expr = ast.BinOp(left=mk(s.target), op=s.op, right=s.value)
        ast.copy_location(expr, s)
        ast.fix_missing_locations(expr)
        outs = []
        for r in self.ev(expr, st):
            if r.exc is not None:
                outs.append((r.st, ("raise", r.exc)))
            else:
                outs += self.assign(s.target, r.v, r.st)
        return outs

    def st_Delete(self, s, st):
        outs = [(st, None)]
        for t in s.targets:
            nxt = []
            for (s1, o) in outs:
                if o is not None:
                    nxt.append((s1, o))
                    continue
                if isinstance(t, ast.Name):
                    s1.locals.pop(t.id, None)
                    nxt.append((s1, None))
                elif isinstance(t, ast.Subscript):
                    for (s2, vs) in self.ev_many([t.value, t.slice], s1):
                        if isinstance(vs, SExc):
                            nxt.append((s2, ("raise", vs)))
                        else:
                            nxt += self.env.delitem(self, s2, vs[0], vs[1])
                else:
                    raise Unsupported("del target")
            outs = nxt
        return outs

    def st_Return(self, s, st):
        if s.value is None:
            return [(st, ("return", NONE))]
        outs = []
        for r in self.ev(s.value, st):
            outs.append((r.st, ("raise", r.exc)) if r.exc is not None else (r.st, ("return", r.v)))
        return outs

    def st_Raise(self, s, st):
        if s.exc is None:
            cur = st.locals.get("__current_exc__")
            if cur is None:
                raise Unsupported("bare raise outside handler")
            return [(st, ("raise", cur))]
        outs = []
        for r in self.ev(s.exc, st):
            if r.exc is not None:
                outs.append((r.st, ("raise", r.exc)))
                continue
            v = r.v
            if isinstance(v, ClassV):
                if not issubclass(v.pycls, BaseException):
                    raise Unsupported("raise of non-exception class")
                v = SExc(v.pycls)
            if not isinstance(v, SExc):
                raise Unsupported("raise of %r" % (v,))
            outs.append((r.st, ("raise", v)))
        return outs

    def st_Break(self, s, st):
        return [(st, ("break",))]

    def st_Continue(self, s, st):
        return [(st, ("continue",))]

    def st_Assert(self, s, st):
        outs = []
        for r in self.ev(s.test, st):
            if r.exc is not None:
                outs.append((r.st, ("raise", r.exc)))
                continue
            a, b = self.split(r.st, self.truth(r.v, r.st))
            if a is not None:
                outs.append((a, None))
            if b is not None:
                outs.append((b, ("raise", SExc(AssertionError))))
        return outs

    def st_If(self, s, st):
        outs = []
        for r in self.ev(s.test, st):
            if r.exc is not None:
                outs.append((r.st, ("raise", r.exc)))
                continue
            c = self.truth(r.v, r.st)
            a, b = self.split(r.st, c)
            if a is not None:
                outs += self.run_block(s.body, a)
            if b is not None:
                outs += self.run_block(s.orelse, b) if s.orelse else [(b, None)]
        return self.merge_paths(outs)

    def merge_paths(self, outs):
        """join normally-continuing states that differ only in their path condition (pc := common prefix + Or(rests))"""
        from .loops import _same_val
        normal = [(s, o) for (s, o) in outs if o is None]
        if len(normal) < 2:
            return outs
        others = [(s, o) for (s, o) in outs if o is not None]
        groups = []
        for (s, o) in normal:
            for g in groups:
                if self._same_state(g[0], s, _same_val):
                    g.append(s)
                    break
            else:
                groups.append([s])
        merged = []
        for g in groups:
            if len(g) == 1:
                merged.append((g[0], None))
                continue
            base = g[0]
            k = 0
            while all(len(x.pc) > k for x in g) and all(x.pc[k].eq(base.pc[k]) for x in g[1:]):
                k += 1
            rests = [And(*x.pc[k:]) for x in g]
            base.pc = base.pc[:k] + [Or(*rests)]
            merged.append((base, None))
        return merged + others

    def _same_state(self, a, b, same):
        if a.locals.keys() != b.locals.keys() or a.heap.keys() != b.heap.keys():
            return False
        if len(a.trace) != len(b.trace) or a.cheap.keys() != b.cheap.keys() or a.ghost.keys() != b.ghost.keys():
            return False
        for k in a.locals:
            if not same(a.locals[k], b.locals[k]):
                return False
        for k in a.cheap:
            if not a.cheap[k].eq(b.cheap[k]):
                return False
        for k in a.ghost:
            x, y = a.ghost[k], b.ghost[k]
            if x is y:
                continue
            if not isinstance(x, V) and not hasattr(x, "eq"):
                return False        # structured ghost value (dict / list): only identical objects are considered equal
            if isinstance(x, V) != isinstance(y, V):
                return False
            if (isinstance(x, V) and not same(x, y)) or (not isinstance(x, V) and not x.eq(y)):
                return False
        for oid, oa in a.heap.items():
            ob = b.heap[oid]
            if type(oa) is not type(ob):
                return False
            if isinstance(oa, HObj):
                if oa.fields.keys() != ob.fields.keys() or any(not same(oa.fields[f], ob.fields[f]) for f in oa.fields):
                    return False
            elif isinstance(oa, HBio):
                if not same(oa.content, ob.content) or (oa.pos is None) != (ob.pos is None):
                    return False
            elif isinstance(oa, HList):
                if (oa.items is None) != (ob.items is None):
                    return False
                if oa.items is not None:
                    if len(oa.items) != len(ob.items) or any(not same(x, y) for x, y in zip(oa.items, ob.items)):
                        return False
                else:
                    sa, sb = oa.sym, ob.sym
                    if not (sa.lo.eq(sb.lo) and sa.hi.eq(sb.hi) and len(sa.arrays) == len(sb.arrays)
                            and all(x.eq(y) for x, y in zip(sa.arrays, sb.arrays))):
                        return False
            elif isinstance(oa, HDict):
                if oa.items.keys() != ob.items.keys() or any(not same(oa.items[k], ob.items[k]) for k in oa.items):
                    return False
        for x, y in zip(a.trace, b.trace):
            if x is not y and x != y:
                return False
        return True

    # ---- exceptions -------------------------------------------------------------------------------
    def exc_matches(self, exc, handler_type_v):
        """python-level: does exception value match the handler class(es)? returns True/False"""
        if isinstance(handler_type_v, STuple):
            return any(self.exc_matches(exc, x) for x in handler_type_v.items)
        if isinstance(handler_type_v, ClassV):
            return issubclass(exc.cls, handler_type_v.pycls)
        raise Unsupported("except clause type %r" % (handler_type_v,))

    def st_Try(self, s, st):
        outs = []
        body_outs = self.run_block(s.body, st)
        after = []
        for (s1, o) in body_outs:
            if o is None:
                after += self.run_block(s.orelse, s1) if s.orelse else [(s1, None)]
            elif o[0] == "raise":
                after += self.handle_exc(s, s1, o[1])
            else:
                after.append((s1, o))
        if not s.finalbody:
            return after
        for (s1, o) in after:
            for (s2, o2) in self.run_block(s.finalbody, s1):
                outs.append((s2, o2 if o2 is not None else o))
        return outs

    def handle_exc(self, s, st, exc):
        for h in s.handlers:
            if h.type is None:
                matched = True
            else:
                rs = self.ev(h.type, st)
                if len(rs) != 1 or rs[0].exc is not None:
                    raise Unsupported("except type expression")
                st = rs[0].st
                matched = self.exc_matches(exc, rs[0].v)
            if matched:
                saved_cur = st.locals.get("__current_exc__")
                st.locals["__current_exc__"] = exc
                if h.name:
                    st.locals[h.name] = exc
                outs = []
                for (s1, o) in self.run_block(h.body, st):
                    if saved_cur is None:
                        s1.locals.pop("__current_exc__", None)
                    else:
                        s1.locals["__current_exc__"] = saved_cur
                    if h.name:
                        s1.locals.pop(h.name, None)
                    outs.append((s1, o))
                return outs
        return [(st, ("raise", exc))]

    def st_With(self, s, st):
        if len(s.items) != 1:
            raise Unsupported("multi-item with")
        item = s.items[0]
        outs = []
        for r in self.ev(item.context_expr, st):
            if r.exc is not None:
                outs.append((r.st, ("raise", r.exc)))
                continue
            for er in self.env.ctx_enter(self, r.st, r.v):
                if er.exc is not None:
                    outs.append((er.st, ("raise", er.exc)))
                    continue
                s1 = er.st
                if item.optional_vars is not None:
                    self.bind_target(item.optional_vars, er.v, s1)
                for (s2, o) in self.run_block(s.body, s1):
                    for (s3, o3) in self.env.ctx_exit(self, s2, r.v, o):
                        outs.append((s3, o3))
        return outs

    # ---- loops ------------------------------------------------------------------------------------
    def assigned_names(self, stmts):
        names = set()
        for n in stmts:
            for x in ast.walk(n):
                if isinstance(x, ast.Name) and isinstance(x.ctx, (ast.Store, ast.Del)):
                    names.add(x.id)
                elif isinstance(x, ast.ExceptHandler) and x.name:
                    names.add(x.name)
        return names

    def st_While(self, s, st):
        return self.loop(s, st, kind="while")

    def st_For(self, s, st):
        outs = []
        for r in self.ev(s.iter, st):
            if r.exc is not None:
                outs.append((r.st, ("raise", r.exc)))
                continue
            itv = r.v
            items = self.concrete_items(r.st, itv)
            if items is not None and len(items) <= 16:
                outs += self.unrolled_for(s, r.st, items)
            else:
                outs += self.loop(s, r.st, kind="for", itv=itv)
        return outs

    def unrolled_for(self, s, st, items):
        cur = [(st, None)]
        done = []
        for it in items:
            nxt = []
            for (s1, o) in cur:
                for (s2, o2) in self.assign(s.target, it, s1):
                    if o2 is not None:
                        done.append((s2, o2))
                        continue
                    for (s3, o3) in self.run_block(s.body, s2):
                        if o3 is None or o3[0] == "continue":
                            nxt.append((s3, None))
                        elif o3[0] == "break":
                            done.append((s3, ("brk",)))
                        else:
                            done.append((s3, o3))
            cur = nxt
        outs = []
        for (s1, o) in cur:
            outs += self.run_block(s.orelse, s1) if s.orelse else [(s1, None)]
        for (s1, o) in done:
            outs.append((s1, None if o == ("brk",) else o))
        return outs

    def loop(self, s, st, kind, itv=None):
        """invariant-cut loop with Houdini candidate selection"""
        from .loops import run_loop
        return run_loop(self, s, st, kind, itv)
