"""Contracts for gunicorn/http/body.py: LengthReader, EOFReader, Body (file-object semantics over an abstract reader)."""
import sys

import z3

from pyvc.contracts import contract, Contract, inline
from pyvc.smt import And, Or, Not, Implies, If, Min, Max, iv, fresh_int, I, TRUE, FALSE
from pyvc.values import SInt, SBool, SNone, NONE, SStr, STuple, Ref, HObj, HBio, HList, mk_win, qvar, SExc
from pyvc.shapes import WinShape, IntShape, ListShape
from .pmodel import (T, N, base_state, mk_unreader, u_buf, u_sp, u_pos, RI, RI_and, is_T, twin, t_window)
from .http_unreader import PARSER_PROPS

inline("gunicorn.http.body:Body.getsize")

MAXSIZE = sys.maxsize


def http_errors(env):
    m = env.repo.live("gunicorn.http.errors")
    return m


# ======================================================================================================
# LengthReader
# ======================================================================================================

def mk_length_reader(env, st, name="lr"):
    env.use_class("gunicorn.http.body", "LengthReader")
    u = mk_unreader(env, st, name + ".u")
    L0 = fresh_int(name + ".length")
    st.assume(L0 >= 0)
    return st.alloc(HObj("LengthReader", {"unreader": u, "length": SInt(L0)})), u


def lr_end(c, r, st=None):
    """absolute stream position at which the framed body ends: min(pos + length, N)"""
    st = st or c.st
    o = st.obj(r)
    return Min(u_pos(c, o.fields["unreader"], st) + o.fields["length"].t, N)


@contract("gunicorn.http.body:LengthReader.read", props=("C01", "C06", "C07"))
class LengthReaderRead(Contract):
    exact_raises = False

    def cases(self, env):
        st = base_state(env)
        r, u = mk_length_reader(env, st)
        size = z3.Int("size")
        return [("size=int", st, {"self": r, "size": SInt(size)}, {})]

    def pre(self, c):
        r = c.a["self"]
        o = c.st.obj(r)
        return list(RI(c, o.fields["unreader"])) + [("length>=0", o.fields["length"].t >= 0)]

    def modifies(self, c):
        r = c.a["self"]
        u = c.st.obj(r).fields["unreader"]
        return [("field", r, "length"), ("field", u, "g_sp"), ("obj", c.st.obj(u).fields["buf"], WinShape(T))]

    def result_shape(self, c):
        return WinShape(T)

    def raises(self, c):
        o = c.st.obj(c.a["self"])
        k = Min(o.fields["length"].t, c.a["size"].t)
        return [(ValueError, k < 0), (OSError, None, lambda c2: {"errno": SInt(fresh_int("errno"))})]

    def exc_post(self, c):
        r = c.a["self"]
        if issubclass(c.exc.cls, OSError):
            return list(RI(c, c.st.obj(r).fields["unreader"]))
        return []

    def post(self, c):
        r = c.a["self"]
        o1, o0 = c.st.obj(r), c.old.obj(r)
        u = o1.fields["unreader"]
        L0, L1 = o0.fields["length"].t, o1.fields["length"].t
        p0, p1 = u_pos(c, u, c.old), u_pos(c, u)
        k = Min(L0, c.a["size"].t)
        end0 = Min(p0 + L0, N)
        return list(RI(c, u)) + [
            ("no-ValueError-so-k>=0", k >= 0),
            ("result==T[p0:min(p0+k,N))", is_T(c.result, p0, Min(p0 + k, N))),
            ("surplus-pushed-back:pos'==p0+len(result)", p1 == p0 + c.result.length()),
            ("length'==L0-k", L1 == L0 - k),
            ("length'>=0", L1 >= 0),
            # abstract-reader view (used by Body / Parser): cursor = unreader position, end of body is a constant
            ("abs.body-end-constant", Min(p1 + L1, N) == end0),
            ("abs.empty-iff-eof-or-zero", Implies(c.a["size"].t > 0, (c.result.length() == 0) == (p0 == end0))),
        ]

    loops = {0: dict(anchor="while data", cands=[
        ("RI(unreader)", lambda L: RI_and(_C(L), _u(L), L.st)),
        ("unreader-buffer-empty", lambda L: u_buf(_C(L), _u(L), L.st).length() == 0),
        ("A:buf-starts-at-p0", lambda L: Implies(_bl(L) > 0, _bw(L)[0] == _p0(L))),
        ("B:buf-then-data", lambda L: Implies(And(_bl(L) > 0, L.data.length() > 0), _bw(L)[1] == _w0(L.data)[0])),
        ("C:data-starts-at-p0-when-buf-empty", lambda L: Implies(And(_bl(L) == 0, L.data.length() > 0), _w0(L.data)[0] == _p0(L))),
        ("D:data-ends-at-unreader-pos", lambda L: Implies(L.data.length() > 0, _w0(L.data)[1] == u_pos(_C(L), _u(L), L.st))),
        ("E:buf-ends-at-unreader-pos-when-data-empty", lambda L: Implies(And(L.data.length() == 0, _bl(L) > 0), _bw(L)[1] == u_pos(_C(L), _u(L), L.st))),
        ("F:nothing-read-yet", lambda L: Implies(And(L.data.length() == 0, _bl(L) == 0), u_pos(_C(L), _u(L), L.st) == _p0(L))),
        ("data-empty-only-at-eof", lambda L: Implies(L.data.length() == 0, u_pos(_C(L), _u(L), L.st) == N)),
        ("buffered<size", lambda L: L.st.obj(L.buf).content.length() < L.size.t),
        ("length-unchanged", lambda L: L.st.obj(L.self).fields["length"].t == L.entry.obj(L.self).fields["length"].t),
    ])}


class _C:
    def __init__(self, L):
        self.st = L.st


def _u(L):
    return L.st.obj(L.self).fields["unreader"]


def _w(s):
    w = s.single_win()
    if w is None:
        if not s.atoms:
            raise KeyError("empty")
        raise KeyError("not a window")
    return (w.lo, w.hi)


def _w0(s):
    if not s.atoms:
        return (iv(0), iv(0))
    return _w(s)


def _bl(L):
    return L.st.obj(L.buf).content.length()


def _bw(L):
    return _w0(L.st.obj(L.buf).content)


def _p0(L):
    return u_pos(_C(L), _u(L), L.fentry)


# ======================================================================================================
# abstract reader (what Body and Parser rely on) -- each concrete reader is proved to implement it
# ======================================================================================================

Bd = z3.Array("Bd", I, I)      # the framed body as a byte stream of its own (absolute cursor positions)


def mk_abstract_reader(env, st, name="rd"):
    rc, end = fresh_int(name + ".rc"), fresh_int(name + ".end")
    st.assume(0 <= rc, rc <= end)
    return st.alloc(HObj("AbstractReader", {"g_rc": SInt(rc), "g_end": SInt(end)}))


@contract("abstract:AbstractReader.read", props=("C07",))
class AbstractReaderRead(Contract):
    """ASSUMED interface of Body.reader, discharged for LengthReader (abs.* clauses above) and ChunkedReader:
    read(n>0) returns the next min(n, end-rc) bytes of the body stream -- empty iff at end; may raise what the
    framing layer raises (truncated / malformed chunked body, socket errors)."""
    trusted = True
    params = ["self", "size"]

    def pre(self, c):
        return [("size>0-or-0", c.a["size"].t >= 0)]

    def modifies(self, c):
        return [("field", c.a["self"], "g_rc")]

    def result_shape(self, c):
        return WinShape(Bd)

    def raises(self, c):
        import importlib
        errs = c.ex.env.repo.live("gunicorn.http.errors")
        return [(errs.NoMoreData, None), (errs.ChunkMissingTerminator, None), (errs.InvalidChunkSize, None), (errs.LimitRequestLine, None),
                (errs.LimitRequestHeaders, None), (errs.InvalidHeader, None), (errs.InvalidHeaderName, None),
                (OSError, None, lambda c2: {"errno": SInt(fresh_int("errno"))})]

    def exc_post(self, c):
        r = c.a["self"]
        return [("cursor-in-range", And(c.st.obj(r).fields["g_rc"].t >= c.old.obj(r).fields["g_rc"].t,
                                        c.st.obj(r).fields["g_rc"].t <= c.st.obj(r).fields["g_end"].t))]

    def post(self, c):
        r = c.a["self"]
        rc0 = c.old.obj(r).fields["g_rc"].t
        rc1 = c.st.obj(r).fields["g_rc"].t
        end = c.st.obj(r).fields["g_end"].t
        n = c.a["size"].t
        w = c.result.single_win()
        return [("next-bytes", And(w.lo == rc0, w.hi == rc1)),
                ("k==min(n,end-rc)", rc1 == Min(rc0 + n, end))]


def mk_body(env, st, name="body"):
    env.use_class("gunicorn.http.body", "Body")
    rd = mk_abstract_reader(env, st, name + ".rd")
    rc = st.obj(rd).fields["g_rc"].t
    cpos = fresh_int(name + ".c")
    st.assume(0 <= cpos, cpos <= rc)
    buf = st.alloc(HBio(mk_win(Bd, cpos, rc)))
    return st.alloc(HObj("Body", {"reader": rd, "buf": buf}))


def b_rd(st, b):
    return st.obj(b).fields["reader"]


def b_rc(st, b):
    return st.obj(b_rd(st, b)).fields["g_rc"].t


def b_end(st, b):
    return st.obj(b_rd(st, b)).fields["g_end"].t


def b_buf(st, b):
    return st.obj(st.obj(b).fields["buf"]).content


def b_cur(st, b):
    """application-visible cursor: reader cursor minus what Body has buffered"""
    return b_rc(st, b) - b_buf(st, b).length()


def RI_body(st, b):
    buf = b_buf(st, b)
    rc, end = b_rc(st, b), b_end(st, b)
    bio = st.obj(st.obj(b).fields["buf"])
    if bio.pos is not None:
        # Body uses buf.tell() as "number of buffered bytes": the stream position must be the end of the buffer
        return [("RIb.buf-positioned-at-its-end", bio.pos == buf.length()), ("RIb.bounds", And(0 <= rc, rc <= end))] + (
            [] if not buf.atoms else _ri_win(buf, rc, end))
    if not buf.atoms:
        return [("RIb.bounds", And(0 <= rc, rc <= end))]
    return _ri_win(buf, rc, end)


def _ri_win(buf, rc, end):
    w = buf.single_win()
    if w is None or not w.base.eq(Bd) or w.xf:
        return [("RIb.buf-is-body-window", FALSE)]
    return [("RIb.buf-ends-at-reader-cursor", Or(w.lo == w.hi, w.hi == rc)),
            ("RIb.bounds", And(0 <= w.lo, w.lo <= w.hi, rc <= end, 0 <= rc))]


def is_Bd(s, lo, hi):
    if not s.atoms:
        return lo == hi
    w = s.single_win()
    if w is not None and w.base.eq(Bd) and not w.xf:
        return Or(And(w.lo == lo, w.hi == hi), And(w.lo == w.hi, lo == hi))
    from pyvc.values import str_eq
    return And(lo <= hi, str_eq(mk_win(Bd, lo, hi), s))


def eff_size(sizev):
    """Body.getsize: None / negative -> sys.maxsize"""
    if isinstance(sizev, SNone):
        return iv(MAXSIZE)
    return If(sizev.t < 0, iv(MAXSIZE), sizev.t)


def nl_at(p):
    return z3.Select(Bd, p) == 10


class _BodyCases:
    def size_cases(self, env, extra=None):
        out = []
        for nm in ("size=None", "size=int"):
            st = base_state(env)
            b = mk_body(env, st)
            size = NONE if nm == "size=None" else SInt(z3.Int("size"))
            # bodies are shorter than sys.maxsize (the code uses it as 'unbounded')
            st.assume(b_end(st, b) < MAXSIZE)
            out.append((nm, st, {"self": b, "size": size}, {}))
        return out

    def pre(self, c):
        return RI_body(c.st, c.a["self"]) + [("body-shorter-than-maxsize", b_end(c.st, c.a["self"]) < MAXSIZE)]

    def modifies(self, c):
        b = c.a["self"]
        return [("field", b_rd(c.st, b), "g_rc"), ("obj", c.st.obj(b).fields["buf"], WinShape(Bd))]

    def raises(self, c):
        errs = c.ex.env.repo.live("gunicorn.http.errors")
        return [(errs.NoMoreData, None), (errs.ChunkMissingTerminator, None), (errs.InvalidChunkSize, None), (errs.LimitRequestLine, None),
                (errs.LimitRequestHeaders, None), (errs.InvalidHeader, None), (errs.InvalidHeaderName, None),
                (OSError, None, lambda c2: {"errno": SInt(fresh_int("errno"))})]


@contract("gunicorn.http.body:Body.read", props=("C07",))
class BodyRead(_BodyCases, Contract):
    def cases(self, env):
        return self.size_cases(env)

    def result_shape(self, c):
        return WinShape(Bd)

    def post(self, c):
        b = c.a["self"]
        c0, c1 = b_cur(c.old, b), b_cur(c.st, b)
        end = b_end(c.st, b)
        sz = eff_size(c.a["size"])
        return RI_body(c.st, b) + [
            ("result==Bd[c:min(c+size,end))", is_Bd(c.result, c0, Min(c0 + sz, end))),
            ("cursor-advances-by-len(result)", c1 == c0 + c.result.length()),
            ("end-unchanged", end == b_end(c.old, b)),
            ("reader-not-behind", b_rc(c.st, b) >= b_rc(c.old, b)),
        ]

    loops = {0: dict(anchor="while size > self.buf.tell()", cands=[
        ("RI(body)", lambda L: And(*[f for _, f in RI_body(L.st, L.self)])),
        ("cursor-fixed", lambda L: b_cur(L.st, L.self) == b_cur(L.fentry, L.self)),
        ("reader-monotone", lambda L: b_rc(L.st, L.self) >= b_rc(L.entry, L.self)),
    ])}


def first_nl_end(c0, lim, e):
    """e is the end of the first line of Bd[c0:lim): one past the first LF if any, else lim"""
    q = qvar("q")
    nonl = lambda a, b: z3.ForAll([q], Implies(And(a <= q, q < b), Not(nl_at(q))))
    return Or(And(c0 < e, e <= lim, nl_at(e - 1), nonl(c0, e - 1)),
              And(e == lim, nonl(c0, lim)))


@contract("gunicorn.http.body:Body.readline", props=("C07",))
class BodyReadline(_BodyCases, Contract):
    def cases(self, env):
        return self.size_cases(env)

    def result_shape(self, c):
        return WinShape(Bd)

    def post(self, c):
        b = c.a["self"]
        c0, c1 = b_cur(c.old, b), b_cur(c.st, b)
        end = b_end(c.st, b)
        sz = eff_size(c.a["size"])
        lim = Min(c0 + sz, end)
        return RI_body(c.st, b) + [
            ("result-starts-at-cursor", is_Bd(c.result, c0, c1)),
            ("result-is-first-line-within-size", first_nl_end(c0, lim, c1)),
            ("end-unchanged", end == b_end(c.old, b)),
        ]

    loops = {0: dict(anchor="while 1", types={"ret": ListShape(WinShape(Bd))}, cands=[
        ("body.buf-empty", lambda L: b_buf(L.st, L.self).length() == 0),
        ("data-ends-at-reader-cursor", lambda L: _wb(L.data)[1] == b_rc(L.st, L.self)),
        ("data-within-body", lambda L: And(_wb(L.data)[0] <= _wb(L.data)[1], b_rc(L.st, L.self) <= b_end(L.st, L.self))),
        ("end-fixed", lambda L: b_end(L.st, L.self) == b_end(L.entry, L.self)),
        ("ret-tiles-[c0,data.lo)", lambda L: _ret_tiles(L)),
        ("size==sz0-consumed", lambda L: L.size.t == _sz0(L) - (_wb(L.data)[0] - b_cur(L.fentry, L.self))),
        ("size>0", lambda L: L.size.t > 0),
        ("no-LF-before-data", lambda L: _nolf(b_cur(L.fentry, L.self), _wb(L.data)[0])),
        ("data-after-c0", lambda L: _wb(L.data)[0] >= b_cur(L.fentry, L.self)),
    ])}


def _sz0(L):
    return eff_size(L.fentry.locals["size"])


def _wb(s):
    if not s.atoms:
        return (iv(0), iv(0))
    w = s.single_win()
    if w is None or not w.base.eq(Bd):
        raise KeyError("not a body window")
    return (w.lo, w.hi)


def _nolf(a, b):
    q = qvar("q")
    return z3.ForAll([q], Implies(And(a <= q, q < b), Not(nl_at(q))))


def _seq(L, name):
    o = L.st.obj(getattr(L, name))
    if o.sym is None:
        if o.items:
            raise KeyError("concrete non-empty list")
        return None
    return o.sym


def _ret_tiles(L):
    """the pieces collected so far tile Bd[c0 : data.lo) in order"""
    c0 = b_cur(L.fentry, L.self)
    dlo = _wb(L.data)[0]
    seq = _seq(L, "ret")
    if seq is None:
        return dlo == c0
    i = qvar("i")
    lo = lambda k: seq.elem(k).single_win().lo
    hi = lambda k: seq.elem(k).single_win().hi
    n = seq.hi
    return And(seq.lo == 0, n >= 0,
               Implies(n == 0, dlo == c0),
               Implies(n > 0, And(lo(iv(0)) == c0, hi(n - 1) == dlo)),
               z3.ForAll([i], Implies(And(0 <= i, i < n), lo(i) <= hi(i))),
               z3.ForAll([i], Implies(And(0 <= i, i < n - 1), hi(i) == lo(i + 1))))


@contract("gunicorn.http.body:Body.__next__", props=("C07",))
class BodyNext(_BodyCases, Contract):
    exact_raises = True

    def cases(self, env):
        st = base_state(env)
        b = mk_body(env, st)
        st.assume(b_end(st, b) < MAXSIZE)
        return [("next", st, {"self": b}, {})]

    def result_shape(self, c):
        return WinShape(Bd)

    def raises(self, c):
        b = c.a["self"]
        return [(StopIteration, b_cur(c.st, b) == b_end(c.st, b))] + _BodyCases.raises(self, c)

    def post(self, c):
        b = c.a["self"]
        c0, c1 = b_cur(c.old, b), b_cur(c.st, b)
        end = b_end(c.st, b)
        return RI_body(c.st, b) + [
            ("result-is-next-line", And(is_Bd(c.result, c0, c1), first_nl_end(c0, end, c1), c1 > c0)),
            ("end-unchanged", end == b_end(c.old, b))]


@contract("gunicorn.http.body:Body.readlines", props=("C07",))
class BodyReadlines(_BodyCases, Contract):
    def cases(self, env):
        return self.size_cases(env)

    def result_shape(self, c):
        return ListShape(WinShape(Bd))

    def post(self, c):
        b = c.a["self"]
        c0 = b_cur(c.old, b)
        end = b_end(c.st, b)
        res = c.st.obj(c.result)
        out = RI_body(c.st, b) + [("everything-consumed", b_cur(c.st, b) == end), ("end-unchanged", end == b_end(c.old, b))]
        if res.items is not None:
            if res.items:
                return out + [("result-shape", FALSE)]
            return out + [("empty-result-iff-at-end", c0 == end)]
        seq = res.sym
        i, q = qvar("i"), qvar("q")
        lo = lambda k: seq.elem(k).single_win().lo
        hi = lambda k: seq.elem(k).single_win().hi
        n = seq.hi
        return out + [
            ("lines-tile-rest-of-body", And(seq.lo == 0, Implies(n == 0, c0 == end),
                                            Implies(n > 0, And(lo(iv(0)) == c0, hi(n - 1) == end)),
                                            z3.ForAll([i], Implies(And(0 <= i, i < n - 1), hi(i) == lo(i + 1))))),
            ("each-line-nonempty", z3.ForAll([i], Implies(And(0 <= i, i < n), lo(i) < hi(i)))),
            ("LF-only-at-line-end", z3.ForAll([i, q], Implies(And(0 <= i, i < n, lo(i) <= q, q < hi(i) - 1), Not(nl_at(q))))),
            ("all-but-last-end-with-LF", z3.ForAll([i], Implies(And(0 <= i, i < n - 1), nl_at(hi(i) - 1)))),
        ]

    loops = {0: dict(anchor="while data", types={"ret": ListShape(WinShape(Bd))}, cands=[
        ("RI(body)", lambda L: And(*[f for _, f in RI_body(L.st, L.self)])),
        ("body-fully-read", lambda L: And(b_cur(L.st, L.self) == b_end(L.st, L.self), b_buf(L.st, L.self).length() == 0)),
        ("end-fixed", lambda L: b_end(L.st, L.self) == b_end(L.entry, L.self)),
        ("data-is-tail", lambda L: Or(L.data.length() == 0, And(_wb(L.data)[1] == b_end(L.st, L.self), _wb(L.data)[0] >= b_cur(L.fentry, L.self)))),
        ("ret-tiles-prefix", lambda L: _lines_inv(L)),
    ])}


def _lines_inv(L):
    c0 = b_cur(L.fentry, L.self)
    end = b_end(L.st, L.self)
    seq = _seq(L, "ret")
    d = L.data
    dlo = If(d.length() == 0, end, _wb(d)[0]) if d.atoms else end
    if seq is None:
        return dlo == c0
    i, q = qvar("i"), qvar("q")
    lo = lambda k: seq.elem(k).single_win().lo
    hi = lambda k: seq.elem(k).single_win().hi
    n = seq.hi
    return And(seq.lo == 0, n >= 0, Implies(n == 0, dlo == c0),
               Implies(n > 0, And(lo(iv(0)) == c0, hi(n - 1) == dlo)),
               z3.ForAll([i], Implies(And(0 <= i, i < n - 1), hi(i) == lo(i + 1))),
               z3.ForAll([i], Implies(And(0 <= i, i < n), lo(i) < hi(i))),
               z3.ForAll([i, q], Implies(And(0 <= i, i < n, lo(i) <= q, q < hi(i) - 1), Not(nl_at(q)))),
               z3.ForAll([i], Implies(And(0 <= i, i < n), And(hi(i) <= end, Or(nl_at(hi(i) - 1), hi(i) == end)))),
               Implies(And(n > 0, d.length() > 0), nl_at(hi(n - 1) - 1)))
