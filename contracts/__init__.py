"""Sidecar contracts for gunicorn (no edit of /repo). PLAN: per property, the bounded stand-ins and the stated trusted base."""

COMMON_ABSTRACTIONS = [
    "extraction drops: self.log.<level>(...) calls (assumed not to touch modelled state / not to raise), docstrings, comments",
    "server hooks cfg.<hook>(...) are assumed to be the shipped no-op defaults",
    "Python ints are mathematical integers (exact); floats are treated as mathematical reals",
    "not modelled: MemoryError, RecursionError, KeyboardInterrupt / asynchronous exceptions, TypeError/AttributeError from ill-typed inputs (inputs are typed by precondition)",
    "attribute lookup is static (no monkey-patching); Config attribute reads are pure reads constrained by the validators' ranges",
    "string/bytes/regex/BytesIO stubs in pyvc/strops.py, pyvc/regex.py, pyvc/env.py model CPython semantics on latin-1 text; each is differential-tested against CPython by harness/stubtest.py",
]

PARSER_TRUSTED = [
    "byte-source model gunicorn.http.unreader:Unreader.chunk (trusted contract): next k bytes of the ghost stream T in order, 1<=k<=8192, b'' exactly at EOF, may raise OSError",
    "ghost function fcrlf(p) (first CRLF at/after p) is a definitional extension instantiated by its axiom",
    "int(x,16)/int(x) on all-digit text return hexval/decval(x) >= 0 (uninterpreted, shared by code and specification)",
]

PARSER_NOT_DECIDED = [
    "Message.parse_headers: only the from_trailer=True cases are verified deductively; the header (from_trailer=False) cases exceed the solver budget and are decided by the bounded stand-in parser_diff only",
    "Message.parse_headers: clauses 'value has no outer OWS', 'only OWS trimmed on the right', 'field size within limit', 'line starts after CRLF' and completeness of the header list (no line silently lost) are not under contract (bounded stand-in only)",
    "Transfer-Encoding element grammar (comma list, OWS, chunked last/once) inside set_body_reader is decided by the bounded stand-in; the deductive contract covers the header-level clauses (CL uniqueness/value, CL+TE, HTTP/1.0+TE)",
]

KERNEL_TRUSTED = [
    "ghost kernel model contracts/arbmodel.py + osmodel.py (ASSUMED, written from POSIX): fork() returns 0 in a child whose state is a copy, a fresh pid > 0 in the parent, or fails; "
    "kill(pid, sig) counts one delivery for an existing child (live or zombie) and fails with ESRCH otherwise; waitpid(-1, WNOHANG) returns a zombie child and removes it, (0, 0) when live children remain, ECHILD when none; "
    "time.monotonic() is a non-decreasing ghost clock; os.getpid()/getppid() read ghost values",
    "WORKERS dict model: finite map pid -> worker object with injective values and a size ghost; sorted(..., key=age) returns a permutation ordered by age",
]

PROCESS_ASSUMPTIONS = [
    "sequential semantics: a signal handler (SIGCHLD -> reap_workers) does not interleave with the function under verification; each function is verified from every state satisfying the stated invariant instead",
    "log-message arguments outside the subset are assumed pure and total",
]

SCHEDULE_NOT_DECIDED = [
    "the quantifier over schedules / interleavings / real time in the statement is NOT decided by contract-based verification: the claim is the per-function (per-step) projection, from every state satisfying the data-structure invariant; interleavings are sampled by the bounded simulation where one is listed",
]

PLAN = {
    "C01": {"harness": ["parser_diff"], "harness_checks": {"parser_diff": ["framing"]}, "trusted_base": PARSER_TRUSTED, "assumptions": COMMON_ABSTRACTIONS,
            "not_decided": PARSER_NOT_DECIDED},
    "C06": {"harness": ["parser_diff"], "harness_checks": {"parser_diff": ["segm"]}, "trusted_base": PARSER_TRUSTED, "assumptions": COMMON_ABSTRACTIONS + [
                "segmentation independence is by construction: every ensures/raises clause is a function of (T, N, start position, configuration) only; the read sizes k chosen by the byte-source model are universally quantified and occur in no postcondition"],
            "not_decided": PARSER_NOT_DECIDED},
    "C12": {"harness": ["parser_diff"], "harness_checks": {"parser_diff": ["limits", "segm"]}, "trusted_base": PARSER_TRUSTED, "assumptions": COMMON_ABSTRACTIONS,
            "not_decided": PARSER_NOT_DECIDED + ["buffer bounds for chunk-size lines and trailer blocks (no cap in the code)"]},
    "C02": {"harness": ["response_diff"], "harness_checks": {"response_diff": ["c02"]},
            "trusted_base": ["socket sink model contracts/sockmodel.py: sendall/send append exactly the given bytes to the ghost wire or raise OSError (then unusable); sendfile(f, offset, count) appends f[offset:offset+count)",
                             "application model abstract:App.__call__ (PEP 3333 well-behaved: calls start_response before returning its iterable, numeric status code); its status / headers / chunk sequence are arbitrary symbolic values",
                             "request-side persistence abstract:ReqView.should_close is a fixed boolean (Message.should_close is verified separately)",
                             "util.http_date returns text without CR/LF/NUL",
                             "rope comparison is structural (sound, incomplete): a differently decomposed but equal wire fails to verify"],
            "assumptions": COMMON_ABSTRACTIONS + ["TLS (cfg.is_ssl) not modelled", "gevent pywsgi / eventlet / gevent socket classes are outside (library code)"],
            "not_decided": ["the decoded body of a CHUNKED response equals the application output: proved per write() call (exactly one well-formed chunk carrying exactly the bytes, never an empty chunk, one terminator in close()); the whole-response statement is the induction over calls (recorded in DESIGN), checked end-to-end only by the bounded stand-in",
                            "applications that call start_response lazily from inside their iterator"]},
    "C09": {"harness": ["response_diff"], "harness_checks": {"response_diff": ["c09"]},
            "trusted_base": ["socket sink model", "util.http_date returns text without CR/LF/NUL", "regex character classes are compiled from the live pattern objects (TOKEN_RE, HEADER_VALUE_RE)"],
            "assumptions": COMMON_ABSTRACTIONS, "not_decided": []},
    "C05": {"harness": ["conn_diff"],
            "trusted_base": ["parser model contracts/workers.py:ParserModel (the parser's own contracts are C01/C06/C07): next() yields a request or raises any parser exception / StopIteration / OSError",
                             "socket sink model; html.escape / textwrap.dedent total", "application model abstract:App.__call__"],
            "assumptions": COMMON_ABSTRACTIONS + ["TLS not modelled (ssl.SSLError paths)", "asynchronous exceptions (KeyboardInterrupt at arbitrary points) not modelled"],
            "not_decided": ["gevent / eventlet worker subclasses", "content of the HTML error body (only head, Content-Length and single-line status are under contract)"]},
    "C18": {"harness": [],
            "trusted_base": ["application model", "random.randint(a, b) returns an int in [a, b]"],
            "assumptions": COMMON_ABSTRACTIONS,
            "not_decided": ["what clients observe during recycling (listen backlog)", "self.nr += 1 races between pool threads (GIL assumption)", "respawn by the master is C03"]},
    "C19": {"harness": ["response_diff"], "harness_checks": {"response_diff": ["c19"]},
            "trusted_base": ["Logger model: access() appends one record carrying resp.status / resp.sent at the time of the call; other log levels are skipped",
                             "application model"],
            "assumptions": COMMON_ABSTRACTIONS,
            "not_decided": ["single-line property of the formatted record (SafeAtoms / Logger.atoms / _get_user and logging's own formatting): not under contract",
                            "gevent pywsgi logging path"]},
    "C07": {
        "harness": ["body_diff"],
        "trusted_base": PARSER_TRUSTED + [
            "abstract reader interface abstract:AbstractReader.read (assumed for Body, discharged for LengthReader by its abs.* clauses)",
            "bodies are shorter than sys.maxsize (the code uses sys.maxsize as 'unbounded')"],
        "assumptions": COMMON_ABSTRACTIONS,
        "not_decided": ["ChunkedReader as an implementation of the abstract reader is covered by the bounded stand-in only"],
    },
    "C03": {"harness": ["arbiter_sim"], "harness_checks": {"arbiter_sim": ["c03"]},
            "trusted_base": KERNEL_TRUSTED + ["worker_class(...) (abstract:WorkerFactory.__call__): returns a NEW worker object with the given age; Worker.__init__ itself is verified under C18",
                                              "worker.init_process() inside the forked child (abstract WorkerObjInit): returns, raises or exits; Worker.init_process is verified separately against the same interface",
                                              "util._setproctitle: no effect"],
            "assumptions": COMMON_ABSTRACTIONS + PROCESS_ASSUMPTIONS,
            "not_decided": SCHEDULE_NOT_DECIDED + ["Arbiter.run's main loop and sleep()/wakeup() pipe handling are not under contract (bounded simulation only)",
                                                   "convergence ('once events stop the master converges') is a liveness statement over iterations of run(); decided per step (manage_workers restores the target in one call) and by the bounded simulation"]},
    "C04": {"harness": ["arbiter_sim"], "harness_checks": {"arbiter_sim": ["c04"]},
            "trusted_base": KERNEL_TRUSTED + ["sock._sock_type and socket close/unlink model (contracts/creds.py)", "Worker.init_signals (signal.signal / siginterrupt: C library)",
                                              "SyncWorker.handle is represented by its C05 contract (raises nothing) inside the accept/run loops"],
            "assumptions": COMMON_ABSTRACTIONS + PROCESS_ASSUMPTIONS,
            "not_decided": SCHEDULE_NOT_DECIDED + ["'every request already started is answered in full' across a TERM delivered at an arbitrary instruction: decided only as 'handle_exit raises nothing and only clears alive' + 'the sync loops leave at the next loop test'",
                                                   "gthread graceful wait for futures, gevent / eventlet workers (library event loops): not under contract",
                                                   "real-time bound 'no later than the graceful timeout': stop()'s deadline loop is verified against the virtual clock of the kernel model"]},
    "C10": {"harness": ["arbiter_sim"], "harness_checks": {"arbiter_sim": ["c03"]},
            "trusted_base": KERNEL_TRUSTED + ["sock.create_sockets (trusted; its pieces set_options / UnixSocket.bind are verified)",
                                              "Application.reload() installs a NEW Config object (abstract ArbApp; what it contains is C16)",
                                              "Pidfile is represented by a ghost object at this level (its methods are verified under C17)"],
            "assumptions": COMMON_ABSTRACTIONS + PROCESS_ASSUMPTIONS + ["cfg.env (raw_env) is empty in the reload cases", "the bind address is compared as one opaque string"],
            "not_decided": SCHEDULE_NOT_DECIDED + ["what concurrent clients observe during the hand-over (refused / reset): follows from 'no listener is closed' only under the OS's listen-queue semantics, not modelled",
                                                   "'afterwards the pool consists only of new workers' needs the retired workers to exit (liveness); proved: the pool after reload is old+new generation only, exactly the newly configured number are spawned, retirement is oldest-first and touches a new-generation worker only if every older one is retired",
                                                   "gevent / eventlet / gthread worker loops during reload"]},
    "C11": {"harness": ["arbiter_sim"], "harness_checks": {"arbiter_sim": ["c11"]},
            "trusted_base": KERNEL_TRUSTED + ["heartbeat model: worker.tmp.last_update() reads ghost K_hb[worker]; WorkerTmp.notify() (fchmod/utime) refreshes it",
                                              "select.select blocks at most its timeout and returns a sub-list of its read list or fails with an errno",
                                              "SyncWorker.handle is represented by its C05 contract inside accept()"],
            "assumptions": COMMON_ABSTRACTIONS + PROCESS_ASSUMPTIONS,
            "not_decided": SCHEDULE_NOT_DECIDED + ["real-time bound 'within the timeout plus a small bounded delay' (depends on the master's 1 s select and scheduling)",
                                                   "heartbeat discipline of the gthread / gevent / eventlet main loops (library event loops, threads): not under contract",
                                                   "the heartbeat discipline proved for the sync worker is 'a heartbeat is written between any two blocking points (select, accept+handle)'; it does not bound the duration of one request"]},
    "C14": {"harness": [],
            "trusted_base": KERNEL_TRUSTED + ["os.execvpe never returns (modelled as leaving through SystemExit with a ghost record of file, argv, environment)",
                                              "sock.create_sockets (trusted), Arbiter.init_signals (trusted: signal.signal / pipe)", "systemd.sd_notify: no effect",
                                              "Pidfile is represented by a ghost object at this level (Pidfile.create/rename/unlink verified under C17)",
                                              "os.environ is a string map with the keys the code touches tracked"],
            "assumptions": COMMON_ABSTRACTIONS + PROCESS_ASSUMPTIONS + ["Arbiter.start cases: LISTENERS empty at entry, not under systemd socket activation unless LISTEN_PID matches (inlined systemd.listen_fds)",
                                                                        "worker_class.check_config (gthread only) not modelled"],
            "not_decided": SCHEDULE_NOT_DECIDED + ["two real masters under client load (whole upgrade / rollback histories): each step (reexec, start of the child, promotion, stop's unlink rule, WINCH) is under contract, their composition over histories is not",
                                                   "the new master's sockets are 'the very same' kernel sockets: follows from fd inheritance across exec (kernel), proved: the fd numbers passed are exactly the listeners' in order and the child adopts exactly those"]},
    "C17": {"harness": [],
            "trusted_base": ["filesystem model contracts/osmodel.py (open/read, mkstemp, os.write, fdopen buffering, atomic rename, unlink; process liveness via os.kill(pid, 0))"],
            "assumptions": COMMON_ABSTRACTIONS + ["single master acting on the pid file at a time (no concurrent second start racing between validate and rename)", "small writes are complete"],
            "not_decided": ["races between two masters started at the same instant (TOCTOU between validate() and rename())", "crash points inside the C library / kernel (power loss): rename atomicity is assumed"]},
    "C20": {"harness": [],
            "trusted_base": ["credential model contracts/creds.py (POSIX setuid/setgid/initgroups semantics for a privileged process; pwd.getpwuid)",
                             "filesystem/chown/umask model for the heartbeat file and the unix socket", "util.unlink (trusted)",
                             "abstract WorkerRun (the worker's run loop) and WApp.wsgi (first application code; may raise anything)"],
            "assumptions": COMMON_ABSTRACTIONS + PROCESS_ASSUMPTIONS + ["the master runs privileged (euid 0) with saved ids equal to real ids (precondition of set_owner_process)",
                                                                        "cfg.reload (code reloader) is off in the init_process cases", "cfg.env (raw_env) empty in the init_process cases"],
            "not_decided": ["user / group NAME resolution in the config validators (validate_user / validate_group -> pwd/grp): not under contract",
                            "'every generation goes through the same spawn path' is by code structure (spawn_worker is the only fork of workers): proved for spawn_worker -> worker.init_process, not for third-party worker classes overriding init_process without calling super()",
                            "gevent / eventlet init_process overrides (they call super().init_process() - not verified)"]},
}
