"""Sidecar contracts for gunicorn (no edit of /repo). PLAN: per property, the bounded stand-ins and the stated trusted base."""

COMMON_ABSTRACTIONS = [
    "extraction drops: self.log.<level>(...) calls (assumed not to touch modelled state / not to raise), docstrings, comments",
    "server hooks cfg.<hook>(...) are assumed to be the shipped no-op defaults",
    "Python ints are mathematical integers (exact); floats are treated as mathematical reals",
    "not modelled: MemoryError, RecursionError, KeyboardInterrupt / asynchronous exceptions, TypeError/AttributeError from ill-typed inputs (inputs are typed by precondition)",
    "attribute lookup is static (no monkey-patching); Config attribute reads are pure reads constrained by the validators' ranges",
    "string/bytes/regex/BytesIO stubs in pyvc/strops.py, pyvc/regex.py, pyvc/env.py model CPython semantics on latin-1 text; each is differential-tested against CPython by harness/stubtest.py",
]

PARSER_TRUSTED = [
    "byte-source model gunicorn.http.unreader:Unreader.chunk (trusted contract): next k bytes of the ghost stream T in order, 1<=k<=8192, b'' exactly at EOF, may raise OSError",
    "ghost function fcrlf(p) (first CRLF at/after p) is a definitional extension instantiated by its axiom",
    "int(x,16)/int(x) on all-digit text return hexval/decval(x) >= 0 (uninterpreted, shared by code and specification)",
]

PARSER_NOT_DECIDED = [
    "Message.parse_headers: only the from_trailer=True cases are verified deductively; the header (from_trailer=False) cases exceed the solver budget and are decided by the bounded stand-in parser_diff only",
    "Message.parse_headers: clauses 'value has no outer OWS', 'only OWS trimmed on the right', 'field size within limit', 'line starts after CRLF' and completeness of the header list (no line silently lost) are not under contract (bounded stand-in only)",
    "Transfer-Encoding element grammar (comma list, OWS, chunked last/once) inside set_body_reader is decided by the bounded stand-in; the deductive contract covers the header-level clauses (CL uniqueness/value, CL+TE, HTTP/1.0+TE)",
]

PLAN = {
    "C01": {"harness": ["parser_diff"], "harness_checks": {"parser_diff": ["framing"]}, "trusted_base": PARSER_TRUSTED, "assumptions": COMMON_ABSTRACTIONS,
            "not_decided": PARSER_NOT_DECIDED},
    "C06": {"harness": ["parser_diff"], "harness_checks": {"parser_diff": ["segm"]}, "trusted_base": PARSER_TRUSTED, "assumptions": COMMON_ABSTRACTIONS + [
                "segmentation independence is by construction: every ensures/raises clause is a function of (T, N, start position, configuration) only; the read sizes k chosen by the byte-source model are universally quantified and occur in no postcondition"],
            "not_decided": PARSER_NOT_DECIDED},
    "C12": {"harness": ["parser_diff"], "harness_checks": {"parser_diff": ["limits", "segm"]}, "trusted_base": PARSER_TRUSTED, "assumptions": COMMON_ABSTRACTIONS,
            "not_decided": PARSER_NOT_DECIDED + ["buffer bounds for chunk-size lines and trailer blocks (no cap in the code)"]},
    "C02": {"harness": ["response_diff"], "harness_checks": {"response_diff": ["c02"]},
            "trusted_base": ["socket sink model contracts/sockmodel.py: sendall/send append exactly the given bytes to the ghost wire or raise OSError (then unusable); sendfile(f, offset, count) appends f[offset:offset+count)",
                             "application model abstract:App.__call__ (PEP 3333 well-behaved: calls start_response before returning its iterable, numeric status code); its status / headers / chunk sequence are arbitrary symbolic values",
                             "request-side persistence abstract:ReqView.should_close is a fixed boolean (Message.should_close is verified separately)",
                             "util.http_date returns text without CR/LF/NUL",
                             "rope comparison is structural (sound, incomplete): a differently decomposed but equal wire fails to verify"],
            "assumptions": COMMON_ABSTRACTIONS + ["TLS (cfg.is_ssl) not modelled", "gevent pywsgi / eventlet / gevent socket classes are outside (library code)"],
            "not_decided": ["the decoded body of a CHUNKED response equals the application output: proved per write() call (exactly one well-formed chunk carrying exactly the bytes, never an empty chunk, one terminator in close()); the whole-response statement is the induction over calls (recorded in DESIGN), checked end-to-end only by the bounded stand-in",
                            "applications that call start_response lazily from inside their iterator"]},
    "C09": {"harness": ["response_diff"], "harness_checks": {"response_diff": ["c09"]},
            "trusted_base": ["socket sink model", "util.http_date returns text without CR/LF/NUL", "regex character classes are compiled from the live pattern objects (TOKEN_RE, HEADER_VALUE_RE)"],
            "assumptions": COMMON_ABSTRACTIONS, "not_decided": []},
    "C05": {"harness": ["conn_diff"],
            "trusted_base": ["parser model contracts/workers.py:ParserModel (the parser's own contracts are C01/C06/C07): next() yields a request or raises any parser exception / StopIteration / OSError",
                             "socket sink model; html.escape / textwrap.dedent total", "application model abstract:App.__call__"],
            "assumptions": COMMON_ABSTRACTIONS + ["TLS not modelled (ssl.SSLError paths)", "asynchronous exceptions (KeyboardInterrupt at arbitrary points) not modelled"],
            "not_decided": ["gevent / eventlet worker subclasses", "content of the HTML error body (only head, Content-Length and single-line status are under contract)"]},
    "C18": {"harness": [],
            "trusted_base": ["application model", "random.randint(a, b) returns an int in [a, b]"],
            "assumptions": COMMON_ABSTRACTIONS,
            "not_decided": ["what clients observe during recycling (listen backlog)", "self.nr += 1 races between pool threads (GIL assumption)", "respawn by the master is C03"]},
    "C19": {"harness": ["response_diff"], "harness_checks": {"response_diff": ["c19"]},
            "trusted_base": ["Logger model: access() appends one record carrying resp.status / resp.sent at the time of the call; other log levels are skipped",
                             "application model"],
            "assumptions": COMMON_ABSTRACTIONS,
            "not_decided": ["single-line property of the formatted record (SafeAtoms / Logger.atoms / _get_user and logging's own formatting): not under contract",
                            "gevent pywsgi logging path"]},
    "C07": {
        "harness": ["body_diff"],
        "trusted_base": PARSER_TRUSTED + [
            "abstract reader interface abstract:AbstractReader.read (assumed for Body, discharged for LengthReader by its abs.* clauses)",
            "bodies are shorter than sys.maxsize (the code uses sys.maxsize as 'unbounded')"],
        "assumptions": COMMON_ABSTRACTIONS,
        "not_decided": ["ChunkedReader as an implementation of the abstract reader is covered by the bounded stand-in only"],
    },
}
