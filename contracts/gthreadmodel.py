"""C13 (sequential projection): gunicorn/workers/gthread.py accounting contracts.

Ghost world (connection ids are integers; the socket of connection c has the same id):
  C_open[c]   the connection's socket is open (accepted and not yet closed)
  REG[c]      its socket is registered with the poller
  KEEP[c]     it sits in the keep-alive deque;  POS[c] its position there (distinct; popleft takes the minimum)
  BUSY[c]     a handler future for it is pending
  C_timeout[c] keep-alive deadline
  nr_conns    the worker's counter.   The accounting clauses tie every change of nr_conns to exactly one accept / one close.
ASSUMED (selectors / concurrent.futures / collections.deque, written from their documentation):
  poller.register(fd) of an unregistered fd succeeds; unregister of a registered fd succeeds (KeyError / ValueError / OSError
  otherwise); deque.popleft / appendleft / append / remove have list semantics; tpool.submit returns a new pending future;
  time.time() is a non-decreasing ghost clock.
NOT MODELLED: the pool threads (finish_request runs as a done-callback in a pool thread, concurrently with the main loop).
"""
import errno as _errno

import z3

from pyvc.contracts import contract, Contract, inline
from pyvc.env import STUBS, R1, ClassModel
from pyvc.smt import And, Or, Not, Implies, If, iv, fresh_int, fresh_bool, fresh_name, I, B, R, TRUE, FALSE, const_int
from pyvc.values import (SInt, SBool, SReal, SNone, NONE, SStr, STuple, Ref, SymRef, HObj, HList, SExc, Opaque, StubV, FuncV, SArr,
                         qvar, Unsupported)
from pyvc.shapes import IntShape, BoolShape, RealShape, SymRefShape
from pyvc.state import State
from .workers import mk_worker
from .osmodel import oserror

sel = z3.Select
GH = ("C_open", "REG", "KEEP", "BUSY")


def mk_world(env, st):
    for n in GH:
        st.ghost[n] = z3.Array("g." + n, I, B)
    st.ghost["POS"] = z3.Array("g.POS", I, I)
    st.ghost["keep_n"] = z3.Int("g.keep_n")
    st.ghost["closes"] = z3.Int("g.closes")
    st.ghost["accepts"] = z3.Int("g.accepts")
    st.ghost["now"] = z3.Real("now0")
    st.ghost["double_close"] = FALSE
    a, b = qvar("a"), qvar("b")
    K, P = st.ghost["KEEP"], st.ghost["POS"]
    st.assume(st.ghost["keep_n"] >= 0,
              (st.ghost["keep_n"] == 0) == z3.ForAll([a], Not(sel(K, a))),
              z3.ForAll([a, b], Implies(And(sel(K, a), sel(K, b), a != b), sel(P, a) != sel(P, b))))
    env.symref_models["TConnObj"] = {
        "sock": lambda ex, s, ref: SymRef("CSock", ref.t), "initialized": BoolShape(), "timeout": RealShape(),
        "cfg": lambda ex, s, ref: s.ghost["cfg_ref"], "close": "TConnObj.close", "init": "TConnObj.init",
        "set_timeout": lambda ex, s, ref: FuncV("gunicorn.workers.gthread:TConn.set_timeout", ref)}
    env.symref_models["CSock"] = {"setblocking": "CSock.setblocking", "close": "CSock.close"}
    env.symref_models["FutObj"] = {"conn": SymRefShape("TConnObj"), "cancelled": "FutObj.cancelled", "result": "FutObj.result",
                                   "add_done_callback": "FutObj.add_done_callback"}
    for n, f in {"TConnObj.close": _conn_close, "TConnObj.init": _conn_init, "CSock.setblocking": _noop, "CSock.close": _noop,
                 "FutObj.cancelled": _fut_cancelled, "FutObj.result": _fut_result, "FutObj.add_done_callback": _noop,
                 "gunicorn.util.close": _util_close, "time.time": _time}.items():
        STUBS[n] = f
    env.class_models.update({"KeepDeque": KeepDeque(), "FutDeque": FutDeque(), "Poller": Poller(), "TPool": TPool(), "LockObj": ClassModel()})
    env.ctx_models["lock"] = _lock_ctx


def timeout_of(st, c):
    key = ("TConnObj", "timeout#0")
    if key not in st.cheap:
        st.cheap[key] = z3.Array("heap.TConnObj.timeout.0", I, R)
    return sel(st.cheap[key], c)


def initialized_of(st, c):
    key = ("TConnObj", "initialized#0")
    if key not in st.cheap:
        st.cheap[key] = z3.Array("heap.TConnObj.initialized.0", I, B)
    return sel(st.cheap[key], c)


def _noop(ex, st, self_v, args, kwargs, node):
    return R1(ex, st, NONE)


def _time(ex, st, self_v, args, kwargs, node):
    t = z3.Real(fresh_name("now"))
    st.assume(t >= st.ghost["now"])
    st.ghost["now"] = t
    return R1(ex, st, SReal(t))


def _lock_ctx(kind, ex, st, cmv, outcome):
    if isinstance(cmv, Ref) and isinstance(st.obj(cmv), HObj) and st.obj(cmv).cls == "LockObj":
        if kind == "enter":
            return [ex.res(st, cmv)]
        return [(st, outcome)]
    return None


def close_conn(st, c):
    """the socket of connection c is closed: must be open (else a double close) """
    st.ghost["double_close"] = Or(st.ghost["double_close"], Not(sel(st.ghost["C_open"], c)))
    st.ghost["busy_close"] = Or(st.ghost.get("busy_close", FALSE), sel(st.ghost["BUSY"], c))
    st.ghost["C_open"] = z3.Store(st.ghost["C_open"], c, z3.BoolVal(False))
    st.ghost["closes"] = st.ghost["closes"] + 1


def _conn_close(ex, st, self_v, args, kwargs, node):
    close_conn(st, self_v.t)
    return R1(ex, st, NONE)


def _util_close(ex, st, self_v, args, kwargs, node):
    s = args[0]
    if isinstance(s, SymRef):
        close_conn(st, s.t)
        return R1(ex, st, NONE)
    raise Unsupported("util.close(%r)" % (s,))


def _conn_init(ex, st, self_v, args, kwargs, node):
    ex.env.symref_set(ex, st, self_v, "initialized", SBool(True))
    return R1(ex, st, NONE)


def _fut_cancelled(ex, st, self_v, args, kwargs, node):
    return R1(ex, st, SBool(z3.Bool("fut.cancelled")))


def _fut_result(ex, st, self_v, args, kwargs, node):
    """fs.result(): (keepalive, conn) as returned by ThreadWorker.handle (its contract: C05), or the exception it raised"""
    conn = ex.env.symref_get(ex, st, self_v, "conn")
    bad = st.fork()
    return [ex.res(st, STuple([SBool(z3.Bool("fut.keepalive")), conn])), ex.res_exc(bad, SExc(RuntimeError))]


class KeepDeque(ClassModel):
    def call(self, ex, st, self_v, meth, args, kwargs, node):
        g = st.ghost
        if meth in ("append", "appendleft"):
            c = args[0].t
            a = qvar("a")
            p = fresh_int("pos")
            st.assume(z3.ForAll([a], Implies(sel(g["KEEP"], a), (sel(g["POS"], a) < p) if meth == "append" else (sel(g["POS"], a) > p))))
            g["dup_keep"] = Or(g.get("dup_keep", FALSE), sel(g["KEEP"], c))
            g["KEEP"] = z3.Store(g["KEEP"], c, z3.BoolVal(True))
            g["POS"] = z3.Store(g["POS"], c, p)
            g["keep_n"] = g["keep_n"] + 1
            return [ex.res(st, NONE)]
        if meth == "popleft":
            out = []
            e, ne = ex.split(st, g["keep_n"] == 0)
            if e is not None:
                out.append(ex.res_exc(e, SExc(IndexError)))
            if ne is not None:
                g = ne.ghost
                c = fresh_int("leftmost")
                a = qvar("a")
                ne.assume(sel(g["KEEP"], c), z3.ForAll([a], Implies(And(sel(g["KEEP"], a), a != c), sel(g["POS"], a) > sel(g["POS"], c))))
                g["KEEP"] = z3.Store(g["KEEP"], c, z3.BoolVal(False))
                g["keep_n"] = g["keep_n"] - 1
                ne.assume(g["keep_n"] >= 0, (g["keep_n"] == 0) == z3.ForAll([a], Not(sel(g["KEEP"], a))))
                out.append(ex.res(ne, SymRef("TConnObj", c)))
            return out
        if meth == "remove":
            c = args[0].t
            out = []
            inn, notin = ex.split(st, sel(g["KEEP"], c))
            if inn is not None:
                gi = inn.ghost
                a = qvar("a")
                gi["KEEP"] = z3.Store(gi["KEEP"], c, z3.BoolVal(False))
                gi["keep_n"] = gi["keep_n"] - 1
                inn.assume(gi["keep_n"] >= 0, (gi["keep_n"] == 0) == z3.ForAll([a], Not(sel(gi["KEEP"], a))))
                out.append(ex.res(inn, NONE))
            if notin is not None:
                out.append(ex.res_exc(notin, SExc(ValueError)))
            return out
        return None


class FutDeque(ClassModel):
    def call(self, ex, st, self_v, meth, args, kwargs, node):
        if meth == "append":
            st.ghost["fut_appended"] = st.ghost.get("fut_appended", iv(0)) + 1
            return [ex.res(st, NONE)]
        if meth == "remove":
            return [ex.res(st, NONE)]
        return None


class Poller(ClassModel):
    def call(self, ex, st, self_v, meth, args, kwargs, node):
        g = st.ghost
        if meth == "register":
            fd = args[0]
            if not isinstance(fd, SymRef):
                return [ex.res(st, NONE)]          # listener sockets: not tracked
            g["double_register"] = Or(g.get("double_register", FALSE), sel(g["REG"], fd.t))
            g["REG"] = z3.Store(g["REG"], fd.t, z3.BoolVal(True))
            return [ex.res(st, NONE)]
        if meth == "unregister":
            fd = args[0]
            out = []
            ok, bad = ex.split(st, sel(g["REG"], fd.t))
            if ok is not None:
                ok.ghost["REG"] = z3.Store(ok.ghost["REG"], fd.t, z3.BoolVal(False))
                out.append(ex.res(ok, NONE))
            if bad is not None:
                b2, b3 = bad.fork(), bad.fork()
                out += [ex.res_exc(bad, SExc(KeyError)), ex.res_exc(b2, SExc(ValueError)), ex.res_exc(b3, oserror(_errno.EBADF))]
            return out
        if meth == "close":
            return [ex.res(st, NONE)]
        return None


class TPool(ClassModel):
    def call(self, ex, st, self_v, meth, args, kwargs, node):
        if meth == "submit":
            conn = args[1]
            f = fresh_int("future")
            fut = SymRef("FutObj", f)
            st.ghost["BUSY"] = z3.Store(st.ghost["BUSY"], conn.t, z3.BoolVal(True))
            st.ghost["submitted"] = st.ghost.get("submitted", iv(0)) + 1
            st.ghost["last_submitted"] = conn.t
            return [ex.res(st, fut)]
        if meth == "shutdown":
            cf = kwargs.get("cancel_futures", args[1] if len(args) > 1 else SBool(False))
            st.ghost["pool_cancelled_pending"] = Or(st.ghost.get("pool_cancelled_pending", FALSE), ex.truth(cf, st))
            st.ghost["pool_shutdowns"] = st.ghost.get("pool_shutdowns", iv(0)) + 1
            st.ghost["loop_left"] = True          # the main loop is over: the final wait for running handlers is not a heartbeat gap
            return [ex.res(st, NONE)]
        return None


def mk_tworker(env, st):
    mk_world(env, st)
    nr, wc = z3.Int("self.nr_conns"), z3.Int("self.worker_connections")
    st.assume(nr >= 0, wc >= 1)
    w, log = mk_worker(env, st, "ThreadWorker", "gunicorn.workers.gthread",
                       nr_conns=SInt(nr), worker_connections=SInt(wc), _keep=st.alloc(HObj("KeepDeque", {})),
                       futures=st.alloc(HObj("FutDeque", {})), poller=st.alloc(HObj("Poller", {})), tpool=st.alloc(HObj("TPool", {})),
                       _lock=st.alloc(HObj("LockObj", {})))
    env.use_class("gunicorn.workers.gthread", "TConn")
    st.ghost["cfg_ref"] = st.obj(w).fields["cfg"]
    return w


def ghost_same(c, names):
    return And(*[c.st.ghost[n] == c.old.ghost[n] for n in names])
