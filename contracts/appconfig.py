"""C16: configuration sources are merged in the documented order of authority.

Abstract world (ghost, ASSUMED where marked):
  setting names are abstract ids (CfgName);  known(k): k is a key of cfg.settings;  ARGS: the argparse dest 'args'
  lower(k): k.lower()              (ASSUMED: setting names are lower case: known(k) -> lower(k) == k; checked exhaustively on
                                    KNOWN_SETTINGS by the bounded stand-in config_diff)
  valid(k, v) / norm(k, v): the validator of setting k accepts value v / its normalised value (uninterpreted: ANY validators)
  the effective value of setting k is heap.Setting.value[k]  (the `value` attribute of the Setting object stored under k)
Sources are key/value item sequences with pairwise distinct keys:
  cli  = vars(parser.parse_args())                 values None when the option was not given
  env  = vars(parser.parse_args(GUNICORN_CMD_ARGS))  (ASSUMED: argparse yields None for an option that is not mentioned: every
         Setting.add_option passes default=None - checked exhaustively by config_diff)
  file = the dict a configuration file / module evaluates to (arbitrary names, unknown ones ignored)
  fw   = the dict Application.init() returns (framework defaults; lower-cased before use)
"""
import z3

from pyvc.contracts import contract, Contract, inline
from pyvc.env import STUBS, R1, ClassModel
from pyvc.smt import And, Or, Not, Implies, If, iv, fresh_int, fresh_bool, fresh_name, I, B, TRUE, FALSE
from pyvc.values import (SInt, SBool, SNone, NONE, SStr, STuple, Ref, SymRef, HObj, HList, HDict, SExc, Opaque, SOpt, SymSeqA,
                         StubV, FuncV, qvar, Unsupported)
from pyvc.shapes import IntShape, BoolShape, TupleShape, SymRefShape, OptionShape
from pyvc.state import State
from pyvc import strops

lower = z3.Function("cfgname.lower", I, I)
known = z3.Function("cfg.known", I, B)
valid = z3.Function("cfg.valid", I, I, B)
norm = z3.Function("cfg.norm", I, I, I)
ARGS = z3.Int("cfgname.args")
sel = z3.Select


class ValidatorError(Exception):
    """synthetic: whatever a validator raises for a value it rejects (ValueError / TypeError / ConfigError)"""


def VAL(st):
    key = ("Setting", "value#0")
    if key not in st.cheap:
        st.cheap[key] = z3.Array("heap.Setting.value.0", I, I)
    return st.cheap[key]


def _name_lower(ex, st, self_v, args, kwargs, node):
    return R1(ex, st, SymRef("CfgName", lower(self_v.t)))


def _validator(ex, st, self_v, args, kwargs, node):
    """self.validator(val): returns the normalised value or raises"""
    k, v = self_v.t, args[0]
    if not isinstance(v, SInt):
        raise Unsupported("validator applied to %r" % (v,))
    ok, bad = ex.split(st, valid(k, v.t))
    out = []
    if ok is not None:
        out.append(ex.res(ok, SInt(norm(k, v.t))))
    if bad is not None:
        out.append(ex.res_exc(bad, SExc(ValidatorError)))
    return out


def _callable(ex, st, self_v, args, kwargs, node):
    return R1(ex, st, SBool(isinstance(args[0], StubV)))


class SettingsKeys(ClassModel):
    """cfg.settings: name -> Setting object; membership is known(name); the object stored under k is Setting#k"""

    def contains(self, ex, st, ref, o, item):
        if not isinstance(item, SymRef):
            raise Unsupported("settings membership of %r" % (item,))
        return known(item.t)

    def getitem(self, ex, st, ref, o, key):
        ok, bad = ex.split(st, known(key.t))
        out = []
        if ok is not None:
            out.append(ex.res(ok, SymRef("Setting", key.t)))
        if bad is not None:
            out.append(ex.res_exc(bad, SExc(KeyError)))
        return out


def install(env, st):
    env.symref_models["CfgName"] = {"lower": "CfgName.lower"}
    env.symref_models["Setting"] = {"validator": lambda ex, s, ref: StubV("Setting.validator", ref), "value": IntShape(),
                                    "name": lambda ex, s, ref: Opaque("setting-name"),
                                    "set": lambda ex, s, ref: FuncV("gunicorn.config:Setting.set", ref)}
    STUBS["CfgName.lower"] = _name_lower
    STUBS["Setting.validator"] = _validator
    STUBS["callable"] = _callable
    env.class_models["SettingsKeys"] = SettingsKeys()
    env.symref_lits = getattr(env, "symref_lits", {})
    env.symref_lits["CfgName"] = lambda lit: ARGS if lit == "args" else z3.Int("cfgname.lit." + lit)
    k = qvar("k")
    st.assume(z3.ForAll([k], Implies(known(k), lower(k) == k)), Not(known(ARGS)))
    VAL(st)


# ======================================================================================================
# Setting.set / Config.set
# ======================================================================================================
@contract("gunicorn.config:Setting.set", props=("C16",))
class SettingSet(Contract):
    """the new value is the validator's normalisation of the given value; a rejected value raises and changes nothing"""

    def cases(self, env):
        st = State()
        install(env, st)
        env.use_class("gunicorn.config", "Setting")
        return [("set", st, {"self": SymRef("Setting", z3.Int("k")), "val": SInt(z3.Int("v"))}, {})]

    def modifies(self, c):
        return [("cheap", "Setting", "value")]

    def raises(self, c):
        return [(ValidatorError, Not(valid(c.a["self"].t, c.a["val"].t)))]

    exact_raises = True

    def exc_post(self, c):
        return [("rejected-value-changes-nothing", VAL(c.st) == VAL(c.old))]

    def post(self, c):
        k, v = c.a["self"].t, c.a["val"].t
        kk = qvar("kk")
        return [("only-an-accepted-value-is-stored", valid(k, v)),
                ("stored-value-is-the-normalised-value", sel(VAL(c.st), k) == norm(k, v)),
                ("no-other-setting-changes", z3.ForAll([kk], Implies(kk != k, sel(VAL(c.st), kk) == sel(VAL(c.old), kk))))]


def mk_cfg16(env, st):
    env.use_class("gunicorn.config", "Config")
    env.class_models.pop("Config", None)
    return st.alloc(HObj("Config", {"settings": st.alloc(HObj("SettingsKeys", {}))}))


@contract("gunicorn.config:Config.set", props=("C16",))
class ConfigSet(Contract):
    def cases(self, env):
        st = State()
        install(env, st)
        cfg = mk_cfg16(env, st)
        return [("set", st, {"self": cfg, "name": SymRef("CfgName", z3.Int("k")), "value": SInt(z3.Int("v"))}, {})]

    def modifies(self, c):
        return [("cheap", "Setting", "value")]

    def raises(self, c):
        k, v = c.a["name"].t, c.a["value"].t
        return [(AttributeError, Not(known(k))), (ValidatorError, And(known(k), Not(valid(k, v))))]

    exact_raises = True

    def exc_post(self, c):
        return [("failed-set-changes-nothing", VAL(c.st) == VAL(c.old))]

    def post(self, c):
        k, v = c.a["name"].t, c.a["value"].t
        kk = qvar("kk")
        return [("known-name-and-accepted-value", And(known(k), valid(k, v))),
                ("stored-value-is-the-normalised-value", sel(VAL(c.st), k) == norm(k, v)),
                ("no-other-setting-changes", z3.ForAll([kk], Implies(kk != k, sel(VAL(c.st), kk) == sel(VAL(c.old), kk))))]


# ======================================================================================================
# sources
# ======================================================================================================
class Source:
    """an item sequence (key, value) with distinct keys + its ghost index: mention[k] / val[k] / idx[k]"""

    def __init__(self, st, tag, optional, lowered=False, dests=False):
        self.tag = tag
        self.n = z3.Int("src.%s.n" % tag)
        self.key = z3.Array("src.%s.key" % tag, I, I)
        self.v = z3.Array("src.%s.val" % tag, I, I)
        self.some = z3.Array("src.%s.some" % tag, I, B) if optional else None
        self.mention = z3.Array("src.%s.mention" % tag, I, B)
        self.val = z3.Array("src.%s.valof" % tag, I, I)
        self.idx = z3.Array("src.%s.idx" % tag, I, I)
        self.lowered = lowered
        j, k = qvar("j"), qvar("k")
        eff = (lambda x: lower(x)) if lowered else (lambda x: x)
        somej = sel(self.some, j) if optional else TRUE
        inr = And(0 <= j, j < self.n)
        st.assume(self.n >= 0,
                  z3.ForAll([j], Implies(inr, And(sel(self.idx, eff(sel(self.key, j))) == j,
                                                  sel(self.mention, eff(sel(self.key, j))) == (And(somej, sel(self.key, j) != ARGS) if dests else somej),
                                                  sel(self.val, eff(sel(self.key, j))) == sel(self.v, j)))),
                  z3.ForAll([k], Implies(sel(self.mention, k), And(0 <= sel(self.idx, k), sel(self.idx, k) < self.n,
                                                                   eff(sel(self.key, sel(self.idx, k))) == k))))
        if dests:
            # ASSUMED (argparse): every dest of the parser is a setting name or 'args'
            st.assume(z3.ForAll([j], Implies(inr, Or(sel(self.key, j) == ARGS, known(sel(self.key, j))))))
        vshape = OptionShape(IntShape()) if optional else IntShape()
        arrays = [self.key] + ([self.some, self.v] if optional else [self.v])
        self.seq = SymSeqA(iv(0), self.n, arrays, TupleShape([SymRefShape("CfgName"), vshape]))

    def items(self, st):
        return st.alloc(HList(sym=self.seq))

    def applied(self, i, k):
        """setting k was mentioned by one of the first i items"""
        return And(sel(self.mention, k), sel(self.idx, k) < i)


class ItemsModel(ClassModel):
    """dict-like objects whose items() is a Source sequence (vars(namespace), the file dict, the framework dict)"""

    def truth(self, ex, st, ref, o):
        return o.fields["g_src"].n > 0

    def call(self, ex, st, self_v, meth, args, kwargs, node):
        o = st.obj(self_v)
        if meth == "items":
            return [ex.res(st, o.fields["g_src"].items(st))]
        return None


def _vars(ex, st, self_v, args, kwargs, node):
    o = st.obj(args[0])
    if isinstance(o, HObj) and "g_vars" in o.fields:
        return R1(ex, st, o.fields["g_vars"])
    raise Unsupported("vars(%r)" % (args[0],))


def mk_itemsobj(env, st, src):
    env.class_models["ItemsObj"] = ItemsModel()
    return st.alloc(HObj("ItemsObj", {"g_src": src}))


def after_source(src, before, k):
    """value of setting k after the whole source was applied on top of `before`"""
    return If(sel(src.mention, k), norm(k, sel(src.val, k)), before)


# ======================================================================================================
# Application.load_config_from_module_name_or_filename
# ======================================================================================================
class _AppBase(Contract):
    def world(self, env):
        st = State()
        install(env, st)
        STUBS["vars"] = _vars
        env.use_class("gunicorn.app.base", "Application")
        env.use_class("gunicorn.app.base", "BaseApplication")
        cfg = mk_cfg16(env, st)
        app = st.alloc(HObj("Application", {"cfg": cfg}))
        return st, app, cfg


def _file_loader(ex, st, self_v, args, kwargs, node):
    """get_config_from_filename / get_config_from_module_name (importlib + exec of the file): TRUSTED: returns the dict the
    file evaluates to, or leaves through SystemExit / RuntimeError / ImportError"""
    d = st.ghost["file_dict"]
    b1, b2 = st.fork(), st.fork()
    return [ex.res(st, d), ex.res_exc(b1, SExc(SystemExit, (SInt(1),), {"code": SInt(1)})), ex.res_exc(b2, SExc(RuntimeError))]


@contract("gunicorn.app.base:Application.load_config_from_module_name_or_filename", props=("C16",))
class LoadFromFile(_AppBase):
    """every KNOWN name of the file is set (normalised), unknown names are ignored, nothing else changes; a rejected value
    propagates (startup stops) - it is never swallowed"""

    def cases(self, env):
        st, app, cfg = self.world(env)
        src = Source(st, "file", optional=False)
        st.ghost["file_dict"] = mk_itemsobj(env, st, src)
        o = st.obj(app)
        o.fields["get_config_from_filename"] = StubV("app.file_loader", app)
        o.fields["get_config_from_module_name"] = StubV("app.file_loader", app)
        STUBS["app.file_loader"] = _file_loader
        loc = strops.fresh_str(st, "location", True, canonical=True)
        return [("file", st, {"self": app, "location": loc}, {"src": src})]

    def modifies(self, c):
        return [("cheap", "Setting", "value")]

    def raises(self, c):
        return [(ValidatorError, None), (SystemExit, None), (RuntimeError, None)]

    def effects(self, c):
        if "file_sources" in c.st.ghost:
            c.st.ghost["file_used"] = c.st.ghost["file_sources"][id_of(c.a["location"])][0]

    def _src(self, c):
        if "src" in c.g:
            return c.g["src"]
        return c.st.ghost["file_sources"][id_of(c.a["location"])][1]

    def post(self, c):
        src = self._src(c)
        k, j = qvar("k"), qvar("j")
        v1, v0 = VAL(c.st), VAL(c.old)
        eff = lambda kk: And(sel(src.mention, kk), known(kk))
        return [("known-names-of-the-file-are-set,everything-else-untouched",
                 z3.ForAll([k], sel(v1, k) == If(eff(k), norm(k, sel(src.val, k)), sel(v0, k)))),
                ("every-value-taken-from-the-file-was-accepted-by-its-validator",
                 z3.ForAll([k], Implies(eff(k), valid(k, sel(src.val, k)))))]

    loops = {0: dict(anchor="for k, v in cfg.items()", cands=[
        ("applied-prefix", lambda L: _prefix_inv(L, L.g["src"], need_known=True)),
        ("accepted-prefix", lambda L: _valid_inv(L, L.g["src"], need_known=True)),
    ])}


def id_of(s):
    return tuple(repr(a) for a in s.atoms) if isinstance(s, SStr) else repr(s)


def _prefix_inv(L, src, need_known=False, base=None):
    k = qvar("k")
    v1 = VAL(L.st)
    v0 = base if base is not None else VAL(L.entry)
    cond = lambda kk: And(src.applied(L.loop_index, kk), known(kk)) if need_known else src.applied(L.loop_index, kk)
    return z3.ForAll([k], sel(v1, k) == If(cond(k), norm(k, sel(src.val, k)), sel(v0, k)))


def _valid_inv(L, src, need_known=False):
    k = qvar("k")
    cond = lambda kk: And(src.applied(L.loop_index, kk), known(kk)) if need_known else src.applied(L.loop_index, kk)
    return z3.ForAll([k], Implies(cond(k), valid(k, sel(src.val, k))))


# ======================================================================================================
# Application.load_config
# ======================================================================================================
inline("gunicorn.app.base:Application.load_config_from_file")


class ParserModel16(ClassModel):
    def call(self, ex, st, self_v, meth, args, kwargs, node):
        o = st.obj(self_v)
        if meth == "parse_args":
            bad = st.fork()
            ns = o.fields["g_cli"] if not args else o.fields["g_env"]
            return [ex.res(st, ns), ex.res_exc(bad, SExc(SystemExit, (SInt(2),), {"code": SInt(2)}))]
        return None


def _cfg_parser(ex, st, self_v, args, kwargs, node):
    return R1(ex, st, st.ghost["parser"])


def _cmd_args_env(ex, st, self_v, args, kwargs, node):
    return R1(ex, st, st.alloc(HList([Opaque("GUNICORN_CMD_ARGS")])))


def _app_init(ex, st, self_v, args, kwargs, node):
    """Application.init(parser, opts, args): framework defaults as a dict, or None (ABSTRACT: subclass hook; which of the two
    is fixed per case), or it stops the process"""
    bad = st.fork()
    return [ex.res(st, st.ghost["fw_dict"] if st.ghost["fw_used"] else NONE), ex.res_exc(bad, SExc(SystemExit, (SInt(1),), {"code": SInt(1)}))]


def _noop(ex, st, self_v, args, kwargs, node):
    return R1(ex, st, NONE)


def _default_cfgfile(ex, st, self_v, args, kwargs, node):
    none = st.fork()
    return [ex.res(st, st.ghost["default_location"]), ex.res(none, NONE)]


@contract("gunicorn.config:get_default_config_file", props=("C16",))
class DefaultConfigFile(Contract):
    """TRUSTED: './gunicorn.conf.py' if it exists, else None"""
    trusted = True

    def result_shape(self, c):
        return SOpt(z3.Bool(fresh_name("default.cfg.exists")), c.st.ghost["default_location"])


@contract("gunicorn.app.base:Application.load_config", props=("C16",))
class LoadConfig(_AppBase):
    """final value of EVERY setting = command line over GUNICORN_CMD_ARGS over the configuration file (the one named on the
    command line, else the one named in GUNICORN_CMD_ARGS, else the default file if it exists) over the framework defaults
    over what it was before; each after that setting's normalisation; every applied value was accepted by its validator
    (otherwise load_config does not return)"""
    weight = 5
    parallel_cases = 6

    def cases(self, env):
        out = []
        for which, use_fw in [(w, f) for w in ("cli-config", "env-config", "default-or-none") for f in (True, False)]:
            st, app, cfg = self.world(env)
            st.ghost["fw_used"] = use_fw
            env.class_models["ArgParser16"] = ParserModel16()
            cli = Source(st, "cli", optional=True, dests=True)
            envs = Source(st, "env", optional=True, dests=True)
            fw = Source(st, "fw", optional=False, lowered=True)
            files = {}
            locs = {}
            for t in ("cli", "env", "default"):
                if t != {"cli-config": "cli", "env-config": "env", "default-or-none": "default"}[which]:
                    continue             # only the file this case can load gets a source (keeps the hypothesis set small)
                files[t] = Source(st, "file_" + t, optional=False)
                locs[t] = strops.fresh_str(st, "location." + t, True, canonical=True)
                st.assume(locs[t].length() > 0)
            st.ghost["file_sources"] = {id_of(locs[t]): (t, files[t]) for t in files}
            st.ghost["file_used"] = None
            for t in ("cli", "env", "default"):
                if t not in locs:
                    locs[t] = strops.fresh_str(st, "location." + t, True, canonical=True)
            mkns = lambda src, conf: st.alloc(HObj("Namespace", {"g_vars": mk_itemsobj(env, st, src), "config": conf, "args": Opaque("positional")}))
            ns_cli = mkns(cli, locs["cli"] if which == "cli-config" else NONE)
            ns_env = mkns(envs, locs["env"] if which == "env-config" else (NONE if which == "default-or-none" else SOpt(z3.Bool("env.has_config"), locs["env"])))
            if which == "cli-config":
                st.obj(ns_env).fields["config"] = SOpt(z3.Bool("env.has_config"), locs["env"])
            st.ghost["parser"] = st.alloc(HObj("ArgParser16", {"g_cli": ns_cli, "g_env": ns_env}))
            st.ghost["fw_dict"] = mk_itemsobj(env, st, fw)
            st.ghost["default_location"] = locs["default"]
            o = st.obj(app)
            o.fields["init"] = StubV("app.init", app)
            o.fields["chdir"] = StubV("app.chdir", app)
            c = st.obj(cfg)
            c.fields["parser"] = StubV("cfg.parser16", cfg)
            c.fields["get_cmd_args_from_env"] = StubV("cfg.cmd_args_env", cfg)
            STUBS.update({"app.init": _app_init, "app.chdir": _noop, "cfg.parser16": _cfg_parser, "cfg.cmd_args_env": _cmd_args_env,
                          "gunicorn.app.base.get_default_config_file": _default_cfgfile})
            out.append(("%s,framework-defaults=%s" % (which, use_fw), st, {"self": app}, {"cli": cli, "env": envs, "fw": fw, "files": files, "which": which}))
        return out

    def raises(self, c):
        return [(ValidatorError, None), (AttributeError, None), (SystemExit, None), (RuntimeError, None)]

    def post(self, c):
        g = c.g
        k = qvar("k")
        v1, v0 = VAL(c.st), VAL(c.old)
        fw_used = c.st.ghost.get("fw_used")
        file_used = c.st.ghost.get("file_used")       # tag of the file source that was loaded, or None
        cli, envs, fw = g["cli"], g["env"], g["fw"]

        def layer_fw(kk, before):
            return after_source(fw, before, kk) if fw_used else before

        def layer_file(kk, before):
            if file_used is None:
                return before
            f = g["files"][file_used]
            return If(And(sel(f.mention, kk), known(kk)), norm(kk, sel(f.val, kk)), before)

        final = lambda kk: after_source(cli, after_source(envs, layer_file(kk, layer_fw(kk, sel(v0, kk))), kk), kk)
        out = [("every-setting:command-line-over-GUNICORN_CMD_ARGS-over-config-file-over-framework-defaults-over-previous-value",
                z3.ForAll([k], sel(v1, k) == final(k))),
               ("every-command-line-value-was-accepted", z3.ForAll([k], Implies(sel(cli.mention, k), valid(k, sel(cli.val, k))))),
               ("every-GUNICORN_CMD_ARGS-value-was-accepted", z3.ForAll([k], Implies(sel(envs.mention, k), valid(k, sel(envs.val, k)))))]
        want = {"cli-config": "cli"}.get(g["which"])
        if g["which"] == "cli-config":
            out.append(("the-file-named-on-the-command-line-is-the-one-loaded", TRUE if file_used == "cli" else FALSE))
        elif g["which"] == "env-config":
            out.append(("else-the-file-named-in-GUNICORN_CMD_ARGS", TRUE if file_used == "env" else FALSE))
        else:
            out.append(("else-the-default-file-if-any", TRUE if file_used in ("default", None) else FALSE))
        return out

    loops = {0: dict(anchor="for k, v in cfg.items()", cands=[
        ("applied-prefix", lambda L: _prefix_inv(L, L.g["fw"])),
    ]), 1: dict(anchor="for k, v in vars(env_args).items()", cands=[
        ("applied-prefix", lambda L: _prefix_inv(L, L.g["env"])),
        ("accepted-prefix", lambda L: _valid_inv(L, L.g["env"])),
    ]), 2: dict(anchor="for k, v in vars(args).items()", cands=[
        ("applied-prefix", lambda L: _prefix_inv(L, L.g["cli"])),
        ("accepted-prefix", lambda L: _valid_inv(L, L.g["cli"])),
    ])}
