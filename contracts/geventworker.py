"""C04 / C10 for the gevent worker: the graceful drain loop of GeventWorker.run.

gevent is not installed in this sandbox: gunicorn/workers/ggevent.py cannot be imported, so its module-level names are bound
here to ABSTRACT models (ASSUMED from the gevent documentation):
  Pool(n)            : a greenlet pool of size n; free_count() is how many slots are free NOW (any value 0..n, changes
                       whenever the hub runs); a pool is idle iff free_count() == size
  StreamServer(sock, handle=, spawn=pool): a server whose .pool is that pool; start() / close() / stop(timeout=)
  gevent.sleep(s)    : yields to the hub (the pools' occupancy may change), time advances
The real body of run() is executed symbolically; the loops over `servers` are unrolled for two listeners.
"""
import functools

import z3

from pyvc.contracts import contract, Contract, inline
from pyvc.env import STUBS, R1, ClassModel
from pyvc.smt import And, Or, Not, Implies, If, iv, fresh_int, fresh_bool, fresh_name, I, B, R, TRUE, FALSE
from pyvc.values import (SInt, SBool, SReal, SNone, NONE, SStr, STuple, Ref, HObj, HList, SExc, Opaque, StubV, ModV, ClassV, Unsupported)
from pyvc.state import State
from .workers import mk_worker

MOD = "gunicorn.workers.ggevent"


class GPool(ClassModel):
    def call(self, ex, st, self_v, meth, args, kwargs, node):
        o = st.obj(self_v)
        if meth == "free_count":
            k = o.fields["g_k"]
            f = fresh_int("free%d" % k)
            st.assume(f >= 0, f <= o.fields["size"].t)
            st.ghost["idle_seen_%d" % k] = (f == o.fields["size"].t)       # what the worker saw when it last looked at this pool
            st.ghost["looks_%d" % k] = st.ghost["looks_%d" % k] + 1
            return [ex.res(st, SInt(f))]
        return None


class GServer(ClassModel):
    def hasattr(self, ex, st, ref, o, name):
        return name in ("close", "stop", "start", "pool")

    def call(self, ex, st, self_v, meth, args, kwargs, node):
        o = st.obj(self_v)
        k = o.fields["g_k"]
        if meth == "start":
            return [ex.res(st, NONE)]
        if meth == "close":
            st.ghost["closed_%d" % k] = TRUE
            return [ex.res(st, NONE)]
        if meth == "stop":
            st.ghost["stopped_%d" % k] = TRUE
            return [ex.res(st, NONE)]
        return None


def _ctor_pool(ex, st, self_v, args, kwargs, node):
    k = st.ghost["npools"]
    st.ghost["npools"] = k + 1
    size = args[0]
    for g in ("idle_seen_%d" % k,):
        st.ghost[g] = z3.Bool(fresh_name(g))
    st.ghost["looks_%d" % k] = iv(0)
    return R1(ex, st, st.alloc(HObj("GPool", {"size": size, "g_k": k})))


def _ctor_server(ex, st, self_v, args, kwargs, node):
    pool = kwargs["spawn"]
    k = st.obj(pool).fields["g_k"]
    st.ghost["closed_%d" % k] = FALSE
    st.ghost["stopped_%d" % k] = FALSE
    return R1(ex, st, st.alloc(HObj("GServer", {"pool": pool, "g_k": k, "max_accept": NONE})))


def _gsleep(ex, st, self_v, args, kwargs, node):
    _wait_bound(st, args[0])
    t = z3.Real(fresh_name("now"))
    st.assume(t >= st.ghost["now"])
    st.ghost["now"] = t
    st.ghost["sleeps"] = st.ghost["sleeps"] + 1
    return R1(ex, st, NONE)


def _wait_bound(st, arg):
    """C11: a sleep between two heartbeats must not exceed the heartbeat period the arbiter gave the worker"""
    hb = st.obj(st.ghost["worker_ref"]).fields["timeout"].t
    a = z3.ToReal(arg.t) if isinstance(arg, SInt) else arg.t
    st.ghost["wait_ok"] = And(st.ghost["wait_ok"], Or(hb == 0, a <= hb))


def _gtime(ex, st, self_v, args, kwargs, node):
    t = z3.Real(fresh_name("now"))
    st.assume(t >= st.ghost["now"])
    st.ghost["now"] = t
    return R1(ex, st, SReal(t))


def _notify(ex, st, self_v, args, kwargs, node):
    st.ghost["notifies"] = st.ghost["notifies"] + 1
    return R1(ex, st, NONE)


class GLsock(ClassModel):
    def call(self, ex, st, self_v, meth, args, kwargs, node):
        if meth == "setblocking":
            return [ex.res(st, NONE)]
        return None


@contract("gunicorn.workers.ggevent:GeventWorker.run", props=("C04", "C10", "C11"))
class GeventRun(Contract):
    """after the worker is told to stop it closes every server (stops accepting) and then leaves the drain loop ONLY when
    every server's pool was seen idle in that very round - or when the graceful timeout has passed, in which case every
    server is stopped; while any request is still running it keeps waiting and keeps writing its heartbeat"""

    def cases(self, env):
        st = State()
        env.class_models.update({"GPool": GPool(), "GServer": GServer(), "GLsock": GLsock()})
        STUBS.update({"ctor:GPool": _ctor_pool, "ctor:GServer": _ctor_server, "gevent.sleep": _gsleep, "gw.notify": _notify,
                      "gw.time": _gtime})
        w, log = mk_worker(env, st, "GeventWorker", "gunicorn.workers.base",
                           sockets=st.alloc(HList([st.alloc(HObj("GLsock", {})), st.alloc(HObj("GLsock", {}))])),
                           worker_connections=SInt(z3.Int("self.worker_connections")), server_class=NONE,
                           wsgi=Opaque("wsgi"), wsgi_handler=Opaque("handler"), pid=SInt(z3.Int("self.pid")))
        o = st.obj(w)
        o.fields["notify"] = StubV("gw.notify", w)
        o.fields["handle"] = Opaque("bound-handle")
        cfg = st.obj(o.fields["cfg"])
        cfg.fields["is_ssl"] = SBool(False)
        env.global_overrides = {(MOD, "Pool"): StubV("ctor:GPool"), (MOD, "StreamServer"): StubV("ctor:GServer"),
                                (MOD, "gevent"): ModV("gevent"), (MOD, "time"): ModV("gw_time"),
                                (MOD, "partial"): ClassV(functools.partial)}
        STUBS["gw_time.time"] = _gtime
        st.assume(z3.Int("self.worker_connections") >= 1)
        st.ghost.update({"npools": 0, "now": z3.Real("now0"), "sleeps": iv(0), "notifies": iv(0), "wait_ok": TRUE, "worker_ref": w})
        hbp = z3.Real("self.timeout")
        st.assume(hbp >= 0)
        o.fields["timeout"] = SReal(hbp)
        return [("two-listeners", st, {"self": w}, {})]

    def raises(self, c):
        return []

    def post(self, c):
        g = c.st.ghost
        n = g["npools"]
        all_closed = And(*[g["closed_%d" % k] for k in range(n)])
        all_idle = And(*[g["idle_seen_%d" % k] for k in range(n)])
        all_stopped = And(*[g["stopped_%d" % k] for k in range(n)])
        return [("one-pool-and-one-server-per-listener", TRUE if n == 2 else FALSE),
                ("every-server-stops-accepting-first", all_closed),
                ("sleeps-between-heartbeats-are-bounded-by-the-heartbeat-period", g["wait_ok"]),
                ("leaves-only-when-EVERY-pool-was-seen-idle-or-after-the-graceful-timeout(then-all-servers-are-stopped)", Or(all_idle, all_stopped))]

    loops = {0: dict(anchor="for s in self.sockets", cands=[]),
             1: dict(anchor="while self.alive", cands=[("wait_ok", lambda L: L.st.ghost["wait_ok"])]),
             2: dict(anchor="for server in servers", cands=[]),
             3: dict(anchor="while time.time() - ts <= self.cfg.graceful_timeout", cands=[
                 ("servers-stay-closed", lambda L: And(*[L.st.ghost["closed_%d" % k] for k in range(L.st.ghost["npools"])])),
                 ("wait_ok", lambda L: L.st.ghost["wait_ok"]),
                 ("nobody-stopped-yet", lambda L: And(*[Not(L.st.ghost["stopped_%d" % k]) for k in range(L.st.ghost["npools"])])),
             ])}
