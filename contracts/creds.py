"""C20: credentials. Ghost credential model (POSIX setuid(2)/setgid(2)/initgroups(3), ASSUMED):
  privileged (euid == 0): setgid(g) sets real, effective and saved gid; setuid(u) sets all three uids;
                          initgroups(user, g) sets the supplementary groups to {g} + groups_of(user)  (does NOT change the gid)
  unprivileged: setgid(g)/setuid(u) only succeed for g/u in {real, saved} and then change only the effective id; else EPERM.
"""
import errno as _errno

import z3

from pyvc.contracts import contract, Contract, inline
from pyvc.env import STUBS, R1, ClassModel
from pyvc.smt import And, Or, Not, Implies, If, iv, fresh_int, fresh_bool, I, B, TRUE, FALSE
from pyvc.values import SInt, SBool, SNone, NONE, SStr, STuple, Ref, HObj, SExc, Opaque, Unsupported
from pyvc.state import State
from pyvc import strops
from .osmodel import oserror
from .cfgmodel import mk_cfg

IDS = ("ruid", "euid", "suid", "rgid", "egid", "sgid")
groups_of = z3.Function("groups_of", I, I, I)      # ghost: id of the group set {gid} + groups_of(user(uid))


def mk_creds(st, privileged=True):
    for n in IDS:
        st.ghost[n] = z3.Int("cred." + n)
        st.assume(st.ghost[n] >= 0)
    st.ghost["groups"] = z3.Int("cred.groups")
    st.ghost["calls"] = []
    if privileged:
        st.assume(st.ghost["euid"] == 0)


def _get(name):
    def f(ex, st, self_v, args, kwargs, node):
        return R1(ex, st, SInt(st.ghost[name]))
    return f


def _log(st, ev):
    st.ghost["calls"] = list(st.ghost["calls"]) + [ev]


def _setgid(ex, st, self_v, args, kwargs, node):
    g = args[0].t
    priv = st.ghost["euid"] == 0
    out = []
    a, b = ex.split(st, priv)
    if a is not None:
        for n in ("rgid", "egid", "sgid"):
            a.ghost[n] = g
        _log(a, ("setgid", g))
        out.append(ex.res(a, NONE))
    if b is not None:
        okb, badb = ex.split(b, Or(g == b.ghost["rgid"], g == b.ghost["sgid"]))
        if okb is not None:
            okb.ghost["egid"] = g
            _log(okb, ("setgid", g))
            out.append(ex.res(okb, NONE))
        if badb is not None:
            out.append(ex.res_exc(badb, oserror(_errno.EPERM)))
    return out


def _setuid(ex, st, self_v, args, kwargs, node):
    u = args[0].t
    priv = st.ghost["euid"] == 0
    out = []
    a, b = ex.split(st, priv)
    if a is not None:
        for n in ("ruid", "euid", "suid"):
            a.ghost[n] = u
        _log(a, ("setuid", u))
        out.append(ex.res(a, NONE))
    if b is not None:
        okb, badb = ex.split(b, Or(u == b.ghost["ruid"], u == b.ghost["suid"]))
        if okb is not None:
            okb.ghost["euid"] = u
            _log(okb, ("setuid", u))
            out.append(ex.res(okb, NONE))
        if badb is not None:
            out.append(ex.res_exc(badb, oserror(_errno.EPERM)))
    return out


def _initgroups(ex, st, self_v, args, kwargs, node):
    user, g = args
    priv = st.ghost["euid"] == 0
    out = []
    a, b = ex.split(st, priv)
    if a is not None:
        uid_of = user.fields_uid if hasattr(user, "fields_uid") else st.ghost.get("username_uid", iv(-1))
        a.ghost["groups"] = groups_of(uid_of, g.t)
        _log(a, ("initgroups", g.t))
        out.append(ex.res(a, NONE))
    if b is not None:
        out.append(ex.res_exc(b, oserror(_errno.EPERM)))
    return out


def _getpwuid(ex, st, self_v, args, kwargs, node):
    # pwd.getpwuid(uid): an entry with pw_name, or KeyError when the uid has no passwd entry
    uid = args[0]
    miss = st.fork()
    name = strops.fresh_str(st, "pw_name", True, nonempty=True)
    st.ghost["username_uid"] = uid.t
    return [ex.res(st, st.alloc(HObj("struct_passwd", {"pw_name": name}))), ex.res_exc(miss, SExc(KeyError))]


def _chown(ex, st, self_v, args, kwargs, node):
    p, u, g = args
    bad = st.fork()
    st.ghost["chowns"] = list(st.ghost.get("chowns", [])) + [(p, u.t, g.t)]
    return [ex.res(st, NONE), ex.res_exc(bad, oserror(_errno.EPERM))]


for n, f in {"os.getuid": _get("ruid"), "posix.getuid": _get("ruid"), "os.geteuid": _get("euid"), "posix.geteuid": _get("euid"),
             "os.getgid": _get("rgid"), "posix.getgid": _get("rgid"), "os.getegid": _get("egid"), "posix.getegid": _get("egid"),
             "os.setgid": _setgid, "posix.setgid": _setgid, "os.setuid": _setuid, "posix.setuid": _setuid,
             "os.initgroups": _initgroups, "posix.initgroups": _initgroups, "pwd.getpwuid": _getpwuid,
             "os.chown": _chown, "posix.chown": _chown}.items():
    STUBS[n] = f

inline("gunicorn.util:get_username", "gunicorn.util:chown")


@contract("gunicorn.util:set_owner_process", props=("C20",))
class SetOwnerProcess(Contract):
    """for a privileged master (euid 0): afterwards real, effective and saved ids are exactly the configured uid / gid, the
    group change precedes setuid, and with initgroups (and a resolvable user) the supplementary groups are that user's"""

    def cases(self, env):
        out = []
        for ig in (False, True):
            st = State()
            mk_creds(st, privileged=True)
            uid, gid = z3.Int("uid"), z3.Int("gid")
            st.assume(uid >= 0, gid >= 0)
            out.append(("initgroups=%s" % ig, st, {"uid": SInt(uid), "gid": SInt(gid), "initgroups": SBool(ig)}, {}))
        return out

    def pre(self, c):
        g = c.st.ghost
        return [("master-is-privileged", g["euid"] == 0),
                ("master-never-dropped-privileges(saved-ids==real-ids)", And(g["suid"] == g["ruid"], g["sgid"] == g["rgid"]))]

    def raises(self, c):
        return []          # a privileged process can always switch: nothing may escape (NameError / EPERM would be a defect)

    def post(self, c):
        g = c.st.ghost
        uid, gid = c.a["uid"].t, c.a["gid"].t
        calls = g["calls"]
        order_ok = True
        seen_setuid = False
        for ev in calls:
            if ev[0] == "setuid":
                seen_setuid = True
            elif seen_setuid:
                order_ok = False
        ig = c.ex.truth(c.a["initgroups"], c.st)
        did_ig = any(ev[0] == "initgroups" for ev in calls)
        return [("real-effective-saved-gid==configured-gid", And(g["rgid"] == gid, g["egid"] == gid, g["sgid"] == gid)),
                ("real-effective-saved-uid==configured-uid", And(g["ruid"] == uid, g["euid"] == uid, g["suid"] == uid)),
                ("group-change-precedes-setuid", TRUE if order_ok else FALSE),
                ("initgroups-off=>supplementary-groups-untouched", Implies(Not(ig), TRUE if not did_ig else FALSE)),
                ("initgroups-done=>groups-of-that-user-with-that-gid", (g["groups"] == groups_of(uid, gid)) if did_ig else TRUE)]
