"""C20: credentials. Ghost credential model (POSIX setuid(2)/setgid(2)/initgroups(3), ASSUMED):
  privileged (euid == 0): setgid(g) sets real, effective and saved gid; setuid(u) sets all three uids;
                          initgroups(user, g) sets the supplementary groups to {g} + groups_of(user)  (does NOT change the gid)
  unprivileged: setgid(g)/setuid(u) only succeed for g/u in {real, saved} and then change only the effective id; else EPERM.
"""
import errno as _errno

import z3

from pyvc.contracts import contract, Contract, inline
from pyvc.env import STUBS, R1, ClassModel
from pyvc.smt import And, Or, Not, Implies, If, iv, fresh_int, fresh_bool, I, B, TRUE, FALSE
from pyvc.values import SInt, SBool, SNone, NONE, SStr, STuple, Ref, HObj, SExc, Opaque, Unsupported
from pyvc.state import State
from pyvc import strops
from .osmodel import oserror
from .cfgmodel import mk_cfg

IDS = ("ruid", "euid", "suid", "rgid", "egid", "sgid")
groups_of = z3.Function("groups_of", I, I, I)      # ghost: id of the group set {gid} + groups_of(user(uid))


def mk_creds(st, privileged=True):
    for n in IDS:
        st.ghost[n] = z3.Int("cred." + n)
        st.assume(st.ghost[n] >= 0)
    st.ghost["groups"] = z3.Int("cred.groups")
    st.ghost["calls"] = []
    if privileged:
        st.assume(st.ghost["euid"] == 0)


def _get(name):
    def f(ex, st, self_v, args, kwargs, node):
        return R1(ex, st, SInt(st.ghost[name]))
    return f


def _log(st, ev):
    st.ghost["calls"] = list(st.ghost["calls"]) + [ev]


def _setgid(ex, st, self_v, args, kwargs, node):
    g = args[0].t
    priv = st.ghost["euid"] == 0
    out = []
    a, b = ex.split(st, priv)
    if a is not None:
        for n in ("rgid", "egid", "sgid"):
            a.ghost[n] = g
        _log(a, ("setgid", g))
        out.append(ex.res(a, NONE))
    if b is not None:
        okb, badb = ex.split(b, Or(g == b.ghost["rgid"], g == b.ghost["sgid"]))
        if okb is not None:
            okb.ghost["egid"] = g
            _log(okb, ("setgid", g))
            out.append(ex.res(okb, NONE))
        if badb is not None:
            out.append(ex.res_exc(badb, oserror(_errno.EPERM)))
    return out


def _setuid(ex, st, self_v, args, kwargs, node):
    u = args[0].t
    priv = st.ghost["euid"] == 0
    out = []
    a, b = ex.split(st, priv)
    if a is not None:
        for n in ("ruid", "euid", "suid"):
            a.ghost[n] = u
        _log(a, ("setuid", u))
        out.append(ex.res(a, NONE))
    if b is not None:
        okb, badb = ex.split(b, Or(u == b.ghost["ruid"], u == b.ghost["suid"]))
        if okb is not None:
            okb.ghost["euid"] = u
            _log(okb, ("setuid", u))
            out.append(ex.res(okb, NONE))
        if badb is not None:
            out.append(ex.res_exc(badb, oserror(_errno.EPERM)))
    return out


def _initgroups(ex, st, self_v, args, kwargs, node):
    user, g = args
    priv = st.ghost["euid"] == 0
    out = []
    a, b = ex.split(st, priv)
    if a is not None:
        uid_of = user.fields_uid if hasattr(user, "fields_uid") else st.ghost.get("username_uid", iv(-1))
        a.ghost["groups"] = groups_of(uid_of, g.t)
        _log(a, ("initgroups", g.t))
        out.append(ex.res(a, NONE))
    if b is not None:
        out.append(ex.res_exc(b, oserror(_errno.EPERM)))
    return out


def _getpwuid(ex, st, self_v, args, kwargs, node):
    # pwd.getpwuid(uid): an entry with pw_name, or KeyError when the uid has no passwd entry
    uid = args[0]
    miss = st.fork()
    name = strops.fresh_str(st, "pw_name", True, nonempty=True)
    st.ghost["username_uid"] = uid.t
    return [ex.res(st, st.alloc(HObj("struct_passwd", {"pw_name": name}))), ex.res_exc(miss, SExc(KeyError))]


def _chown(ex, st, self_v, args, kwargs, node):
    p, u, g = args
    bad = st.fork()
    st.ghost["chowns"] = list(st.ghost.get("chowns", [])) + [(p, u.t, g.t)]
    return [ex.res(st, NONE), ex.res_exc(bad, oserror(_errno.EPERM))]


for n, f in {"os.getuid": _get("ruid"), "posix.getuid": _get("ruid"), "os.geteuid": _get("euid"), "posix.geteuid": _get("euid"),
             "os.getgid": _get("rgid"), "posix.getgid": _get("rgid"), "os.getegid": _get("egid"), "posix.getegid": _get("egid"),
             "os.setgid": _setgid, "posix.setgid": _setgid, "os.setuid": _setuid, "posix.setuid": _setuid,
             "os.initgroups": _initgroups, "posix.initgroups": _initgroups, "pwd.getpwuid": _getpwuid,
             "os.chown": _chown, "posix.chown": _chown}.items():
    STUBS[n] = f

inline("gunicorn.util:get_username", "gunicorn.util:chown")


@contract("gunicorn.util:set_owner_process", props=("C20",))
class SetOwnerProcess(Contract):
    """for a privileged master (euid 0): afterwards real, effective and saved ids are exactly the configured uid / gid, the
    group change precedes setuid, and with initgroups (and a resolvable user) the supplementary groups are that user's"""

    def cases(self, env):
        out = []
        for ig in (False, True):
            st = State()
            mk_creds(st, privileged=True)
            uid, gid = z3.Int("uid"), z3.Int("gid")
            st.assume(uid >= 0, gid >= 0)
            out.append(("initgroups=%s" % ig, st, {"uid": SInt(uid), "gid": SInt(gid), "initgroups": SBool(ig)}, {}))
        return out

    def pre(self, c):
        g = c.st.ghost
        return [("master-is-privileged", g["euid"] == 0),
                ("master-never-dropped-privileges(saved-ids==real-ids)", And(g["suid"] == g["ruid"], g["sgid"] == g["rgid"]))]

    def raises(self, c):
        return []          # a privileged process can always switch: nothing may escape (NameError / EPERM would be a defect)

    def modifies(self, c):
        return [("ghost", n) for n in IDS + ("groups",)]

    def post(self, c):
        g = c.st.ghost
        uid, gid = c.a["uid"].t, c.a["gid"].t
        if c.mode == "call":
            ig = c.ex.truth(c.a["initgroups"], c.st)
            return [("real-effective-saved-gid==configured-gid", And(g["rgid"] == gid, g["egid"] == gid, g["sgid"] == gid)),
                    ("real-effective-saved-uid==configured-uid", And(g["ruid"] == uid, g["euid"] == uid, g["suid"] == uid)),
                    ("initgroups-off=>supplementary-groups-untouched", Implies(Not(ig), g["groups"] == c.old.ghost["groups"]))]
        calls = g["calls"]
        order_ok = True
        seen_setuid = False
        for ev in calls:
            if ev[0] == "setuid":
                seen_setuid = True
            elif seen_setuid:
                order_ok = False
        ig = c.ex.truth(c.a["initgroups"], c.st)
        did_ig = any(ev[0] == "initgroups" for ev in calls)
        return [("real-effective-saved-gid==configured-gid", And(g["rgid"] == gid, g["egid"] == gid, g["sgid"] == gid)),
                ("real-effective-saved-uid==configured-uid", And(g["ruid"] == uid, g["euid"] == uid, g["suid"] == uid)),
                ("group-change-precedes-setuid", TRUE if order_ok else FALSE),
                ("initgroups-off=>supplementary-groups-untouched", Implies(Not(ig), TRUE if not did_ig else FALSE)),
                ("initgroups-done=>groups-of-that-user-with-that-gid", (g["groups"] == groups_of(uid, gid)) if did_ig else TRUE)]


# ======================================================================================================
# WorkerTmp.__init__ (heartbeat file handed to the worker's user), UnixSocket.bind, BaseSocket.set_options, close_sockets
# ======================================================================================================
from .osmodel import add_path, fs_set, fs_get, path_label, _mkstemp   # noqa: E402
from pyvc.values import HList, ClassV   # noqa: E402
from pyvc.shapes import BoolShape, IntShape, ListShape   # noqa: E402


def _umask(ex, st, self_v, args, kwargs, node):
    old = st.ghost.get("umask", z3.Int("umask0"))
    st.ghost["umask"] = args[0].t
    st.ghost["events"] = list(st.ghost.get("events", [])) + [("umask", args[0].t)]
    return R1(ex, st, SInt(old))


def _mkstemp_named(ex, st, self_v, args, kwargs, node):
    rs = _mkstemp(ex, st, self_v, args, kwargs, node)
    st.ghost["events"] = list(st.ghost.get("events", [])) + [("mkstemp", st.ghost.get("umask"))]
    return rs


def _util_unlink(ex, st, self_v, args, kwargs, node):
    st.ghost["events"] = list(st.ghost.get("events", [])) + [("unlink", args[0])]
    return R1(ex, st, NONE)


def _chown_ev(ex, st, self_v, args, kwargs, node):
    p, u, g = args
    bad = st.fork()
    st.ghost["events"] = list(st.ghost.get("events", [])) + [("chown", p, u.t, g.t)]
    return [ex.res(st, NONE), ex.res_exc(bad, oserror(_errno.EPERM))]


def _fdopen_tmp(ex, st, self_v, args, kwargs, node):
    st.ghost["events"] = list(st.ghost.get("events", [])) + [("fdopen",)]
    return R1(ex, st, Opaque("tmpfile"))


@contract("gunicorn.util:unlink", props=("C20",))
class UtilUnlink(Contract):
    """TRUSTED model: removes the name (errors ENOENT/ENOTDIR swallowed by the real function)"""
    trusted = True

    def effects(self, c):
        c.st.ghost["events"] = list(c.st.ghost.get("events", [])) + [("unlink", c.a["filename"])]


@contract("gunicorn.workers.workertmp:WorkerTmp.__init__", props=("C20",))
class WorkerTmpInit(Contract):
    def cases(self, env):
        env.use_class("gunicorn.workers.workertmp", "WorkerTmp")
        STUBS["os.umask"] = _umask
        STUBS["posix.umask"] = _umask
        STUBS["tempfile.mkstemp"] = _mkstemp_named
        STUBS["os.chown"] = _chown_ev
        STUBS["posix.chown"] = _chown_ev
        STUBS["os.fdopen"] = _fdopen_tmp
        st = State()
        mk_creds(st, privileged=False)
        st.ghost["fs"] = {}
        st.ghost["fd_labels"] = {}
        st.ghost["events"] = []
        cfg = mk_cfg(env, st)
        slf = st.alloc(HObj("WorkerTmp", {}))
        return [("init", st, {"self": slf, "cfg": cfg}, {})]

    def raises(self, c):
        return [(RuntimeError, None), (OSError, None)]

    def post(self, c):
        g = c.st.ghost
        cfg = c.a["cfg"]
        uid, gid = c.field(cfg, "uid", c.old).t, c.field(cfg, "gid", c.old).t
        ev = g["events"]
        kinds = [e[0] for e in ev]
        need = Or(uid != c.old.ghost["euid"], gid != c.old.ghost["egid"])
        chowns = [e for e in ev if e[0] == "chown"]
        did = TRUE if chowns else FALSE
        before_unlink = True
        if chowns and "unlink" in kinds:
            before_unlink = kinds.index("chown") < kinds.index("unlink")
        out = [("heartbeat-file-handed-to-the-worker's-user-iff-it-will-run-as-someone-else", need == did),
               ("chown-happens-before-the-name-is-unlinked", TRUE if before_unlink else FALSE),
               ("umask-restored-right-after-creating-the-file", TRUE if (kinds[:3] == ["umask", "mkstemp", "umask"]) else FALSE)]
        if chowns:
            out.append(("chown-to-exactly-the-configured-ids", And(chowns[0][2] == uid, chowns[0][3] == gid)))
        return out


class ListenSockModel(ClassModel):
    def hasattr(self, ex, st, v, o, name):
        return name in ("set_inheritable", "bind", "listen", "setsockopt", "setblocking", "close", "getsockname")

    def call(self, ex, st, self_v, meth, args, kwargs, node):
        o = st.obj(self_v)
        ev = list(o.fields.get("g_events", STuple([])).items)
        if meth in ("bind", "listen", "setsockopt", "setblocking", "set_inheritable", "close"):
            rec = (meth,) + tuple(args)
            o.fields["g_events"] = STuple(ev + [_Ev(rec)])
            if meth == "close":
                o.fields["g_closed"] = SBool(True)
            bad = st.fork()
            if meth in ("bind", "setsockopt", "close"):
                return [ex.res(st, NONE), ex.res_exc(bad, oserror(_errno.EINVAL))]
            return [ex.res(st, NONE)]
        if meth == "getsockname":
            return [ex.res(st, o.fields["g_name"])]
        return None


class _Ev(Opaque):
    def __init__(self, rec):
        Opaque.__init__(self, "ev")
        self.rec = rec


LSOCK = ListenSockModel()


def mk_lsock(env, st, name):
    env.class_models["lsock"] = LSOCK
    return st.alloc(HObj("lsock", {"g_events": STuple([]), "g_closed": SBool(False), "g_name": name}))


def sock_events(st, ref):
    return [e.rec for e in st.obj(ref).fields["g_events"].items]


@contract("gunicorn.sock:UnixSocket.bind", props=("C20",))
class UnixBind(Contract):
    def cases(self, env):
        env.use_class("gunicorn.sock", "UnixSocket")
        STUBS["os.umask"] = _umask
        STUBS["posix.umask"] = _umask
        STUBS["os.chown"] = _chown_ev
        STUBS["posix.chown"] = _chown_ev
        st = State()
        st.ghost["events"] = []
        cfg = mk_cfg(env, st)
        addr = strops.fresh_str(st, "unix.path", True, nonempty=True)
        slf = st.alloc(HObj("UnixSocket", {"conf": cfg, "cfg_addr": addr}))
        return [("bind", st, {"self": slf, "sock": mk_lsock(env, st, addr)}, {})]

    def raises(self, c):
        return [(OSError, None)]

    def post(self, c):
        ev = c.st.ghost["events"]
        cfg = c.old.obj(c.a["self"]).fields["conf"]
        uid, gid, um = c.field(cfg, "uid", c.old).t, c.field(cfg, "gid", c.old).t, c.field(cfg, "umask", c.old).t
        kinds = [e[0] for e in ev]
        sev = [e[0] for e in sock_events(c.st, c.a["sock"])]
        ok_shape = kinds == ["umask", "chown", "umask"] and sev == ["bind"]
        out = [("bind-under-the-configured-umask-then-chown-then-restore", TRUE if ok_shape else FALSE)]
        if ok_shape:
            out += [("umask-is-the-configured-one", ev[0][1] == um), ("socket-file-owned-by-the-configured-user-and-group", And(ev[1][2] == uid, ev[1][3] == gid)),
                    ("umask-restored", ev[2][1] == z3.Int("umask0"))]
        return out


@contract("gunicorn.sock:BaseSocket.set_options", props=("C14",))
class SetOptions(Contract):
    """every listener - freshly bound or adopted from an inherited fd - is made inheritable (so that a later USR2 can hand it on)"""
    inline_callees = ("gunicorn.sock:BaseSocket.bind",)

    def cases(self, env):
        env.use_class("gunicorn.sock", "TCPSocket")
        out = []
        for bound in (False, True):
            st = State()
            cfg = mk_cfg(env, st)
            cfg_o = st.obj(cfg)
            cfg_o.fields["backlog"] = SInt(z3.Int("cfg.backlog"))
            addr = strops.fresh_str(st, "addr", True)
            slf = st.alloc(HObj("TCPSocket", {"conf": cfg, "cfg_addr": addr}))
            out.append(("bound=%s" % bound, st, {"self": slf, "sock": mk_lsock(env, st, addr), "bound": SBool(bound)}, {}))
        return out

    def raises(self, c):
        return [(OSError, None)]

    def post(self, c):
        sev = sock_events(c.st, c.a["sock"])
        kinds = [e[0] for e in sev]
        bound = c.ex.truth(c.a["bound"], c.st)
        from pyvc.smt import const_bool
        b = const_bool(bound)
        out = [("listener-made-inheritable", TRUE if "set_inheritable" in kinds else FALSE),
               ("listening", TRUE if "listen" in kinds else FALSE),
               ("returns-the-socket", TRUE if isinstance(c.result, Ref) and c.result.oid == c.a["sock"].oid else FALSE)]
        if b is not None:
            out.append(("bind-iff-not-inherited", TRUE if (("bind" in kinds) == (not b)) else FALSE))
        return out


def _sock_type_stub(ex, st, self_v, args, kwargs, node):
    # gunicorn.sock._sock_type(addr): UnixSocket for str/bytes addresses, TCP(6)Socket for tuples  (TRUSTED summary)
    a = args[0]
    mod = ex.env.repo.live("gunicorn.sock")
    if isinstance(a, STuple):
        return R1(ex, st, ClassV(mod.TCPSocket))
    return R1(ex, st, ClassV(mod.UnixSocket))


@contract("gunicorn.sock:_sock_type", props=("C04", "C14"))
class SockType(Contract):
    trusted = True

    def result_shape(self, c):
        mod = c.ex.env.repo.live("gunicorn.sock")
        a = c.a["addr"]
        return ClassV(mod.TCPSocket) if isinstance(a, STuple) else ClassV(mod.UnixSocket)


@contract("gunicorn.sock:close_sockets", props=("C04", "C14"))
class CloseSockets(Contract):
    """every listener is closed; the file of every UNIX listener is unlinked iff `unlink` (whatever the order of TCP and
    UNIX listeners in the list)"""

    def cases(self, env):
        from .osmodel import _os_unlink
        out = []
        for layout in (("unix",), ("tcp", "unix"), ("unix", "tcp", "unix"), ("tcp",)):
            for unlink in (True, False):
                st = State()
                st.ghost["fs"] = {}
                st.ghost["fd_labels"] = {}
                st.ghost["unlinked"] = []
                socks = []
                for k, kind in enumerate(layout):
                    if kind == "unix":
                        name = strops.fresh_str(st, "unix%d" % k, True, nonempty=True)
                        add_path(st, name, "U%d" % k)
                        fs_set(st, "U%d" % k, TRUE, SStr([], False))
                    else:
                        name = STuple([strops.fresh_str(st, "host%d" % k, True), SInt(fresh_int("port"))])
                    socks.append(mk_lsock(env, st, name))
                lst = st.alloc(HList(socks))
                out.append(("%s,unlink=%s" % ("+".join(layout), unlink), st, {"listeners": lst, "unlink": SBool(unlink)},
                            {"layout": layout, "socks": socks}))
        return out

    def raises(self, c):
        return [(OSError, None)]

    def effects(self, c):
        # call mode: record the call (who closes what, with which unlink flag) and mark concrete listeners closed
        st = c.st
        unlink = c.a.get("unlink", SBool(True))
        st.ghost["close_calls"] = list(st.ghost.get("close_calls", [])) + [(c.a["listeners"], c.ex.truth(unlink, st))]
        for s in c.ex.concrete_items(st, c.a["listeners"]) or []:
            if isinstance(s, Ref) and "g_closed" in st.obj(s).fields:
                st.obj(s).fields["g_closed"] = SBool(True)

    def post(self, c):
        if c.mode == "call":
            return []
        layout, socks = c.g["layout"], c.g["socks"]
        unl = c.st.ghost.get("unlinked", [])
        want = ["U%d" % k for k, kind in enumerate(layout) if kind == "unix"] if c.ex.truth(c.a["unlink"], c.st) is TRUE or z3.is_true(c.ex.truth(c.a["unlink"], c.st)) else []
        out = [("every-listener-closed", And(*[c.ex.truth(c.st.obj(s).fields["g_closed"], c.st) for s in socks])),
               ("unix-socket-files-unlinked-iff-requested", TRUE if sorted(unl) == sorted(want) else FALSE)]
        return out
