"""Shared ghost model for the request parser: the connection's byte stream T[0..N) and the Unreader view of it.

Everything the parser ever holds is a window of T. The Unreader's representation invariant:
    RI(u):  u.buf.content == T[pos(u) : u.g_sp)  with  0 <= pos(u) <= u.g_sp <= N
where g_sp (ghost) = number of bytes taken from the byte source so far and pos(u) = g_sp - len(buf) is the
stream position of the next byte a caller will get.
"""
import z3

from pyvc.smt import And, Or, Not, Implies, If, Min, Max, iv, fresh_int, fresh_name, I, TRUE, FALSE
from pyvc.values import (SInt, SBool, SNone, NONE, SStr, STuple, Ref, HObj, HBio, HList, mk_win, str_eq, Win,
                         occurs_at, qvar, Unsupported)
from pyvc.state import State

T = z3.Array("T", I, I)
N = z3.Int("N")
MAXCHUNK = 8192


def base_state(env):
    st = State()
    p = z3.Int("p?T")
    st.assume(N >= 0, z3.ForAll([p], And(z3.Select(T, p) >= 0, z3.Select(T, p) <= 255)))
    return st


def twin(lo, hi, is_str=False):
    return mk_win(T, lo, hi, is_str)


def mk_unreader(env, st, name="u", empty_buf=False, cls="Unreader"):
    env.use_class("gunicorn.http.unreader", "Unreader")
    env.use_class("gunicorn.http.unreader", "SocketUnreader")
    env.use_class("gunicorn.http.unreader", "IterUnreader")
    sp = fresh_int(name + ".sp")
    pos = sp if empty_buf else fresh_int(name + ".pos")
    st.assume(0 <= pos, pos <= sp, sp <= N)
    buf = st.alloc(HBio(twin(pos, sp)))
    return st.alloc(HObj(cls, {"buf": buf, "g_sp": SInt(sp)}))


def u_buf(c, u, st=None):
    st = st or c.st
    b = st.obj(u).fields["buf"]
    return st.obj(b).content


def u_sp(c, u, st=None):
    st = st or c.st
    return st.obj(u).fields["g_sp"].t


def u_pos(c, u, st=None):
    return u_sp(c, u, st) - u_buf(c, u, st).length()


def t_window(s):
    """the (lo, hi) of a value that is structurally a plain window of T, else None"""
    if not isinstance(s, SStr):
        return None
    if not s.atoms:
        return ("empty", None, None)
    w = s.single_win()
    if w is not None and w.base.eq(T) and not w.xf:
        return ("win", w.lo, w.hi)
    return None


def is_T(s, lo, hi):
    """z3 Bool: string value s denotes exactly T[lo:hi) (lo <= hi)"""
    tw = t_window(s)
    if tw is not None:
        if tw[0] == "empty":
            return lo == hi
        return Or(And(tw[1] == lo, tw[2] == hi), And(tw[1] == tw[2], lo == hi))
    return And(lo <= hi, str_eq(twin(lo, hi, s.is_str), s))


def RI(c, u, st=None):
    """representation invariant of an Unreader as a list of named facts"""
    st = st or c.st
    buf = u_buf(c, u, st)
    sp = u_sp(c, u, st)
    tw = t_window(buf)
    if tw is None:
        return [("RI.buf-is-stream-window", FALSE)]
    if tw[0] == "empty":
        return [("RI.bounds", And(0 <= sp, sp <= N))]
    _, lo, hi = tw
    return [("RI.buf-ends-at-source-position", Or(lo == hi, hi == sp)),
            ("RI.bounds", And(0 <= lo, lo <= hi, sp <= N, Implies(lo == hi, 0 <= sp)))]


def RI_and(c, u, st=None):
    return And(*[f for _, f in RI(c, u, st)])


def crlf_at(p):
    return And(z3.Select(T, p) == 13, z3.Select(T, p + 1) == 10)


def first_crlf(F, p, limit=None):
    """F is the position of the first CRLF of T at or after p (entirely below `limit`, default N)"""
    lim = N if limit is None else limit
    q = qvar("q")
    return And(p <= F, F + 2 <= lim, crlf_at(F), z3.ForAll([q], Implies(And(p <= q, q < F), Not(crlf_at(q)))))


def no_crlf(p, lim):
    """no CRLF lies entirely inside T[p:lim)"""
    q = qvar("q")
    return z3.ForAll([q], Implies(And(p <= q, q + 2 <= lim), Not(crlf_at(q))))
