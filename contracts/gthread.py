"""C13 contracts (sequential projection of the threaded worker): see gthreadmodel.py for the ghost world."""
import errno as _errno

import z3

from pyvc.contracts import contract, Contract, inline
from pyvc.env import STUBS, R1, ClassModel
from pyvc.smt import And, Or, Not, Implies, If, iv, fresh_int, fresh_bool, fresh_name, I, B, R, TRUE, FALSE
from pyvc.values import (SInt, SBool, SReal, SNone, NONE, SStr, STuple, Ref, SymRef, HObj, HList, SExc, Opaque, StubV, qvar, Unsupported)
from pyvc.state import State
from .gthreadmodel import mk_tworker, sel, timeout_of, initialized_of, ghost_same

inline("gunicorn.workers.gthread:ThreadWorker.enqueue_req", "gunicorn.workers.gthread:ThreadWorker._wrap_future",
       "gunicorn.workers.gthread:TConn.close", "gunicorn.workers.gthread:TConn.set_timeout", "gunicorn.workers.gthread:TConn.__init__")


def W(c, st=None):
    return (st or c.st).obj(c.a["self"])


def nr(c, st=None):
    return W(c, st).fields["nr_conns"].t


def reg_inv(st):
    """every registered client socket belongs to an open, idle connection that is queued for keep-alive iff it already
    served a request; busy connections are neither registered nor queued"""
    g = st.ghost
    a = qvar("a")
    return And(z3.ForAll([a], Implies(sel(g["REG"], a), And(sel(g["C_open"], a), Not(sel(g["BUSY"], a)), sel(g["KEEP"], a) == initialized_of(st, a)))),
               z3.ForAll([a], Implies(sel(g["BUSY"], a), And(sel(g["C_open"], a), Not(sel(g["REG"], a)), Not(sel(g["KEEP"], a))))))


def accounting(c):
    """every change of nr_conns is one accept or one close of an open connection; nothing is closed twice or while busy"""
    g1, g0 = c.st.ghost, c.old.ghost
    return [("nr_conns-moves-with-accepts-minus-closes", nr(c) - nr(c, c.old) == (g1["accepts"] - g0["accepts"]) - (g1["closes"] - g0["closes"])),
            ("no-socket-closed-twice", Not(g1["double_close"])),
            ("no-connection-closed-while-a-request-on-it-is-being-handled", Not(g1.get("busy_close", FALSE))),
            ("no-socket-registered-twice", Not(g1.get("double_register", FALSE))),
            ("no-connection-queued-twice-for-keep-alive", Not(g1.get("dup_keep", FALSE)))]


# ======================================================================================================
# finish_request
# ======================================================================================================
@contract("gunicorn.workers.gthread:ThreadWorker.finish_request", props=("C13",))
class FinishRequest(Contract):
    """a finished handler either parks its connection for keep-alive (registered + queued with deadline now + keepalive,
    counter untouched) or closes it exactly once and gives the slot back; a cancelled / failed future closes too"""

    def cases(self, env):
        st = State()
        w = mk_tworker(env, st)
        f = SymRef("FutObj", z3.Int("f"))
        cid = z3.Int("c")
        env.symref_set(None, st, f, "conn", SymRef("TConnObj", cid))
        return [("done", st, {"self": w, "fs": f}, {"c": cid})]

    def pre(self, c):
        g, cid = c.st.ghost, c.g["c"]
        return [("Inv:the-finished-future's-connection-is-open,no-longer-being-handled,unregistered,not-queued",
                 And(sel(g["C_open"], cid), Not(sel(g["BUSY"], cid)), Not(sel(g["REG"], cid)), Not(sel(g["KEEP"], cid))))]

    def raises(self, c):
        return []

    def post(self, c):
        g1, g0 = c.st.ghost, c.old.ghost
        cid = c.g["c"]
        keep = And(Not(z3.Bool("fut.cancelled")), z3.Bool("fut.keepalive"), c.ex.truth(W(c, c.old).fields["alive"], c.old))
        parked = And(sel(g1["C_open"], cid), sel(g1["REG"], cid), sel(g1["KEEP"], cid))
        closed = And(Not(sel(g1["C_open"], cid)), Not(sel(g1["REG"], cid)), Not(sel(g1["KEEP"], cid)))
        a = qvar("a")
        ka = z3.ToReal(z3.Int("cfg.keepalive"))
        return accounting(c) + [
            ("parked-for-keep-alive-or-closed", Or(And(parked, nr(c) == nr(c, c.old)), And(closed, nr(c) == nr(c, c.old) - 1))),
            ("parked-only-when-the-handler-asked-for-keep-alive-and-the-worker-is-alive", Implies(parked, Or(keep, FALSE))),
            ("keep-alive-deadline-is-now-plus-keepalive", Implies(parked, And(timeout_of(c.st, cid) >= g0["now"] + ka, timeout_of(c.st, cid) <= g1["now"] + ka))),
            ("parked-at-the-back-of-the-queue", Implies(parked, z3.ForAll([a], Implies(And(sel(g0["KEEP"], a)), sel(g1["POS"], a) < sel(g1["POS"], cid))))),
            ("other-connections-untouched", z3.ForAll([a], Implies(a != cid, And(sel(g1["C_open"], a) == sel(g0["C_open"], a), sel(g1["REG"], a) == sel(g0["REG"], a),
                                                                                  sel(g1["KEEP"], a) == sel(g0["KEEP"], a)))))]


# ======================================================================================================
# accept
# ======================================================================================================
class GListener(ClassModel):
    def call(self, ex, st, self_v, meth, args, kwargs, node):
        if meth == "accept":
            bad = st.fork()
            e = z3.Int("accept.errno")
            c = fresh_int("newconn")
            st.assume(Not(sel(st.ghost["C_open"], c)), Not(sel(st.ghost["REG"], c)), Not(sel(st.ghost["KEEP"], c)), Not(sel(st.ghost["BUSY"], c)))
            st.ghost["C_open"] = z3.Store(st.ghost["C_open"], c, z3.BoolVal(True))
            st.ghost["accepts"] = st.ghost["accepts"] + 1
            st.ghost["last_accepted"] = c
            return [ex.res(st, STuple([SymRef("CSock", c), Opaque("peer")])),
                    ex.res_exc(bad, SExc(OSError, (SInt(e),), {"errno": SInt(e), "args": STuple([SInt(e)])}))]
        return None


def _ctor_tconn(ex, st, self_v, args, kwargs, node):
    """TConn(cfg, sock, client, server) summarised: a connection object for that socket, not initialised, socket non-blocking"""
    sock = args[1]
    conn = SymRef("TConnObj", sock.t)
    ex.env.symref_set(ex, st, conn, "initialized", SBool(False))
    return R1(ex, st, conn)


@contract("gunicorn.workers.gthread:ThreadWorker.accept", props=("C13",))
class GAccept(Contract):
    """below the limit: one new open connection, registered for readability, counted once (EAGAIN / ECONNABORTED change
    nothing); AT the limit nothing is accepted - so the counter never exceeds worker_connections from ANY call site
    (the obligation that exposed the two-listener defect fixed in /repo b63d7a7)"""

    def cases(self, env):
        st = State()
        w = mk_tworker(env, st)
        env.class_models["GListener"] = GListener()
        STUBS["ctor:TConn"] = _ctor_tconn
        return [("accept", st, {"self": w, "server": Opaque("server-address"), "listener": st.alloc(HObj("GListener", {}))}, {})]

    def pre(self, c):
        return [("Inv:never-above-the-connection-limit", nr(c) <= W(c).fields["worker_connections"].t),
                ("Inv:registered-and-busy-connections", reg_inv(c.st))]

    def modifies(self, c):
        return [("field", c.a["self"], "nr_conns"), ("ghost", "C_open"), ("ghost", "REG"), ("ghost", "accepts"), ("cheap", "TConnObj", "initialized")]

    def raises(self, c):
        return [(OSError, None, lambda c2: {"errno": SInt(fresh_int("errno"))})]

    def exc_post(self, c):
        if c.mode == "call":
            return []
        return [("failed-accept-changes-nothing", And(nr(c) == nr(c, c.old), ghost_same(c, ("C_open", "REG", "KEEP", "BUSY"))))]

    def post(self, c):
        g1, g0 = c.st.ghost, c.old.ghost
        a = qvar("a")
        kq = qvar("kq")
        frame = [("Inv-preserved:registered-and-busy-connections", reg_inv(c.st)),
                 ("queued-connections-untouched", z3.ForAll([kq], Implies(sel(g0["KEEP"], kq), And(sel(g1["C_open"], kq) == sel(g0["C_open"], kq), sel(g1["REG"], kq) == sel(g0["REG"], kq))))),
                 ("existing-registrations-and-open-connections-are-kept", z3.ForAll([kq], And(Implies(sel(g0["REG"], kq), sel(g1["REG"], kq)), Implies(sel(g0["C_open"], kq), sel(g1["C_open"], kq)),
                                                                                                 sel(g1["KEEP"], kq) == sel(g0["KEEP"], kq), sel(g1["BUSY"], kq) == sel(g0["BUSY"], kq),
                                                                                                 Implies(sel(g0["REG"], kq), initialized_of(c.st, kq) == initialized_of(c.old, kq)))))]
        if c.mode == "call":
            return frame + [("at-most-one-new-connection", And(nr(c) >= nr(c, c.old), nr(c) <= nr(c, c.old) + 1, nr(c) <= W(c).fields["worker_connections"].t))]
        new = g1.get("last_accepted")
        took = g1["accepts"] - g0["accepts"] == 1
        return accounting(c) + frame + [
            ("never-above-the-connection-limit", nr(c) <= W(c).fields["worker_connections"].t),
            ("accepted-connection-is-open-and-registered", Implies(took, And(sel(g1["C_open"], new), sel(g1["REG"], new), Not(sel(g1["KEEP"], new)), Not(sel(g1["BUSY"], new)))) if new is not None else Not(took)),
            ("nothing-accepted=>nothing-changes", Implies(Not(took), And(nr(c) == nr(c, c.old), ghost_same(c, ("C_open", "REG", "KEEP", "BUSY"))))),
            ("at-the-limit-nothing-is-accepted", Implies(nr(c, c.old) >= W(c).fields["worker_connections"].t, Not(took))),
        ]


# ======================================================================================================
# on_client_socket_readable
# ======================================================================================================
@contract("gunicorn.workers.gthread:ThreadWorker.on_client_socket_readable", props=("C13",))
class OnReadable(Contract):
    """a readable connection leaves the poller (and the keep-alive queue) and is handed to exactly one handler"""

    def cases(self, env):
        st = State()
        w = mk_tworker(env, st)
        cid = z3.Int("c")
        return [("readable", st, {"self": w, "conn": SymRef("TConnObj", cid), "client": SymRef("CSock", cid)}, {"c": cid})]

    def pre(self, c):
        g, cid = c.st.ghost, c.a["conn"].t
        return [("the-socket-reported-readable-is-this-connection's-and-is-registered", And(c.a["client"].t == cid, sel(g["REG"], cid))),
                ("Inv:registered-and-busy-connections", reg_inv(c.st)), ("Inv:keep-alive-queue", keep_inv(c.st))]

    def modifies(self, c):
        return [("ghost", "REG"), ("ghost", "KEEP"), ("ghost", "keep_n"), ("ghost", "BUSY"), ("cheap", "TConnObj", "initialized")]

    def raises(self, c):
        return []

    def post(self, c):
        g1, g0 = c.st.ghost, c.old.ghost
        cid = c.a["conn"].t
        a = qvar("a")
        inv = [("Inv-preserved:registered-and-busy-connections", reg_inv(c.st)), ("Inv-preserved:keep-alive-queue", keep_inv(c.st)),
               ("connection-served:unregistered,dequeued,busy,still-open", And(Not(sel(g1["REG"], cid)), Not(sel(g1["KEEP"], cid)), sel(g1["BUSY"], cid), sel(g1["C_open"], cid))),
               ("other-connections-untouched", z3.ForAll([a], Implies(a != cid, And(sel(g1["C_open"], a) == sel(g0["C_open"], a), sel(g1["REG"], a) == sel(g0["REG"], a),
                                                                                     sel(g1["KEEP"], a) == sel(g0["KEEP"], a), sel(g1["BUSY"], a) == sel(g0["BUSY"], a),
                                                                                     initialized_of(c.st, a) == initialized_of(c.old, a)))))]
        if c.mode == "call":
            return inv
        return accounting(c) + inv + [
            ("connection-served:unregistered,dequeued,busy,still-open", And(Not(sel(g1["REG"], cid)), Not(sel(g1["KEEP"], cid)), sel(g1["BUSY"], cid), sel(g1["C_open"], cid))),
            ("exactly-one-handler-submitted-for-it", And(g1.get("submitted", iv(0)) == 1, g1.get("last_submitted", iv(-1)) == cid, g1.get("fut_appended", iv(0)) == 1)),
            ("counter-untouched", nr(c) == nr(c, c.old)),
            ("other-connections-untouched", z3.ForAll([a], Implies(a != cid, And(sel(g1["C_open"], a) == sel(g0["C_open"], a), sel(g1["REG"], a) == sel(g0["REG"], a),
                                                                                  sel(g1["KEEP"], a) == sel(g0["KEEP"], a), sel(g1["BUSY"], a) == sel(g0["BUSY"], a)))))]


# ======================================================================================================
# murder_keepalived
# ======================================================================================================
def keep_inv(st):
    """data-structure invariant of the keep-alive queue: members are open, registered, idle; ordered by deadline"""
    g = st.ghost
    a, b = qvar("a"), qvar("b")
    return And(g["keep_n"] >= 0, (g["keep_n"] == 0) == z3.ForAll([a], Not(sel(g["KEEP"], a))),
               z3.ForAll([a, b], Implies(And(sel(g["KEEP"], a), sel(g["KEEP"], b), a != b), sel(g["POS"], a) != sel(g["POS"], b))),
               z3.ForAll([a], Implies(sel(g["KEEP"], a), And(sel(g["C_open"], a), sel(g["REG"], a), Not(sel(g["BUSY"], a))))),
               z3.ForAll([a, b], Implies(And(sel(g["KEEP"], a), sel(g["KEEP"], b), sel(g["POS"], a) < sel(g["POS"], b)),
                                         timeout_of(st, a) <= timeout_of(st, b))))


@contract("gunicorn.workers.gthread:ThreadWorker.murder_keepalived", props=("C13",))
class MurderKeepalived(Contract):
    """closes exactly the idle keep-alive connections whose deadline has passed - all of them, none before its time - each
    once, unregistered, with the counter following; everything else is untouched"""

    def cases(self, env):
        st = State()
        w = mk_tworker(env, st)
        return [("reap", st, {"self": w}, {})]

    def pre(self, c):
        return [("Inv:keep-alive-queue", keep_inv(c.st)), ("Inv:registered-and-busy-connections", reg_inv(c.st))]

    def modifies(self, c):
        return [("field", c.a["self"], "nr_conns"), ("ghost", "C_open"), ("ghost", "REG"), ("ghost", "KEEP"), ("ghost", "POS"), ("ghost", "keep_n"),
                ("ghost", "closes"), ("ghost", "now"), ("ghost", "mk_since_notify")]

    def effects(self, c):
        c.st.ghost["mk_since_notify"] = TRUE

    def raises(self, c):
        return []

    def post(self, c):
        g1, g0 = c.st.ghost, c.old.ghost
        a = qvar("a")
        now = g1["now"]
        out = [("Inv-preserved:keep-alive-queue", keep_inv(c.st)), ("Inv-preserved:registered-and-busy-connections", reg_inv(c.st)),
               ("every-connection-still-queued-has-time-left", z3.ForAll([a], Implies(sel(g1["KEEP"], a), timeout_of(c.st, a) > now))),
               ("closed-only-idle-keep-alive-connections-whose-deadline-has-passed",
                z3.ForAll([a], Implies(And(sel(g0["C_open"], a), Not(sel(g1["C_open"], a))), And(sel(g0["KEEP"], a), timeout_of(c.old, a) <= now)))),
               ("a-closed-connection-is-dequeued-and-unregistered", z3.ForAll([a], Implies(And(sel(g0["C_open"], a), Not(sel(g1["C_open"], a))),
                                                                                           And(Not(sel(g1["KEEP"], a)), Not(sel(g1["REG"], a)))))),
               ("nothing-else-changes", z3.ForAll([a], Implies(sel(g1["C_open"], a) == sel(g0["C_open"], a),
                                                               And(sel(g1["KEEP"], a) == sel(g0["KEEP"], a), sel(g1["REG"], a) == sel(g0["REG"], a))))),
               ("nothing-opened-or-made-busy", z3.ForAll([a], And(Implies(sel(g1["C_open"], a), sel(g0["C_open"], a)), sel(g1["BUSY"], a) == sel(g0["BUSY"], a))))]
        if c.mode == "call":
            return out + [("counter-follows-the-closes", nr(c) - nr(c, c.old) == -(g1["closes"] - g0["closes"])), ("closes-only-grow", g1["closes"] >= g0["closes"])]
        return accounting(c) + out

    loops = {0: dict(anchor="while True", cands=[
        ("Inv:keep-alive-queue", lambda L: keep_inv(L.st)),
        ("accounting", lambda L: And(L.st.obj(L.self).fields["nr_conns"].t - L.fentry.obj(L.self).fields["nr_conns"].t == -(L.st.ghost["closes"] - L.fentry.ghost["closes"]),
                                     Not(L.st.ghost["double_close"]), Not(L.st.ghost.get("busy_close", FALSE)), L.st.ghost["accepts"] == L.fentry.ghost["accepts"])),
        ("clock-read-once", lambda L: And(L.st.ghost["now"] == L.now.t, L.st.cheap[("TConnObj", "timeout#0")] == L.fentry.cheap[("TConnObj", "timeout#0")])),
        ("closed-were-expired", lambda L: _mk_closed(L)),
        ("rest-untouched", lambda L: _mk_rest(L)),
        ("Inv:registered-and-busy-connections", lambda L: reg_inv(L.st)),
        ("initialized-flags-fixed", lambda L: L.st.cheap.get(("TConnObj", "initialized#0")) == L.fentry.cheap.get(("TConnObj", "initialized#0")) if ("TConnObj", "initialized#0") in L.fentry.cheap else TRUE),
    ])}


def _mk_closed(L):
    g1, g0 = L.st.ghost, L.fentry.ghost
    a = qvar("a")
    return z3.ForAll([a], Implies(And(sel(g0["C_open"], a), Not(sel(g1["C_open"], a))),
                                  And(sel(g0["KEEP"], a), timeout_of(L.fentry, a) <= L.now.t, Not(sel(g1["KEEP"], a)), Not(sel(g1["REG"], a)))))


def _mk_rest(L):
    g1, g0 = L.st.ghost, L.fentry.ghost
    a = qvar("a")
    return z3.ForAll([a], And(Implies(sel(g1["C_open"], a) == sel(g0["C_open"], a), And(sel(g1["KEEP"], a) == sel(g0["KEEP"], a), sel(g1["REG"], a) == sel(g0["REG"], a))),
                              Implies(sel(g1["C_open"], a), sel(g0["C_open"], a)), sel(g1["BUSY"], a) == sel(g0["BUSY"], a)))


# ======================================================================================================
# run: the main loop (sequential projection: one iteration at a time)
# ======================================================================================================
inline("gunicorn.workers.gthread:ThreadWorker.is_parent_alive")


class GTmp(ClassModel):
    def call(self, ex, st, self_v, meth, args, kwargs, node):
        if meth == "notify":
            g = st.ghost
            g["mk_ok"] = And(g["mk_ok"], g["mk_since_notify"])
            g["mk_since_notify"] = FALSE
            return [ex.res(st, NONE)]
        return None


class GSock(ClassModel):
    def call(self, ex, st, self_v, meth, args, kwargs, node):
        if meth in ("setblocking", "close"):
            return [ex.res(st, NONE)]
        if meth == "getsockname":
            return [ex.res(st, Opaque("server-address"))]
        return None


class RunPoller(ClassModel):
    """the selector inside run(): remembers the acceptor callbacks registered for the listeners and reports, per select(),
    one of a few event batches: nothing / one listener / both listeners / one readable client / listener + client"""

    def call(self, ex, st, self_v, meth, args, kwargs, node):
        from .gthreadmodel import Poller
        o = st.obj(self_v)
        if meth == "register" and not isinstance(args[0], SymRef):
            o.fields["g_acceptors"] = st.alloc(HList(list(ex.concrete_items(st, o.fields["g_acceptors"])) + [STuple([args[0], args[2]])]))
            return [ex.res(st, NONE)]
        if meth == "select":
            w_ = st.obj(st.ghost["worker_ref"])
            hb = w_.fields["timeout"].t                 # the heartbeat period the arbiter gave this worker (cfg.timeout / 2)
            arg = args[0]
            argt = arg.t if isinstance(arg, (SInt, SReal)) else None
            if argt is None:
                raise Unsupported("select timeout %r" % (arg,))
            if isinstance(arg, SInt):
                argt = z3.ToReal(argt)
            st.ghost["wait_ok"] = And(st.ghost["wait_ok"], Or(hb == 0, argt <= hb))
            accs = ex.concrete_items(st, o.fields["g_acceptors"])
            outs = []

            def key(s, fileobj, data):
                return STuple([s.alloc(HObj("SelKey", {"fileobj": fileobj, "data": data})), SInt(1)])

            def client(s):
                c = fresh_int("readable")
                s.assume(sel(s.ghost["REG"], c))            # a selector only reports registered descriptors
                from pyvc.exec import SPartial
                from pyvc.values import FuncV
                cb = SPartial(FuncV("gunicorn.workers.gthread:ThreadWorker.on_client_socket_readable", st.ghost["worker_ref"]), [SymRef("TConnObj", c)])
                return key(s, SymRef("CSock", c), cb)
            batches = [lambda s: [], lambda s: [key(s, *accs[0].items)], lambda s: [key(s, *a.items) for a in accs], lambda s: [client(s)],
                       lambda s: [key(s, *accs[0].items), client(s)]]
            for b in batches:
                s2 = st.fork()
                outs.append(ex.res(s2, s2.alloc(HList(b(s2)))))
            return outs
        return Poller.call(Poller(), ex, st, self_v, meth, args, kwargs, node)


def _futures_wait(ex, st, self_v, args, kwargs, node):
    """concurrent.futures.wait: blocks up to `timeout`; reports zero or one finished future"""
    to = kwargs.get("timeout")
    if "worker_ref" in st.ghost and "wait_ok" in st.ghost and isinstance(to, (SInt, SReal)) and not st.ghost.get("loop_left"):
        hb = st.obj(st.ghost["worker_ref"]).fields["timeout"].t
        tt = z3.ToReal(to.t) if isinstance(to, SInt) else to.t
        st.ghost["wait_ok"] = And(st.ghost["wait_ok"], Or(hb == 0, tt <= hb))
    s2 = st.fork()
    return [ex.res(st, st.alloc(HObj("WaitResult", {"done": st.alloc(HList([]))}))),
            ex.res(s2, s2.alloc(HObj("WaitResult", {"done": s2.alloc(HList([SymRef("FutObj", fresh_int("donefut"))]))})))]


@contract("gunicorn.workers.gthread:ThreadWorker.run", props=("C13", "C18", "C04", "C11"))
class GRun(Contract):
    """per iteration: connections are accepted only below the limit (call precondition of accept at every call site), the
    keep-alive reaper runs in EVERY iteration that completes, the data-structure invariants hold at every loop head"""
    weight = 3

    def cases(self, env):
        from .workerlife import _getppid_stub
        st = State()
        w = mk_tworker(env, st)
        env.class_models.update({"GSock": GSock(), "RunPoller": RunPoller(), "GTmp": GTmp(), "GListener": GListener2()})
        STUBS["concurrent.futures.wait"] = _futures_wait
        STUBS["concurrent.futures._base.wait"] = _futures_wait
        o = st.obj(w)
        socks = [st.alloc(HObj("GListener", {"g_n": SInt(k)})) for k in range(2)]
        o.fields.update({"sockets": st.alloc(HList(socks)), "poller": st.alloc(HObj("RunPoller", {"g_acceptors": st.alloc(HList([]))})),
                         "tmp": st.alloc(HObj("GTmp", {})), "ppid": SInt(z3.Int("self.ppid"))})
        st.ghost["worker_ref"] = w
        st.ghost["mk_ok"] = TRUE
        st.ghost["mk_since_notify"] = TRUE
        st.ghost["wait_ok"] = TRUE
        hbp = z3.Real("self.timeout")
        st.assume(hbp >= 0)
        o.fields["timeout"] = SReal(hbp)
        return [("run", st, {"self": w}, {})]

    def pre(self, c):
        return [("Inv:keep-alive-queue", keep_inv(c.st)), ("Inv:registered-and-busy-connections", reg_inv(c.st)),
                ("Inv:never-above-the-connection-limit", nr(c) <= W(c).fields["worker_connections"].t)]

    def raises(self, c):
        return [(OSError, None)]

    def post(self, c):
        return [("keep-alive-reaper-ran-in-every-completed-iteration", c.st.ghost["mk_ok"]),
                ("Inv:never-above-the-connection-limit", nr(c) <= W(c).fields["worker_connections"].t),
                # C18 / C04: leaving the loop (max_requests reached, TERM) must not drop requests that were already accepted and
                # queued for a handler thread: the pool is shut down WITHOUT cancelling pending work
                # C11: between two heartbeats the loop never blocks longer than the heartbeat period it was given
                ("waits-inside-the-loop-are-bounded-by-the-heartbeat-period", c.st.ghost["wait_ok"]) if False else ("waits-inside-the-loop-are-bounded-by-the-heartbeat-period", c.st.ghost["wait_ok"]),
                ("handlers-already-queued-are-not-cancelled-when-the-loop-ends", Not(c.st.ghost.get("pool_cancelled_pending", FALSE))),
                ("the-pool-is-shut-down-once", c.st.ghost.get("pool_shutdowns", iv(0)) == 1)]

    loops = {0: dict(anchor="for sock in self.sockets", cands=[]),
             1: dict(anchor="while self.alive", cands=[
                 ("mk_ok", lambda L: L.st.ghost["mk_ok"]),
                 ("wait_ok", lambda L: L.st.ghost["wait_ok"]),
                 ("mk-ran-since-last-notify", lambda L: L.st.ghost["mk_since_notify"]),
                 ("Inv:keep-alive-queue", lambda L: keep_inv(L.st)),
                 ("Inv:registered-and-busy-connections", lambda L: reg_inv(L.st)),
                 ("Inv:never-above-the-connection-limit", lambda L: L.st.obj(L.self).fields["nr_conns"].t <= L.st.obj(L.self).fields["worker_connections"].t),
             ])}


class GListener2(GListener):
    def call(self, ex, st, self_v, meth, args, kwargs, node):
        if meth in ("setblocking", "close"):
            return [ex.res(st, NONE)]
        if meth == "getsockname":
            return [ex.res(st, Opaque("server-address"))]
        return GListener.call(self, ex, st, self_v, meth, args, kwargs, node)
