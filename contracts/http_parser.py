"""Contract for gunicorn/http/parser.py: Parser.__next__ (drain the previous body, then parse the next request)."""
import z3

from pyvc.contracts import contract, Contract, inline
from pyvc.smt import And, Or, Not, Implies, If, iv, fresh_int, TRUE, FALSE
from pyvc.values import SInt, SBool, SNone, NONE, SStr, STuple, Ref, HObj, HBio, HList, Opaque, SOpt
from pyvc.shapes import WinShape, BoolShape, IntShape
from .pmodel import base_state, mk_unreader, RI, u_pos, N
from .http_body import mk_body, b_cur, b_end, b_rc, RI_body, MAXSIZE
from .http_message import errs, oserror, mk_cfg, RequestParse
from .http_chunked import header_raises


@contract("abstract:PrevMessage.should_close", props=("C01", "C07"))
class PrevShouldClose(Contract):
    """the previous message's persistence decision (Message.should_close is verified separately): any boolean"""
    trusted = True
    params = ["self"]

    def result_shape(self, c):
        return BoolShape()


@contract("abstract:RequestFactory.__call__", props=("C01", "C07"))
class RequestFactory(Contract):
    """constructing the next Request = Message.__init__ (verified separately): parses from the CURRENT unreader position;
    here: an opaque new message object, or any parser exception"""
    trusted = True
    params = ["self", "cfg", "unreader", "peer_addr", "req_number"]

    def raises(self, c):
        E = errs(c)
        names = ["NoMoreData", "LimitRequestLine", "LimitRequestHeaders", "InvalidRequestLine", "InvalidRequestMethod",
                 "InvalidHTTPVersion", "InvalidHeader", "InvalidHeaderName", "ObsoleteFolding", "InvalidSchemeHeaders",
                 "ForbiddenProxyRequest", "InvalidProxyLine", "UnsupportedTransferCoding"]
        return [(StopIteration, None)] + [(getattr(E, n), None) for n in names] + [oserror(c)]

    def pre(self, c):
        # ghost protocol: a new request may only be parsed once the previous body has been consumed completely
        g = c.st.ghost
        out = []
        if "prev_body" in g:
            b = g["prev_body"]
            out.append(("previous-body-fully-drained", b_cur(c.st, b) == b_end(c.st, b)))
        out.append(("request-number-is-previous+1", c.a["req_number"].t == g["req_count0"] + 1))
        return out

    def result_shape(self, c):
        return c.st.alloc(HObj("NewMessage", {}))


@contract("gunicorn.http.parser:Parser.__next__", props=("C01", "C07"))
class ParserNext(Contract):
    exact_raises = False

    def cases(self, env):
        env.use_class("gunicorn.http.parser", "Parser")
        out = []
        for has_prev in (False, True):
            st = base_state(env)
            u = mk_unreader(env, st)
            cfg = mk_cfg(env, st)
            rc = z3.Int("req_count")
            st.assume(rc >= 0)
            fields = {"cfg": cfg, "unreader": u, "source_addr": Opaque("addr"), "req_count": SInt(rc),
                      "mesg_class": st.alloc(HObj("RequestFactory", {}))}
            st.ghost["req_count0"] = rc
            if has_prev:
                body = mk_body(env, st)
                st.assume(b_end(st, body) < MAXSIZE)
                fields["mesg"] = st.alloc(HObj("PrevMessage", {"body": body}))
                st.ghost["prev_body"] = body
            else:
                fields["mesg"] = NONE
            slf = st.alloc(HObj("Parser", fields))
            out.append(("prev=%s" % has_prev, st, {"self": slf}, {}))
        return out

    def pre(self, c):
        m = c.st.obj(c.a["self"]).fields["mesg"]
        if isinstance(m, SNone):
            return []
        return RI_body(c.st, c.st.obj(m).fields["body"])

    def raises(self, c):
        return RequestFactory.raises(RequestFactory(), c) + [(errs(c).ChunkMissingTerminator, None), (errs(c).InvalidChunkSize, None), (errs(c).LimitRequestLine, None), (errs(c).LimitRequestHeaders, None)]

    def post(self, c):
        o1, o0 = c.st.obj(c.a["self"]), c.old.obj(c.a["self"])
        res = c.result
        out = [("request-counter-incremented", o1.fields["req_count"].t == o0.fields["req_count"].t + 1),
               ("returns-the-newly-parsed-message", TRUE if isinstance(res, Ref) and c.st.obj(res).cls == "NewMessage" and isinstance(o1.fields["mesg"], Ref) and o1.fields["mesg"].oid == res.oid else FALSE)]
        m0 = o0.fields["mesg"]
        if not isinstance(m0, SNone):
            b = c.old.obj(m0).fields["body"]
            out.append(("previous-body-drained", b_cur(c.st, b) == b_end(c.st, b)))
        return out

    loops = {0: dict(anchor="while data", cands=[
        ("RI(prev body)", lambda L: And(*[f for _, f in RI_body(L.st, _pb(L))])),
        ("end-fixed", lambda L: b_end(L.st, _pb(L)) == b_end(L.entry, _pb(L))),
        ("data-empty-only-at-end", lambda L: Implies(L.data.length() == 0, b_cur(L.st, _pb(L)) == b_end(L.st, _pb(L)))),
    ])}


def _pb(L):
    return L.st.ghost["prev_body"]
