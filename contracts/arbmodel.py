"""Ghost process model + model of Arbiter.WORKERS for the master-process contracts (C03, C04, C10, C11, C14).

Kernel (ASSUMED, POSIX):
  K_state[pid] in {0 none, 1 alive, 2 zombie};  K_status[pid] = wait status of a zombie
  os.fork()    : parent branch returns a fresh pid (K_state was 0, becomes 1); child branch returns 0
  os.kill(p,s) : K_state[p]==0 -> OSError(ESRCH); else the signal is recorded: K_sig[s][p] += 1
  os.waitpid(-1, WNOHANG): some zombie z -> (z, K_status[z]) and K_state[z] := 0; no zombie but a child -> (0, 0);
                           no child at all -> OSError(ECHILD)
  time.time()/monotonic(): non-decreasing ghost clock; time.sleep(d) advances it by at least 0
WORKERS: map pid -> worker reference (0 = absent) + size; workers are symbolic references with fields age / aborted / pid /
  tmp (heartbeat file: last_update() reads ghost K_hb[ref]).
"""
import errno as _errno
import signal as _signal

import z3

from pyvc.env import ClassModel, STUBS, R1
from pyvc.smt import And, Or, Not, Implies, If, iv, fresh_int, fresh_bool, fresh_name, I, B, R, TRUE, FALSE, const_int
from pyvc.values import (SInt, SBool, SReal, SNone, NONE, SStr, STuple, Ref, SymRef, HObj, HList, SExc, Opaque, Unsupported,
                         SArr, SymSeqA, qvar)
from pyvc.shapes import IntShape, BoolShape, RealShape, TupleShape, SymRefShape, ListShape
from .osmodel import oserror

AII = z3.ArraySort(I, I)


def sel(a, i):
    return z3.Select(a, i)


def mk_kernel(st):
    st.ghost["K_state"] = z3.Array("K_state", I, I)
    st.ghost["K_status"] = z3.Array("K_status", I, I)
    st.ghost["K_hb"] = z3.Array("K_hb", I, R)
    st.ghost["now"] = z3.Real("now0")
    p = z3.Int("p?K")
    st.assume(z3.ForAll([p], And(sel(st.ghost["K_state"], p) >= 0, sel(st.ghost["K_state"], p) <= 2)))
    for s in ("SIGTERM", "SIGQUIT", "SIGKILL", "SIGABRT", "SIGUSR1"):
        st.ghost["K_sig_" + s] = z3.Array("K_sig_%s" % s, I, I)
    st.ghost["kill_hook"] = _kill_hook


SIGNAME = {int(getattr(_signal, n)): n for n in ("SIGTERM", "SIGQUIT", "SIGKILL", "SIGABRT", "SIGUSR1")}


def _kill_hook(ex, st, pid, sig):
    s = const_int(sig.t)
    if s is None or s not in SIGNAME:
        raise Unsupported("os.kill with signal %r" % (sig,))
    key = "K_sig_" + SIGNAME[s]
    exists = sel(st.ghost["K_state"], pid.t) != 0
    a, b = ex.split(st, exists)
    out = []
    if a is not None:
        perm = a.fork()
        arr = a.ghost[key]
        a.ghost[key] = z3.Store(arr, pid.t, sel(arr, pid.t) + 1)
        out.append(ex.res(a, NONE))
        out.append(ex.res_exc(perm, oserror(_errno.EPERM)))
    if b is not None:
        out.append(ex.res_exc(b, oserror(_errno.ESRCH)))
    return out


def _fork(ex, st, self_v, args, kwargs, node):
    child = st.fork()
    pid = fresh_int("forked.pid")
    st.assume(pid > 0, sel(st.ghost["K_state"], pid) == 0)
    st.ghost["K_state"] = z3.Store(st.ghost["K_state"], pid, iv(1))
    st.ghost["forks"] = st.ghost.get("forks", iv(0)) + 1
    child.ghost["in_child"] = True
    bad = st.fork()
    return [ex.res(st, SInt(pid)), ex.res(child, SInt(0)), ex.res_exc(bad, oserror(_errno.EAGAIN))]


def _waitpid(ex, st, self_v, args, kwargs, node):
    K = st.ghost["K_state"]
    p = qvar("p")
    out = []
    # (a) some zombie
    a = st.fork()
    z = fresh_int("reaped.pid")
    a.assume(z > 0, sel(K, z) == 2)
    if ex.feasible(a):
        a.ghost["K_state"] = z3.Store(K, z, iv(0))
        a.ghost["reaped"] = a.ghost.get("reaped", iv(0)) + 1
        out.append(ex.res(a, STuple([SInt(z), SInt(sel(a.ghost["K_status"], z))])))
    # (b) children but no zombie
    b = st.fork()
    b.assume(z3.ForAll([p], sel(K, p) != 2), z3.Exists([p], sel(K, p) == 1))
    if ex.feasible(b):
        out.append(ex.res(b, STuple([SInt(0), SInt(0)])))
    # (c) no child
    c = st
    c.assume(z3.ForAll([p], sel(K, p) == 0))
    if ex.feasible(c):
        out.append(ex.res_exc(c, oserror(_errno.ECHILD)))
    return out


def _time(ex, st, self_v, args, kwargs, node):
    t = z3.Real(fresh_name("now"))
    st.assume(t >= st.ghost["now"])
    st.ghost["now"] = t
    return R1(ex, st, SReal(t))


def _sleep(ex, st, self_v, args, kwargs, node):
    t = z3.Real(fresh_name("now"))
    st.assume(t >= st.ghost["now"])
    st.ghost["now"] = t
    hook = st.ghost.get("sleep_hook")
    if hook is not None:
        hook(ex, st)
    return R1(ex, st, NONE)


def _random(ex, st, self_v, args, kwargs, node):
    r = z3.Real(fresh_name("rnd"))
    st.assume(r >= 0, r < 1)
    return R1(ex, st, SReal(r))


def _exit(ex, st, self_v, args, kwargs, node):
    code = args[0] if args else SInt(0)
    return [ex.res_exc(st, SExc(SystemExit, (code,), {"code": code}))]


for n, f in {"os.fork": _fork, "posix.fork": _fork, "os.waitpid": _waitpid, "posix.waitpid": _waitpid, "time.time": _time,
             "time.monotonic": _time, "time.sleep": _sleep, "random.random": _random, "Random.random": _random,
             "sys.exit": _exit}.items():
    STUBS[n] = f


# ---- WORKERS --------------------------------------------------------------------------------------------------------
WORKER_FIELDS = {"age": IntShape(), "aborted": BoolShape(), "pid": IntShape(), "booted": BoolShape(),
                 "tmp": lambda ex, st, ref: SymRef("WorkerTmpObj", ref.t)}
TMP_FIELDS = {"close": "WorkerTmpObj.close", "last_update": "WorkerTmpObj.last_update"}


def _tmp_close(ex, st, self_v, args, kwargs, node):
    st.ghost["tmp_closed"] = z3.Store(st.ghost.get("tmp_closed", z3.K(I, z3.BoolVal(False))), self_v.t, z3.BoolVal(True))
    return R1(ex, st, NONE)


def _tmp_last_update(ex, st, self_v, args, kwargs, node):
    bad = st.fork()
    bad2 = st.fork()
    return [ex.res(st, SReal(sel(st.ghost["K_hb"], self_v.t))), ex.res_exc(bad, oserror(_errno.EBADF)), ex.res_exc(bad2, SExc(ValueError))]


STUBS["WorkerTmpObj.close"] = _tmp_close
STUBS["WorkerTmpObj.last_update"] = _tmp_last_update


def w_map(st, ref):
    return st.obj(ref).fields["g_map"].t


def w_size(st, ref):
    return st.obj(ref).fields["g_size"].t


def age_of(st, r):
    key = ("WorkerObj", "age#0")
    if key not in st.cheap:
        st.cheap[key] = z3.Array("heap.WorkerObj.age.0", I, I)
    return sel(st.cheap[key], r)


def aborted_of(st, r):
    key = ("WorkerObj", "aborted#0")
    if key not in st.cheap:
        st.cheap[key] = z3.Array("heap.WorkerObj.aborted.0", I, B)
    return sel(st.cheap[key], r)


class WorkersModel(ClassModel):
    def truth(self, ex, st, ref, o):
        return o.fields["g_size"].t > 0

    def contains(self, ex, st, ref, o, item):
        return sel(o.fields["g_map"].t, item.t) != 0

    def getitem(self, ex, st, ref, o, key):
        m = o.fields["g_map"].t
        ok, bad = ex.split(st, sel(m, key.t) != 0)
        out = []
        if ok is not None:
            out.append(ex.res(ok, SymRef("WorkerObj", sel(m, key.t))))
        if bad is not None:
            out.append(ex.res_exc(bad, SExc(KeyError)))
        return out

    def setitem(self, ex, st, ref, o, key, v):
        m = o.fields["g_map"].t
        present = sel(m, key.t) != 0
        o.fields["g_size"] = SInt(If(present, o.fields["g_size"].t, o.fields["g_size"].t + 1))
        o.fields["g_map"] = SArr(z3.Store(m, key.t, v.t))
        st.assume(v.t != 0)
        return [(st, None)]

    def _view(self, ex, st, o, what):
        """snapshot list of the dict's items / keys / values"""
        m = o.fields["g_map"].t
        n = o.fields["g_size"].t
        name = fresh_name("items")
        ip = z3.Array(name + ".pid", I, I)
        ir = z3.Array(name + ".ref", I, I)
        i, j, p = qvar("i"), qvar("j"), qvar("p")
        inv = z3.Array(name + ".idx", I, I)
        st.assume(n >= 0,
                  z3.ForAll([i], Implies(And(0 <= i, i < n), And(sel(m, sel(ip, i)) == sel(ir, i), sel(ir, i) != 0, sel(inv, sel(ip, i)) == i))),
                  z3.ForAll([p], Implies(sel(m, p) != 0, And(0 <= sel(inv, p), sel(inv, p) < n, sel(ip, sel(inv, p)) == p))))
        if what == "items":
            seq = SymSeqA(iv(0), n, [ip, ir], TupleShape([IntShape(), SymRefShape("WorkerObj")]))
        elif what == "keys":
            seq = SymSeqA(iv(0), n, [ip], IntShape())
        else:
            seq = SymSeqA(iv(0), n, [ir], SymRefShape("WorkerObj"))
        return st.alloc(HList(sym=seq))

    def call(self, ex, st, self_v, meth, args, kwargs, node):
        o = st.obj(self_v)
        if meth == "__len__":
            return [ex.res(st, SInt(o.fields["g_size"].t))]
        if meth in ("items", "keys", "values"):
            return [ex.res(st, self._view(ex, st, o, meth))]
        if meth == "pop":
            m = o.fields["g_map"].t
            key = args[0]
            present = sel(m, key.t) != 0
            a, b = ex.split(st, present)
            out = []
            if a is not None:
                oa = a.obj(self_v)
                r = sel(m, key.t)
                oa.fields["g_map"] = SArr(z3.Store(m, key.t, iv(0)))
                oa.fields["g_size"] = SInt(oa.fields["g_size"].t - 1)
                a.assume(oa.fields["g_size"].t >= 0)
                out.append(ex.res(a, SymRef("WorkerObj", r)))
            if b is not None:
                if len(args) > 1:
                    out.append(ex.res(b, args[1]))
                else:
                    out.append(ex.res_exc(b, SExc(KeyError)))
            return out
        return None


WORKERS = WorkersModel()


def _workers_iter(ex, st, v, as_list=False):
    if isinstance(v, Ref) and isinstance(st.obj(v), HObj) and st.obj(v).cls == "WorkersDict":
        raise Unsupported("direct iteration over the live WORKERS dict")
    return None


def mk_workers(env, st, name="WORKERS"):
    env.class_models["WorkersDict"] = WORKERS
    env.symref_models["WorkerObj"] = WORKER_FIELDS
    env.symref_models["WorkerTmpObj"] = TMP_FIELDS
    m = z3.Array(name + ".map", I, I)
    n = z3.Int(name + ".size")
    st.assume(n >= 0)
    p, q = qvar("p"), qvar("q")
    # tracked workers are distinct objects with distinct ages; sizes agree with the map (size 0 <=> empty map)
    st.assume(z3.ForAll([p, q], Implies(And(sel(m, p) != 0, sel(m, q) != 0, p != q), And(sel(m, p) != sel(m, q),
                                                                                    age_of(st, sel(m, p)) != age_of(st, sel(m, q))))),
              (n == 0) == z3.ForAll([p], sel(m, p) == 0))
    return st.alloc(HObj("WorkersDict", {"g_map": SArr(m), "g_size": SInt(n)}))


def _sorted(ex, st, self_v, args, kwargs, node):
    """sorted(seq, key=lambda ...): a permutation of seq, ascending by key (stable order of equal keys not modelled)"""
    seq = ex.sym_seq(st, args[0])
    key = kwargs.get("key")
    if seq is None or key is None:
        items = ex.concrete_items(st, args[0])
        if items is not None and not items:
            return R1(ex, st, st.alloc(HList([])))
        raise Unsupported("sorted() of this argument")
    n = seq.length()
    name = fresh_name("sorted")
    arrays = [z3.Const("%s.c%d" % (name, k), a.sort()) for k, a in enumerate(seq.arrays)]
    out = SymSeqA(iv(0), n, arrays, seq.eshape)
    perm = z3.Array(name + ".perm", I, I)
    inv = z3.Array(name + ".inv", I, I)
    i, j = qvar("i"), qvar("j")

    def keyof(s, idx):
        lam = key
        saved = dict(st.locals)
        npc = len(st.pc)
        st.locals = dict(lam.closure)
        st.locals[lam.node.args.args[0].arg] = s.elem(idx)
        rs = ex.ev(lam.node.body, st)
        st.locals = saved
        if len(rs) != 1 or rs[0].exc is not None or len(st.pc) != npc:
            raise Unsupported("sort key forks")
        return rs[0].v.t
    st.assume(z3.ForAll([i], Implies(And(0 <= i, i < n), And(0 <= sel(perm, i), sel(perm, i) < n, sel(inv, sel(perm, i)) == i,
                                                            *[sel(a2, i) == sel(a1, seq.lo + sel(perm, i)) for a1, a2 in zip(seq.arrays, arrays)]))),
              z3.ForAll([j], Implies(And(0 <= j, j < n), And(0 <= sel(inv, j), sel(inv, j) < n, sel(perm, sel(inv, j)) == j))),
              # the same permutation seen from the input side (triggered by input cells): every input element is in the output
              z3.ForAll([j], Implies(And(0 <= j, j < n), And(0 <= sel(inv, j), sel(inv, j) < n,
                                                            *[sel(a2, sel(inv, j)) == sel(a1, seq.lo + j) for a1, a2 in zip(seq.arrays, arrays)])),
                        patterns=[sel(seq.arrays[0], seq.lo + j)]),
              z3.ForAll([i, j], Implies(And(0 <= i, i < j, j < n), keyof(out, i) <= keyof(out, j))))
    return R1(ex, st, st.alloc(HList(sym=out)))


STUBS["sorted"] = _sorted
