"""Contracts for the chunked request body: ChunkedReader.parse_chunk_size / parse_trailers / parse_chunked (generator) / read."""
import z3

from pyvc.contracts import contract, Contract, inline
from pyvc.smt import And, Or, Not, Implies, If, Min, Max, iv, fresh_int, I, TRUE, FALSE
from pyvc.values import (SInt, SBool, SNone, NONE, SStr, STuple, Ref, HObj, HBio, HList, mk_win, qvar, SExc, Opaque,
                         in_class, SOpt)
from pyvc.shapes import WinShape, IntShape, TupleShape, ListShape, OptionShape, ConstShape
from pyvc.strops import hexval, HEXDIGITS
from .pmodel import (T, N, base_state, mk_unreader, u_buf, u_sp, u_pos, RI, RI_and, is_T, twin, t_window, crlf_at,
                     first_crlf, no_crlf)
from .http_message import fcrlf, fc_axiom, fc_def, errs, oserror, io_adjacent, mk_request_shell, Tsel, HDR_SHAPE
from .http_body import Bd, is_Bd, MAXSIZE
from .cfgmodel import mk_cfg

hexend = z3.Function("hexend", I, I)      # ghost: first position >= q whose byte is not a hex digit
f2crlf = z3.Function("f2crlf", I, I)      # ghost: position of the first CRLFCRLF at/after d, or -1


def is_hex(c):
    return in_class(c, HEXDIGITS)


def hx_axiom(q):
    e = hexend(q)
    p = qvar("p")
    return And(e >= q, Not(is_hex(Tsel(e))), z3.ForAll([p], Implies(And(q <= p, p < e), is_hex(Tsel(p)))))


owsend = z3.Function("owsend", I, I)      # ghost: first position >= e whose byte is neither SP nor HTAB


def ows_axiom(e):
    s = owsend(e)
    p = qvar("p")
    isows = lambda c: in_class(c, [(9, 9), (32, 32)])
    return And(s >= e, Not(isows(Tsel(s))), z3.ForAll([p], Implies(And(e <= p, p < s), isows(Tsel(p)))))


def crlf2_at(p):
    return And(crlf_at(p), crlf_at(p + 2))


def f2_axiom(d):
    X = f2crlf(d)
    p = qvar("p")
    return Or(And(X == -1, z3.ForAll([p], Implies(And(d <= p, p + 4 <= N), Not(crlf2_at(p))))),
              And(d <= X, X + 4 <= N, crlf2_at(X), z3.ForAll([p], Implies(And(d <= p, p < X), Not(crlf2_at(p))))))


def mk_chunked_reader(env, st, u, cfg):
    env.use_class("gunicorn.http.body", "ChunkedReader")
    req = mk_request_shell(env, st, u, cfg=cfg, trailers=st.alloc(HList([])),
                           peer_addr=SStr.lit(""), scheme=SStr.lit("http"),
                           limit_request_fields=SInt(z3.Int("req.limit_request_fields")),
                           limit_request_field_size=SInt(z3.Int("req.limit_request_field_size")),
                           limit_request_line=SInt(z3.Int("req.limit_request_line")),
                           max_buffer_headers=SInt(z3.Int("req.max_buffer_headers")))
    st.assume(z3.Int("req.limit_request_fields") >= 1, z3.Int("req.limit_request_field_size") >= 0,
              z3.Int("req.limit_request_line") >= 0, z3.Int("req.max_buffer_headers") >= 0)
    return st.alloc(HObj("ChunkedReader", {"req": req}))


HEADER_ERRORS = ("LimitRequestHeaders", "InvalidHeader", "InvalidHeaderName", "ObsoleteFolding", "InvalidSchemeHeaders")


def header_raises(c):
    E = errs(c)
    return [(getattr(E, n), None) for n in HEADER_ERRORS]


# ======================================================================================================
# parse_trailers
# ======================================================================================================
@contract("gunicorn.http.body:ChunkedReader.parse_trailers", props=("C01", "C06", "C07", "C12"))
class ParseTrailers(Contract):
    def cases(self, env):
        st = base_state(env)
        u = mk_unreader(env, st, empty_buf=True)
        cfg = mk_cfg(env, st, strip_header_spaces=False, permit_obsolete_folding=False)
        slf = mk_chunked_reader(env, st, u, cfg)
        d = fresh_int("d")
        pos = u_sp(None, u, st)
        st.assume(0 <= d, d <= pos)
        return [("trailers", st, {"self": slf, "unreader": u, "data": twin(d, pos)}, {})]

    def d0(self, c, st=None):
        st = st or c.st
        return u_pos(c, c.a["unreader"], st) - c.a["data"].length()

    def ghost_axioms(self, c):
        d = self.d0(c)
        return [f2_axiom(d), fc_def(d, N)]

    def pre(self, c):
        u = c.a["unreader"]
        d = self.d0(c)
        req = c.st.obj(c.a["self"]).fields["req"]
        cfg = c.st.obj(req).fields["cfg"]
        return list(RI(c, u)) + [
            ("data-holds-bytes-just-before-unreader-position", io_adjacent(c.a["data"], u_pos(c, u))),
            ("unreader-buffer-empty", u_buf(c, u).length() == 0),
            ("unsafe:strip_header_spaces-off", Not(c.ex.truth(c.field(cfg, "strip_header_spaces"), c.st))),
            ("unsafe:permit_obsolete_folding-off", Not(c.ex.truth(c.field(cfg, "permit_obsolete_folding"), c.st)))]

    def modifies(self, c):
        u = c.a["unreader"]
        req = c.st.obj(c.a["self"]).fields["req"]
        return [("field", u, "g_sp"), ("obj", c.st.obj(u).fields["buf"], WinShape(T)),
                ("field", req, "trailers", ListShape(HDR_SHAPE))]

    def result_shape(self, c):
        return OptionShape(ConstShape(SStr.lit(b"")))

    def raises(self, c):
        E = errs(c)
        d = self.d0(c)
        lim = z3.Int("req.max_buffer_headers")
        return [(E.NoMoreData, And(Not(And(d + 2 <= N, crlf_at(d))), f2crlf(d) == -1, N - d <= lim))] + header_raises(c) + [oserror(c)]

    def exc_post(self, c):
        out = list(RI(c, c.a["unreader"]))
        if c.exc is not None and c.exc.cls.__name__ == "NoMoreData":
            out.append(("whole-stream-consumed", u_pos(c, c.a["unreader"]) == N))
        return out

    def post(self, c):
        u = c.a["unreader"]
        d = self.d0(c, c.old)
        pos1 = u_pos(c, u)
        X = f2crlf(d)
        return list(RI(c, u)) + [
            ("stream-position-is-end-of-trailer-section",
             If(And(d + 2 <= N, crlf_at(d)), pos1 == d + 2, And(X >= 0, pos1 == X + 4))),
            # C12: a trailer section is accepted only if it (with its terminator) fits the header buffer limit - whatever the reads
            ("accepted-trailer-section-fits-the-header-buffer-limit", Or(And(d + 2 <= N, crlf_at(d)), X - d + 3 <= z3.Int("req.max_buffer_headers"))),
        ]

    loops = {0: dict(anchor="while idx < 0 and (not done)", cands=[
        ("RI(unreader)", lambda L: RI_and(_C(L), L.unreader, L.st)),
        ("unreader-buffer-empty", lambda L: u_buf(_C(L), L.unreader, L.st).length() == 0),
        ("buf==T[d:pos)", lambda L: is_T(L.st.obj(L.buf).content, _d(L), u_pos(_C(L), L.unreader, L.st))),
        ("idx==find(CRLFCRLF)", lambda L: _idx_inv(L)),
        ("done==starts-with-CRLF", lambda L: L.ex.truth(L.done, L.st) == And(u_pos(_C(L), L.unreader, L.st) >= _d(L) + 2, crlf_at(_d(L)))),
        ("pos>=d", lambda L: u_pos(_C(L), L.unreader, L.st) >= _d(L)),
    ])}


class _C:
    def __init__(self, L):
        self.st = L.st


def _d(L):
    return u_pos(_C(L), L.unreader, L.fentry) - L.fentry.locals["data"].length()


def _idx_inv(L):
    d = _d(L)
    pos = u_pos(_C(L), L.unreader, L.st)
    idx = L.st.locals["idx"].t
    p = qvar("p")
    return Or(And(idx == -1, z3.ForAll([p], Implies(And(d <= p, p + 4 <= pos), Not(crlf2_at(p))))),
              And(idx >= 0, d + idx + 4 <= pos, crlf2_at(d + idx),
                  z3.ForAll([p], Implies(And(d <= p, p < d + idx), Not(crlf2_at(p))))))


# ======================================================================================================
# parse_chunk_size
# ======================================================================================================
@contract("gunicorn.http.body:ChunkedReader.parse_chunk_size", props=("C01", "C06", "C12"))
class ParseChunkSize(Contract):
    def cases(self, env):
        out = []
        for with_data in (False, True):
            st = base_state(env)
            u = mk_unreader(env, st, empty_buf=with_data)
            cfg = mk_cfg(env, st, strip_header_spaces=False, permit_obsolete_folding=False)
            slf = mk_chunked_reader(env, st, u, cfg)
            if with_data:
                q = fresh_int("q")
                pos = u_sp(None, u, st)
                st.assume(0 <= q, q <= pos)
                data = twin(q, pos)
            else:
                data = NONE
            out.append(("data=%s" % ("window" if with_data else "None"), st, {"self": slf, "unreader": u, "data": data}, {}))
        return out

    def q0(self, c, st=None):
        st = st or c.st
        pos = u_pos(c, c.a["unreader"], st)
        if isinstance(c.a["data"], SNone):
            return pos
        return pos - c.a["data"].length()

    def ghost_axioms(self, c):
        q = self.q0(c)
        return [fc_def(q, N), fc_axiom(q), hx_axiom(q), ows_axiom(hexend(q)), f2_axiom(fcrlf(q) + 2)]

    def pre(self, c):
        u = c.a["unreader"]
        q = self.q0(c)
        out = list(RI(c, u))
        req = c.st.obj(c.a["self"]).fields["req"]
        cfg = c.st.obj(req).fields["cfg"]
        out += [("unsafe:strip_header_spaces-off", Not(c.ex.truth(c.field(cfg, "strip_header_spaces"), c.st))),
                ("unsafe:permit_obsolete_folding-off", Not(c.ex.truth(c.field(cfg, "permit_obsolete_folding"), c.st)))]
        if not isinstance(c.a["data"], SNone):
            out += [("data-holds-bytes-just-before-unreader-position", io_adjacent(c.a["data"], u_pos(c, u))),
                    ("unreader-buffer-empty", u_buf(c, u).length() == 0)]
        # generator protocol (ghost): a new chunk header may only be parsed once the previous chunk is fully delivered
        g = c.st.ghost
        if c.mode == "call" and "chunk_ds" in g and not isinstance(c.a["data"], SNone):
            end = g["chunk_ds"] + g["chunk_size"]
            out += [("previous-chunk-fully-delivered", g["y_pos"] == end),
                    ("previous-chunk-terminated-by-CRLF", And(end + 2 <= N, crlf_at(end))),
                    ("next-chunk-header-starts-right-after", q == end + 2)]
        return out

    def modifies(self, c):
        u = c.a["unreader"]
        req = c.st.obj(c.a["self"]).fields["req"]
        return [("field", u, "g_sp"), ("obj", c.st.obj(u).fields["buf"], WinShape(T)),
                ("field", req, "trailers", ListShape(HDR_SHAPE))]

    def result_shape(self, c):
        return TupleShape([IntShape(), OptionShape(WinShape(T))])

    def raises(self, c):
        E = errs(c)
        return [(E.InvalidChunkSize, None), (E.NoMoreData, None), (E.LimitRequestLine, None)] + header_raises(c) + [oserror(c)]

    def exc_post(self, c):
        out = list(RI(c, c.a["unreader"]))
        lim = z3.Int("req.limit_request_line")
        q = self.q0(c, c.old)
        if c.exc is not None and c.exc.cls.__name__ == "LimitRequestLine":
            # C12 / C06: raised only for a chunk-size line longer than the limit (a function of the stream, not of the reads)
            F = fcrlf(q)
            out.append(("LimitRequestLine-only-when-the-chunk-size-line-exceeds-the-limit", And(lim > 0, Or(And(F >= 0, F - q > lim), And(F == -1, N - q > lim + 1)))))
        if c.exc is not None and c.exc.cls.__name__ == "NoMoreData" and isinstance(c.a["data"], SNone) is False:
            pass
        return out

    def effects(self, c):
        # ghost bookkeeping for the generator protocol: where the payload of this chunk starts and how long it is
        size, rest = c.result.items
        g = c.st.ghost
        w = rest.inner.single_win() if isinstance(rest, SOpt) else (rest.single_win() if isinstance(rest, SStr) else None)
        g["last_size"] = size.t
        if w is not None:
            ds = fcrlf(self.q0(c, c.old)) + 2       # payload starts right after the chunk header line
            g["chunk_ds"] = ds
            g["chunk_size"] = size.t
            g["y_pos"] = ds

    def post(self, c):
        u = c.a["unreader"]
        q = self.q0(c, c.old)
        pos1 = u_pos(c, u)
        res = c.result
        if not isinstance(res, STuple) or len(res.items) != 2 or not isinstance(res.items[0], SInt):
            return [("result-is-(size, rest)", FALSE)]
        size, rest = res.items
        F = fcrlf(q)
        e = hexend(q)
        p = qvar("p")
        s = owsend(e)
        ext_ok = Or(e == F, And(s < F, Tsel(s) == 59,
                                z3.ForAll([p], Implies(And(s <= p, p < F), And(Tsel(p) != 0, Tsel(p) != 10, Tsel(p) != 13)))))
        out = list(RI(c, u)) + [
            ("chunk-header-line-found", F >= 0),
            ("accepted-chunk-size-line-is-within-the-line-limit", Or(z3.Int("req.limit_request_line") == 0, F - q <= z3.Int("req.limit_request_line"))),
            ("size-is-1*HEXDIG-at-line-start", And(e > q, e <= F, size.t == hexval(T, q, e), size.t >= 0)),
            ("rest-of-line-is-empty-or-BWS;ext-without-CR-LF-NUL", ext_ok),
        ]
        some = rest.some if isinstance(rest, SOpt) else (FALSE if isinstance(rest, SNone) else TRUE)
        inner = rest.inner if isinstance(rest, SOpt) else rest
        out.append(("rest-is-None-iff-last-chunk", some == (size.t > 0)))
        if not isinstance(inner, SNone):
            out.append(("size>0:rest==T[F+2:pos')", Implies(size.t > 0, And(is_T(inner, F + 2, pos1), pos1 == u_sp(c, u), pos1 >= F + 2))))
        X = f2crlf(F + 2)
        out.append(("size==0:trailer-section-consumed-or-stream-ended",
                    Implies(size.t == 0, Or(And(F + 4 <= N, crlf_at(F + 2), pos1 == F + 4), And(X >= 0, pos1 == X + 4),
                                            And(pos1 == N, Not(And(F + 4 <= N, crlf_at(F + 2))), X == -1)))))
        return out

    loops = {0: dict(anchor="while idx < 0", cands=[
        ("RI(unreader)", lambda L: RI_and(_C(L), L.unreader, L.st)),
        ("unreader-buffer-empty-after-first-read", lambda L: Or(u_buf(_C(L), L.unreader, L.st).length() == 0,
                                                                 And(L.st.obj(L.buf).content.length() == 0, u_pos(_C(L), L.unreader, L.st) == _q(L)))),
        ("buf==T[q:pos)", lambda L: is_T(L.st.obj(L.buf).content, _q(L), u_pos(_C(L), L.unreader, L.st) if True else 0)),
        ("pos>=q", lambda L: u_pos(_C(L), L.unreader, L.st) >= _q(L)),
        ("idx==find(CRLF)", lambda L: _idx1_inv(L)),
    ])}


def _idx1_inv(L):
    q = _q(L)
    pos = u_pos(_C(L), L.unreader, L.st)
    idx = L.st.locals["idx"].t
    p = qvar("p")
    return Or(And(idx == -1, z3.ForAll([p], Implies(And(q <= p, p + 2 <= pos), Not(crlf_at(p))))),
              And(idx >= 0, q + idx + 2 <= pos, crlf_at(q + idx),
                  z3.ForAll([p], Implies(And(q <= p, p < q + idx), Not(crlf_at(p))))))


def _q(L):
    pos = u_pos(_C(L), L.unreader, L.fentry)
    d = L.fentry.locals["data"]
    return pos if isinstance(d, SNone) else pos - d.length()


# ======================================================================================================
# parse_chunked (generator): every yielded piece is the next part of the current chunk's payload, in order
# ======================================================================================================
@contract("gunicorn.http.body:ChunkedReader.parse_chunked", props=("C01", "C06", "C07"))
class ParseChunked(Contract):
    """generator: `yield x` is a ghost event. Ghost state (set by the parse_chunk_size contract at its call sites):
    chunk_ds (payload start), chunk_size (RFC size of the current chunk), y_pos (stream position up to which the payload
    has been handed out). Obligations at every yield: the piece is T[y_pos : b) with b <= chunk_ds + chunk_size.
    The call.pre obligations of parse_chunk_size then require: previous payload fully delivered, followed by CRLF, and the
    next chunk header starting right after it. Frame assumption: nobody else touches the unreader between yields
    (the generator owns it; discharged at the only consumer, ChunkedReader.read, which never touches it)."""

    def cases(self, env):
        st = base_state(env)
        u = mk_unreader(env, st)
        cfg = mk_cfg(env, st, strip_header_spaces=False, permit_obsolete_folding=False)
        slf = mk_chunked_reader(env, st, u, cfg)
        return [("gen", st, {"self": slf, "unreader": u}, {})]

    def pre(self, c):
        u = c.a["unreader"]
        req = c.st.obj(c.a["self"]).fields["req"]
        cfg = c.st.obj(req).fields["cfg"]
        return list(RI(c, u)) + [
            ("unsafe:strip_header_spaces-off", Not(c.ex.truth(c.field(cfg, "strip_header_spaces"), c.st))),
            ("unsafe:permit_obsolete_folding-off", Not(c.ex.truth(c.field(cfg, "permit_obsolete_folding"), c.st)))]

    def raises(self, c):
        E = errs(c)
        return [(E.InvalidChunkSize, None), (E.NoMoreData, None), (E.ChunkMissingTerminator, None), (E.LimitRequestLine, None)] + header_raises(c) + [oserror(c)]

    def post(self, c):
        g = c.st.ghost
        return list(RI(c, c.a["unreader"])) + [("ends-only-after-a-last-chunk", g.get("last_size", iv(-1)) == 0)]

    def yield_hook(self, c, v):
        g = c.st.ghost
        ex = c.ex
        if "chunk_ds" not in g:
            ex.oblige("yield.inside-a-chunk", "yield", c.st, FALSE)
            return
        tw = t_window(v)
        if tw is None:
            ex.oblige("yield.piece-is-a-stream-window", "yield", c.st, FALSE)
            return
        if tw[0] == "empty":
            return
        lo, hi = tw[1], tw[2]
        end = g["chunk_ds"] + g["chunk_size"]
        ex.oblige("yield.piece-continues-the-payload-in-order", "yield", c.st, Or(lo == hi, lo == g["y_pos"]))
        ex.oblige("yield.piece-stays-inside-the-chunk", "yield", c.st, Or(lo == hi, And(lo >= g["chunk_ds"], hi <= end)))
        g["y_pos"] = If(lo == hi, g["y_pos"], hi)

    loops = {0: dict(anchor="while size > 0", cands=[
        ("RI(unreader)", lambda L: RI_and(_C(L), L.unreader, L.st)),
        ("unreader-buffer-empty", lambda L: Implies(L.size.t > 0, u_buf(_C(L), L.unreader, L.st).length() == 0)),
        ("size>=0", lambda L: L.size.t >= 0),
        ("rest-is-None-iff-size==0", lambda L: _opt(L.rest)[0] == (L.size.t > 0)),
        ("rest==T[chunk_ds:pos)", lambda L: Implies(_opt(L.rest)[0], is_T(_opt(L.rest)[1], _g(L, "chunk_ds"), u_pos(_C(L), L.unreader, L.st)))),
        ("size==chunk_size", lambda L: Implies(L.size.t > 0, L.size.t == _g(L, "chunk_size"))),
        ("nothing-delivered-yet", lambda L: Implies(L.size.t > 0, _g(L, "y_pos") == _g(L, "chunk_ds"))),
        ("pos>=chunk_ds", lambda L: Implies(L.size.t > 0, u_pos(_C(L), L.unreader, L.st) >= _g(L, "chunk_ds"))),
        ("last_size==size", lambda L: _g(L, "last_size") == L.size.t),
    ]), 1: dict(anchor="while size > len(rest)", cands=[
        ("RI(unreader)", lambda L: RI_and(_C(L), L.unreader, L.st)),
        ("unreader-buffer-empty", lambda L: u_buf(_C(L), L.unreader, L.st).length() == 0),
        ("rest-not-None", lambda L: _opt(L.rest)[0]),
        ("rest==T[y_pos:pos)", lambda L: is_T(_opt(L.rest)[1], _g(L, "y_pos"), u_pos(_C(L), L.unreader, L.st))),
        ("size>0", lambda L: L.size.t > 0),
        ("size==remaining", lambda L: L.size.t == _g(L, "chunk_ds") + _g(L, "chunk_size") - _g(L, "y_pos")),
        ("y_pos-in-chunk", lambda L: And(_g(L, "y_pos") >= _g(L, "chunk_ds"), u_pos(_C(L), L.unreader, L.st) >= _g(L, "y_pos"))),
        ("chunk-fixed", lambda L: And(_g(L, "chunk_ds") == _ge(L, "chunk_ds"), _g(L, "chunk_size") == _ge(L, "chunk_size"))),
    ]), 2: dict(anchor="while len(rest) < 2", cands=[
        ("RI(unreader)", lambda L: RI_and(_C(L), L.unreader, L.st)),
        ("unreader-buffer-empty", lambda L: u_buf(_C(L), L.unreader, L.st).length() == 0),
        ("rest-not-None", lambda L: _opt(L.rest)[0]),
        ("rest==T[end:pos)", lambda L: is_T(_opt(L.rest)[1], _g(L, "chunk_ds") + _g(L, "chunk_size"), u_pos(_C(L), L.unreader, L.st))),
        ("pos>=end", lambda L: u_pos(_C(L), L.unreader, L.st) >= _g(L, "chunk_ds") + _g(L, "chunk_size")),
        ("ghost-fixed", lambda L: And(_g(L, "chunk_ds") == _ge(L, "chunk_ds"), _g(L, "chunk_size") == _ge(L, "chunk_size"),
                                      _g(L, "y_pos") == _ge(L, "y_pos"))),
    ])}


def _opt(v):
    """(is-not-None, inner) of a possibly-optional value"""
    if isinstance(v, SOpt):
        return v.some, v.inner
    if isinstance(v, SNone):
        return FALSE, SStr([], False)
    return TRUE, v


def _g(L, k):
    v = L.st.ghost.get(k)
    if v is None:
        raise KeyError(k)
    return v


def _ge(L, k):
    v = L.entry.ghost.get(k)
    if v is None:
        raise KeyError(k)
    return v


# ======================================================================================================
# ChunkedReader.read over the generator (abstract: yields consecutive pieces of the decoded body, then stops)
# ======================================================================================================
@contract("abstract:BodyGen.__next__", props=("C07",))
class BodyGenNext(Contract):
    """ASSUMED interface of the chunk generator as seen by its consumer (the generator body itself is verified above,
    the link is Python's generator semantics): next() returns the next piece Bd[rc:rc+k), k >= 0, rc+k <= end, or raises
    StopIteration exactly when the whole decoded body has been produced, or raises a framing error."""
    trusted = True
    params = ["self"]

    def modifies(self, c):
        return [("field", c.a["self"], "g_rc")]

    def result_shape(self, c):
        return WinShape(Bd)

    def raises(self, c):
        E = errs(c)
        g = c.st.obj(c.a["self"]).fields
        return [(StopIteration, g["g_rc"].t == g["g_end"].t), (E.NoMoreData, None), (E.ChunkMissingTerminator, None),
                (E.InvalidChunkSize, None), (E.LimitRequestLine, None)] + header_raises(c) + [oserror(c)]

    exact_raises = False

    def exc_post(self, c):
        r = c.a["self"]
        rc0 = c.old.obj(r).fields["g_rc"].t
        rc1 = c.st.obj(r).fields["g_rc"].t
        end = c.st.obj(r).fields["g_end"].t
        if c.exc is not None and c.exc.cls is StopIteration:
            return [("finished", And(rc1 == rc0, rc1 == end))]
        return [("cursor-in-range", And(rc0 <= rc1, rc1 <= end))]

    def post(self, c):
        r = c.a["self"]
        rc0 = c.old.obj(r).fields["g_rc"].t
        rc1 = c.st.obj(r).fields["g_rc"].t
        end = c.st.obj(r).fields["g_end"].t
        w = c.result.single_win()
        return [("next-piece", And(w.lo == rc0, w.hi == rc1, rc0 <= rc1, rc1 <= end))]


from pyvc.env import STUBS, R1   # noqa: E402


def _next_bodygen(ex, st, self_v, args, kwargs, node, _orig=STUBS["next"]):
    from pyvc.values import FuncV
    v = args[0]
    if isinstance(v, Ref) and isinstance(st.obj(v), HObj) and st.obj(v).cls == "BodyGen":
        return ex.call_func(FuncV("abstract:BodyGen.__next__", v), st, [], {}, node)
    return _orig(ex, st, self_v, args, kwargs, node)


STUBS["next"] = _next_bodygen


def mk_chunked_consumer(env, st, finished):
    env.use_class("gunicorn.http.body", "ChunkedReader")
    rc, end = fresh_int("gen.rc"), fresh_int("gen.end")
    st.assume(0 <= rc, rc <= end)
    gen = st.alloc(HObj("BodyGen", {"g_rc": SInt(rc), "g_end": SInt(end)}))
    cpos = fresh_int("cr.c")
    st.assume(0 <= cpos, cpos <= rc)
    buf = st.alloc(HBio(mk_win(Bd, cpos, rc)))
    if finished:
        st.assume(rc == end)
    return st.alloc(HObj("ChunkedReader", {"parser": NONE if finished else gen, "buf": buf, "g_gen": gen}))


def cr_fields(st, r):
    o = st.obj(r)
    gen = st.obj(o.fields["g_gen"])
    return o, gen.fields["g_rc"].t, gen.fields["g_end"].t, st.obj(o.fields["buf"])


def RI_chunked(st, r):
    o, rc, end, bio = cr_fields(st, r)
    buf = bio.content
    out = [("RIc.bounds", And(0 <= rc, rc <= end))]
    if bio.pos is not None:
        out.append(("RIc.buf-positioned-at-its-end", bio.pos == buf.length()))
    if isinstance(o.fields["parser"], SNone):
        out.append(("RIc.parser-None-only-when-finished", rc == end))
    if buf.atoms:
        w = buf.single_win()
        if w is None or not w.base.eq(Bd) or w.xf:
            return out + [("RIc.buf-is-body-window", FALSE)]
        out.append(("RIc.buf-ends-at-generator-cursor", And(w.lo <= w.hi, Or(w.lo == w.hi, w.hi == rc), w.lo >= 0)))
    return out


@contract("gunicorn.http.body:ChunkedReader.read", props=("C07",))
class ChunkedReaderRead(Contract):
    """implements the abstract reader over the decoded body Bd: read(n>0) returns the next min(n, end-c) bytes"""
    exact_raises = False

    def cases(self, env):
        out = []
        for finished in (False, True):
            st = base_state(env)
            r = mk_chunked_consumer(env, st, finished)
            out.append(("parser=%s" % ("None" if finished else "live"), st, {"self": r, "size": SInt(z3.Int("size"))}, {}))
        return out

    def pre(self, c):
        return RI_chunked(c.st, c.a["self"])

    def result_shape(self, c):
        return WinShape(Bd)

    def raises(self, c):
        E = errs(c)
        return [(ValueError, c.a["size"].t < 0), (E.NoMoreData, None), (E.ChunkMissingTerminator, None),
                (E.InvalidChunkSize, None), (E.LimitRequestLine, None)] + header_raises(c) + [oserror(c)]

    def post(self, c):
        r = c.a["self"]
        o0, rc0, end0, bio0 = cr_fields(c.old, r)
        o1, rc1, end1, bio1 = cr_fields(c.st, r)
        c0 = rc0 - bio0.content.length()
        c1 = rc1 - bio1.content.length()
        n = c.a["size"].t
        return RI_chunked(c.st, r) + [
            ("result==Bd[c:min(c+size,end))", is_Bd(c.result, c0, Min(c0 + n, end0))),
            ("cursor-advances-by-len(result)", c1 == c0 + c.result.length()),
            ("end-unchanged", end1 == end0),
            ("empty-iff-eof-or-zero", Implies(n > 0, (c.result.length() == 0) == (c0 == end0)))]

    loops = {0: dict(anchor="while self.buf.tell() < size", cands=[
        ("RI(chunked)", lambda L: And(*[f for _, f in RI_chunked(L.st, L.self)])),
        ("cursor-fixed", lambda L: _cc(L.st, L.self) == _cc(L.entry, L.self)),
        ("end-fixed", lambda L: cr_fields(L.st, L.self)[2] == cr_fields(L.entry, L.self)[2]),
    ])}


def _cc(st, r):
    o, rc, end, bio = cr_fields(st, r)
    return rc - bio.content.length()
