"""Contracts for gunicorn/pidfile.py (C17): validate / create / unlink / rename against the ghost filesystem, with an
every-point invariant on create (the crash-point quantifier)."""
import errno as _errno

import z3

from pyvc.contracts import contract, Contract, inline
from pyvc.smt import And, Or, Not, Implies, If, iv, fresh_int, fresh_bool, I, TRUE, FALSE
from pyvc.values import SInt, SBool, SNone, NONE, SStr, STuple, Ref, HObj, SExc, SOpt, Lit, Num, str_eq
from pyvc.shapes import IntShape, OptionShape, AnyStrShape, ConstShape
from pyvc.state import State
from pyvc import strops
from .osmodel import alive, add_path, fs_get, fs_set, path_label

ME = z3.Int("me")


def pid_text(t):
    """the complete pid-file content for pid t: decimal digits + newline"""
    return SStr([Num("dec", t), Lit(b"\n")], False)


def content_is_pid(content, t):
    """structural: content is exactly '%d\\n' % t"""
    a = list(content.atoms)
    if len(a) == 2 and isinstance(a[0], Num) and a[0].kind == "dec" and isinstance(a[1], Lit) and a[1].b == b"\n":
        return a[0].t == t
    return FALSE


def mk_pidfile(env, st, kind):
    """kind: what the file at self.fname holds before the call: absent | mine | other | garbage"""
    env.use_class("gunicorn.pidfile", "Pidfile")
    fname = strops.fresh_str(st, "fname", True, nonempty=True)
    add_path(st, fname, "P")
    st.ghost["fs"] = {}
    st.ghost["fd_labels"] = {}
    other = z3.Int("other.pid")
    st.assume(ME > 0, other > 0, other != ME)
    st.assume(*pid_text(ME).axioms())
    st.assume(*pid_text(other).axioms())
    if kind == "absent":
        fs_set(st, "P", FALSE, SStr([], False))
    elif kind == "mine":
        fs_set(st, "P", TRUE, pid_text(ME))
    elif kind == "other":
        fs_set(st, "P", TRUE, pid_text(other))
    else:
        fs_set(st, "P", TRUE, strops.fresh_str(st, "garbage", False))
    return fname


KINDS = ("absent", "mine", "other", "garbage")


def recorded_pid(st):
    """(parses: Bool, pid term) of the content of P when it is one of the modelled shapes"""
    ex_, cont = fs_get(st, "P")
    a = list(cont.atoms)
    if len(a) == 2 and isinstance(a[0], Num):
        return ex_, a[0].t
    return FALSE, iv(0)


@contract("gunicorn.pidfile:Pidfile.validate", props=("C17",))
class Validate(Contract):
    def cases(self, env):
        out = []
        for kind in KINDS:
            st = State()
            fname = mk_pidfile(env, st, kind)
            slf = st.alloc(HObj("Pidfile", {"fname": fname, "pid": NONE}))
            out.append((kind, st, {"self": slf}, {"kind": kind}))
        return out

    def result_shape(self, c):
        return OptionShape(IntShape())

    def raises(self, c):
        return [(OSError, None)]

    def post(self, c):
        ok, pid = recorded_pid(c.old)
        res = c.result
        some = res.some if isinstance(res, SOpt) else (FALSE if isinstance(res, SNone) else TRUE)
        val = res.inner.t if isinstance(res, SOpt) else (iv(0) if isinstance(res, SNone) else res.t)
        unchanged = _fs_same(c.st, c.old)
        if c.g.get("kind") == "garbage":
            # content of unknown shape: whatever it parses to, only a LIVE pid is ever returned
            return [("only-a-live-pid-is-returned", Implies(some, alive(val))), ("filesystem-untouched", unchanged)]
        return [("returns-the-recorded-pid-iff-it-names-a-live-process", And(some == And(ok, alive(pid)), Implies(some, val == pid))),
                ("filesystem-untouched", unchanged)]


def _fs_same(st1, st0):
    f1, f0 = st1.ghost["fs"], st0.ghost["fs"]
    if f1.keys() != f0.keys():
        return FALSE
    conj = []
    for k in f0:
        e1, c1 = f1[k]
        e0, c0 = f0[k]
        conj.append(e1 == e0)
        if c1 is not c0 and c1.atoms != c0.atoms:
            conj.append(FALSE)
    return And(*conj)


@contract("gunicorn.pidfile:Pidfile.create", props=("C17",))
class Create(Contract):
    exact_raises = False
    inline_callees = ("gunicorn.pidfile:Pidfile.validate",)

    def cases(self, env):
        out = []
        for kind in KINDS:
            st = State()
            fname = mk_pidfile(env, st, kind)
            slf = st.alloc(HObj("Pidfile", {"fname": fname, "pid": NONE}))
            pid = z3.Int("pid")
            st.assume(pid > 0)
            out.append((kind, st, {"self": slf, "pid": SInt(pid)}, {"kind": kind}))
        return out

    def pre(self, c):
        return [("pid>0", c.a["pid"].t > 0)]

    def raises(self, c):
        ok, pid = recorded_pid(c.st)
        return [(RuntimeError, None), (OSError, None)]

    def exc_post(self, c):
        # whatever goes wrong: the pid file is either untouched or complete
        return self.point(c)

    def point(self, c):
        e1, c1 = fs_get(c.st, "P")
        e0, c0 = fs_get(c.ex.fentry, "P")
        same = And(e1 == e0, TRUE if (c1 is c0 or c1.atoms == c0.atoms) else FALSE)
        complete = And(e1, content_is_pid(c1, c.a["pid"].t))
        return [("pid-file-is-the-old-entry-or-the-complete-new-one", Or(same, complete))]

    def point_hook(self, c, stmt, outcome):
        for (nm, g) in self.point(c):
            c.ex.oblige("point@%s.%s" % (getattr(stmt, "_sid", "L%d" % stmt.lineno), nm), "point", c.st, g)

    def post(self, c):
        ok, rec = recorded_pid(c.old)
        live_other = And(ok, alive(rec), rec != ME)
        e1, c1 = fs_get(c.st, "P")
        o = c.st.obj(c.a["self"])
        pidf = o.fields["pid"]
        return self.point(c) + [
            ("refuses-when-another-live-process-is-recorded", Not(live_other)),
            ("on-return-the-file-holds-this-pid", And(e1, Or(content_is_pid(c1, c.a["pid"].t), And(ok, rec == ME),
                                                             TRUE if c.g.get("kind") == "garbage" and c1.atoms == fs_get(c.old, "P")[1].atoms else FALSE))),
            ("instance-remembers-its-pid(so-that-unlink-can-match)", TRUE if (isinstance(pidf, SInt)) else FALSE),
        ]


@contract("gunicorn.pidfile:Pidfile.unlink", props=("C17",))
class Unlink(Contract):
    def cases(self, env):
        out = []
        for kind in KINDS:
            st = State()
            fname = mk_pidfile(env, st, kind)
            slf = st.alloc(HObj("Pidfile", {"fname": fname, "pid": SInt(ME)}))
            out.append((kind, st, {"self": slf}, {"kind": kind}))
        return out

    def raises(self, c):
        return []      # never raises

    def post(self, c):
        ok, rec = recorded_pid(c.old)
        mine = And(ok, rec == c.old.obj(c.a["self"]).fields["pid"].t)
        e1, c1 = fs_get(c.st, "P")
        e0, c0 = fs_get(c.old, "P")
        if c.g.get("kind") == "garbage":
            return [("removed-or-untouched", Or(Not(e1), TRUE if c1.atoms == c0.atoms else FALSE))]
        return [("removes-the-file-only-if-it-still-holds-its-own-pid", Implies(Not(mine), And(e1 == e0, TRUE if c1.atoms == c0.atoms else FALSE))),
                ("its-own-file-is-removed", Implies(mine, Not(e1)))]


@contract("gunicorn.pidfile:Pidfile.rename", props=("C17", "C14"))
class Rename(Contract):
    """rename(path) = unlink (ownership checked) + create at path (liveness of a foreign owner checked)"""
    inline_callees = ("gunicorn.pidfile:Pidfile.unlink", "gunicorn.pidfile:Pidfile.create", "gunicorn.pidfile:Pidfile.validate")

    def cases(self, env):
        out = []
        for kind in KINDS:
            for tgt in KINDS:
                st = State()
                fname = mk_pidfile(env, st, kind)
                path = strops.fresh_str(st, "newpath", True, nonempty=True)
                add_path(st, path, "Q")
                other2 = z3.Int("other2.pid")
                st.assume(other2 > 0, other2 != ME)
                if tgt == "absent":
                    fs_set(st, "Q", FALSE, SStr([], False))
                elif tgt == "mine":
                    fs_set(st, "Q", TRUE, pid_text(ME))
                elif tgt == "other":
                    fs_set(st, "Q", TRUE, pid_text(other2))
                else:
                    fs_set(st, "Q", TRUE, strops.fresh_str(st, "garbage2", False))
                slf = st.alloc(HObj("Pidfile", {"fname": fname, "pid": SInt(ME)}))
                out.append(("%s->%s" % (kind, tgt), st, {"self": slf, "path": path}, {"kind": kind, "tgt": tgt}))
        return out

    def raises(self, c):
        return [(RuntimeError, None), (OSError, None)]

    def _q(self, st):
        ex_, cont = fs_get(st, "Q")
        a = list(cont.atoms)
        if len(a) == 2 and isinstance(a[0], Num):
            return ex_, a[0].t
        return FALSE, iv(0)

    def exc_post(self, c):
        return self._foreign_untouched(c)

    def _foreign_untouched(self, c):
        okq, recq = self._q(c.old)
        live_foreign = And(okq, alive(recq), recq != ME)
        e1, c1 = fs_get(c.st, "Q")
        e0, c0 = fs_get(c.old, "Q")
        okp, recp = recorded_pid(c.old)
        p1, pc1 = fs_get(c.st, "P")
        p0, pc0 = fs_get(c.old, "P")
        out = []
        if c.g.get("tgt") != "garbage":
            out.append(("never-replaces-the-pid-file-of-another-live-instance", Implies(live_foreign, And(e1 == e0, TRUE if c1.atoms == c0.atoms else FALSE))))
        if c.g.get("kind") != "garbage":
            out.append(("never-removes-a-file-that-holds-a-foreign-pid", Implies(Not(And(okp, recp == ME)), And(p1 == p0, TRUE if pc1.atoms == pc0.atoms else FALSE))))
        return out

    def post(self, c):
        e1, c1 = fs_get(c.st, "Q")
        okq, recq = self._q(c.old)
        return self._foreign_untouched(c) + [
            ("target-names-this-master", And(e1, Or(content_is_pid(c1, ME), And(okq, recq == ME), TRUE if c.g.get("tgt") == "garbage" else FALSE))),
            ("fname-updated", TRUE if path_label(c.st, c.st.obj(c.a["self"]).fields["fname"]) == "Q" else FALSE)]
