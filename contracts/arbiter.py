"""Contracts for gunicorn/arbiter.py (C03, C04, C10, C11, C14): per-step projection under the ghost kernel model."""
import errno as _errno
import signal as _signal

import z3

from pyvc.contracts import contract, Contract, inline
from pyvc.env import STUBS, R1, ClassModel
from pyvc.smt import And, Or, Not, Implies, If, Min, Max, iv, fresh_int, fresh_bool, fresh_name, I, B, R, TRUE, FALSE, const_int
from pyvc.values import (SInt, SBool, SReal, SNone, NONE, SStr, STuple, Ref, SymRef, HObj, HList, HDict, SExc, Opaque, SArr,
                         SOpt, qvar, Unsupported, StubV)
from pyvc.shapes import IntShape, BoolShape, RealShape, ArrShape, SymRefShape, OptionShape, AnyStrShape, ListShape
from pyvc.state import State
from pyvc import strops
from .cfgmodel import mk_cfg
from .workers import mk_logger
from .arbmodel import (mk_kernel, mk_workers, w_map, w_size, sel, age_of, aborted_of, AII, SIGNAME)
from .osmodel import oserror

TERM, QUIT, KILL, ABRT = int(_signal.SIGTERM), int(_signal.SIGQUIT), int(_signal.SIGKILL), int(_signal.SIGABRT)

inline("gunicorn.arbiter:Arbiter._get_num_workers", "gunicorn.arbiter:Arbiter._set_num_workers", "gunicorn.arbiter:Arbiter.wakeup")


def _os_write_pipe(ex, st, self_v, args, kwargs, node):
    bad = st.fork()
    e = SExc(OSError, (), {"errno": SInt(fresh_int("errno"))})
    return [ex.res(st, SInt(1)), ex.res_exc(bad, e)]


class _WorkerFactoryModel(ClassModel):
    def hasattr(self, ex, st, ref, o, name):
        return False            # worker_class.check_config (gthread only) is outside the modelled state


def mk_arbiter(env, st, pidfile=None, tracked_are_children=False):
    env.use_class("gunicorn.arbiter", "Arbiter")
    env.class_models["WorkerFactory"] = _WorkerFactoryModel()
    mk_kernel(st)
    STUBS["os.write"] = _os_write_pipe
    STUBS["posix.write"] = _os_write_pipe
    W = mk_workers(env, st)
    cfg = mk_cfg(env, st)
    log = mk_logger(env, st)
    nw, wa = z3.Int("arb.num_workers"), z3.Int("arb.worker_age")
    st.assume(nw >= 0, wa >= 0)
    m = w_map(st, W)
    p = qvar("p")
    # Inv: every tracked worker was created by spawn_worker: age <= worker_age ; and it is a child the kernel knows or knew
    st.assume(z3.ForAll([p], Implies(sel(m, p) != 0, And(age_of(st, sel(m, p)) <= wa, age_of(st, sel(m, p)) >= 1, p > 0))))
    if tracked_are_children:
        st.assume(z3.ForAll([p], Implies(sel(m, p) != 0, sel(st.ghost["K_state"], p) != 0)))
    f = {"WORKERS": W, "_num_workers": SInt(nw), "cfg": cfg, "log": log, "pid": SInt(z3.Int("me")),
         "timeout": SInt(z3.Int("arb.timeout")), "worker_age": SInt(wa), "app": Opaque("app"),
         "reexec_pid": SInt(z3.Int("arb.reexec_pid")), "master_pid": SInt(z3.Int("arb.master_pid")),
         "systemd": SBool(z3.Bool("arb.systemd")), "PIPE": STuple([SInt(7), SInt(8)]),
         "proc_name": strops.fresh_str(st, "proc_name", True), "master_name": strops.fresh_str(st, "master_name", True),
         "_last_logged_active_worker_count": NONE, "pidfile": pidfile if pidfile is not None else NONE,
         "worker_class": st.alloc(HObj("WorkerFactory", {}))}
    st.assume(z3.Int("arb.timeout") >= 0, z3.Int("arb.reexec_pid") >= 0, z3.Int("arb.master_pid") >= 0)
    return st.alloc(HObj("Arbiter", f))


def A(c, st=None):
    return (st or c.st).obj(c.a["self"])


def sig_arr(st, s):
    return st.ghost["K_sig_" + SIGNAME[s]]


def all_sig_same(st1, st0, except_sig=None):
    p = qvar("p")
    return And(*[z3.ForAll([p], sel(st1.ghost["K_sig_" + n], p) == sel(st0.ghost["K_sig_" + n], p))
                 for s, n in SIGNAME.items() if s != except_sig])


@contract("abstract:WorkerFactory.__call__", props=("C03", "C11"))
class WorkerFactory(Contract):
    """worker_class(age, ppid, sockets, app, timeout, cfg, log): a NEW worker object (Worker.__init__ is C18's subject)"""
    trusted = True
    params = ["self", "age", "ppid", "sockets", "app", "timeout", "cfg", "log"]

    def raises(self, c):
        return [(RuntimeError, None), (OSError, None)]

    def result_shape(self, c):
        st = c.st
        r = fresh_int("worker.ref")
        m = st.ghost.get("workers_map")
        st.assume(r > 0)
        w = SymRef("WorkerObj", r)
        c.ex.env.symref_set(c.ex, st, w, "age", c.a["age"])
        c.ex.env.symref_set(c.ex, st, w, "aborted", SBool(False))
        c.ex.env.symref_set(c.ex, st, w, "booted", SBool(False))
        st.ghost["new_worker_timeout"] = c.a["timeout"]
        # a new object: different from every tracked worker
        for oid, o in st.heap.items():
            if isinstance(o, HObj) and o.cls == "WorkersDict":
                p = qvar("p")
                st.assume(z3.ForAll([p], sel(o.fields["g_map"].t, p) != r))
        return w


# ======================================================================================================
# kill_worker / kill_workers
# ======================================================================================================
@contract("gunicorn.arbiter:Arbiter.kill_worker", props=("C03", "C04", "C10", "C11"))
class KillWorker(Contract):
    def cases(self, env):
        out = []
        for s in (TERM, KILL, ABRT, QUIT):
            st = State()
            a = mk_arbiter(env, st)
            out.append((SIGNAME[s], st, {"self": a, "pid": SInt(z3.Int("pid")), "sig": SInt(s)}, {}))
        return out

    def modifies(self, c):
        W = A(c).fields["WORKERS"]
        s = const_int(c.a["sig"].t)
        return [("field", W, "g_map"), ("field", W, "g_size"), ("ghost", "K_sig_" + SIGNAME[s]), ("ghost", "tmp_closed")] if "tmp_closed" in c.st.ghost else \
            [("field", W, "g_map"), ("field", W, "g_size"), ("ghost", "K_sig_" + SIGNAME[s])]

    def raises(self, c):
        return [(OSError, None, lambda c2: {"errno": SInt(fresh_int("errno"))})]       # any errno but ESRCH

    def exc_post(self, c):
        return self.frame(c) + [("errno-is-not-ESRCH", c.exc.fields["errno"].t != _errno.ESRCH) if "errno" in c.exc.fields and isinstance(c.exc.fields["errno"], SInt) else ("errno", TRUE)]

    def frame(self, c):
        s = const_int(c.a["sig"].t)
        return [("other-signals-untouched", all_sig_same(c.st, c.old, s))]

    def post(self, c):
        st1, st0 = c.st, c.old
        s = const_int(c.a["sig"].t)
        pid = c.a["pid"].t
        W = A(c).fields["WORKERS"]
        m1, m0 = w_map(st1, W), w_map(st0, W)
        n1, n0 = w_size(st1, W), w_size(st0, W)
        k1, k0 = sig_arr(st1, s), sig_arr(st0, s)
        p = qvar("p")
        exists = sel(st0.ghost["K_state"], pid) != 0
        others = z3.ForAll([p], Implies(p != pid, And(sel(m1, p) == sel(m0, p), sel(k1, p) == sel(k0, p))))
        return self.frame(c) + [
            ("only-this-pid-is-affected", others),
            ("live-or-zombie-child:signal-sent-and-still-tracked", Implies(exists, And(sel(k1, pid) == sel(k0, pid) + 1, sel(m1, pid) == sel(m0, pid), n1 == n0))),
            ("no-such-process:forgotten-and-no-signal", Implies(Not(exists), And(sel(k1, pid) == sel(k0, pid), sel(m1, pid) == 0,
                                                                                n1 == If(sel(m0, pid) != 0, n0 - 1, n0)))),
        ]


@contract("gunicorn.arbiter:Arbiter.kill_workers", props=("C03", "C04"))
class KillWorkers(Contract):
    def cases(self, env):
        out = []
        for s in (TERM, KILL, QUIT):
            st = State()
            a = mk_arbiter(env, st)
            out.append((SIGNAME[s], st, {"self": a, "sig": SInt(s)}, {}))
        return out

    def modifies(self, c):
        W = A(c).fields["WORKERS"]
        s = const_int(c.a["sig"].t)
        return [("field", W, "g_map"), ("field", W, "g_size"), ("ghost", "K_sig_" + SIGNAME[s])]

    def raises(self, c):
        return [(OSError, None, lambda c2: {"errno": SInt(fresh_int("errno"))})]

    def post(self, c):
        st1, st0 = c.st, c.old
        s = const_int(c.a["sig"].t)
        W = A(c).fields["WORKERS"]
        m1, m0 = w_map(st1, W), w_map(st0, W)
        k1, k0 = sig_arr(st1, s), sig_arr(st0, s)
        K = st0.ghost["K_state"]
        p = qvar("p")
        return [("other-signals-untouched", all_sig_same(st1, st0, s)),
                ("every-tracked-worker-is-signalled-once-or-forgotten-if-gone",
                 z3.ForAll([p], Implies(sel(m0, p) != 0, If(sel(K, p) != 0, And(sel(k1, p) == sel(k0, p) + 1, sel(m1, p) == sel(m0, p)),
                                                            And(sel(k1, p) == sel(k0, p), sel(m1, p) == 0))))),
                ("nobody-else-is-signalled-or-added", z3.ForAll([p], Implies(sel(m0, p) == 0, And(sel(k1, p) == sel(k0, p), sel(m1, p) == 0))))]

    loops = {0: dict(anchor="for pid in worker_pids", cands=[
        ("processed-prefix", lambda L: _kw_inv(L)),
        ("other-signals", lambda L: all_sig_same(L.st, L.fentry, const_int(L.sig.t))),
    ])}


def _kw_inv(L):
    st1, st0 = L.st, L.fentry
    s = const_int(L.sig.t)
    W = st1.obj(L.self).fields["WORKERS"]
    m1, m0 = w_map(st1, W), w_map(st0, W)
    k1, k0 = sig_arr(st1, s), sig_arr(st0, s)
    K = st0.ghost["K_state"]
    seq = L.st.obj(L.worker_pids).sym
    idx = L.loop_index
    p, i = qvar("p"), qvar("i")
    # position of pid p in the snapshot (inverse index array asserted by the view)
    done = lambda q: z3.Exists([i], And(0 <= i, i < idx, seq.elem(i).t == q))
    return And(
        z3.ForAll([p], Implies(And(sel(m0, p) != 0, done(p)), If(sel(K, p) != 0, And(sel(k1, p) == sel(k0, p) + 1, sel(m1, p) == sel(m0, p)),
                                                                 And(sel(k1, p) == sel(k0, p), sel(m1, p) == 0)))),
        z3.ForAll([p], Implies(Not(done(p)), And(sel(k1, p) == sel(k0, p), sel(m1, p) == sel(m0, p)))),
        st1.ghost["K_state"] == st0.ghost["K_state"])


# ======================================================================================================
# spawn_worker / spawn_workers
# ======================================================================================================
class _ChildNeverReturns:
    pass


def _setproctitle(ex, st, self_v, args, kwargs, node):
    return R1(ex, st, NONE)


@contract("gunicorn.util:_setproctitle", props=("C03",))
class SetProcTitle(Contract):
    trusted = True


@contract("abstract:WorkerObjInit.init_process", props=("C03", "C20"))
class WorkerInitProcess(Contract):
    trusted = True
    params = ["self"]


def _worker_init_process(ex, st, self_v, args, kwargs, node):
    """worker.init_process() in the CHILD: runs the worker until it exits (Worker.init_process is C20's subject); may raise"""
    st.ghost["child_init_process"] = st.ghost.get("child_init_process", 0) + 1
    from gunicorn.errors import AppImportError
    a, b = st.fork(), st.fork()
    return [ex.res(st, NONE), ex.res_exc(a, SExc(ex.env.repo.live("gunicorn.errors").AppImportError)), ex.res_exc(b, SExc(RuntimeError))]


STUBS["WorkerObj.init_process"] = _worker_init_process


@contract("gunicorn.arbiter:Arbiter.spawn_worker", props=("C03", "C10", "C11", "C20"))
class SpawnWorker(Contract):
    """parent: exactly one new tracked child with the next age; child: runs worker.init_process() and NEVER returns into the
    master loop (always leaves through sys.exit) with status 3 if it failed before booting, 4 if the application failed to load"""

    def cases(self, env):
        from .arbmodel import WORKER_FIELDS
        WORKER_FIELDS["init_process"] = "WorkerObj.init_process"
        WORKER_FIELDS["sockets"] = lambda ex, st, ref: Opaque("sockets")
        st = State()
        a = mk_arbiter(env, st, tracked_are_children=True)
        st.obj(a).fields["LISTENERS"] = Opaque("listeners")
        return [("fork", st, {"self": a}, {})]

    def pre(self, c):
        m = w_map(c.st, A(c).fields["WORKERS"])
        p = qvar("p")
        return [("Inv:every-tracked-pid-is-a-child-the-kernel-still-knows", z3.ForAll([p], Implies(sel(m, p) != 0, sel(c.st.ghost["K_state"], p) != 0)))]

    def modifies(self, c):
        W = A(c).fields["WORKERS"]
        return [("field", W, "g_map"), ("field", W, "g_size"), ("field", c.a["self"], "worker_age"), ("ghost", "K_state"),
                ("cheap", "WorkerObj", "age"), ("cheap", "WorkerObj", "aborted"), ("cheap", "WorkerObj", "pid"), ("cheap", "WorkerObj", "booted")]

    def result_shape(self, c):
        return IntShape()

    def raises(self, c):
        return [(SystemExit, None), (OSError, None), (RuntimeError, None)]

    def exc_post(self, c):
        if c.exc is not None and c.exc.cls is SystemExit and c.mode != "call":
            code = c.exc.fields.get("code")
            in_child = c.st.ghost.get("in_child", False)
            out = [("only-the-child-exits", TRUE if in_child else FALSE)]
            return out
        return []

    def post(self, c):
        st1, st0 = c.st, c.old
        W = A(c).fields["WORKERS"]
        m1, m0 = w_map(st1, W), w_map(st0, W)
        pid = c.result.t
        wa0 = A(c, st0).fields["worker_age"].t
        p = qvar("p")
        out = [("returns-only-in-the-parent", TRUE if not st1.ghost.get("in_child", False) else FALSE),
               ("new-child-is-tracked", And(pid > 0, sel(m0, pid) == 0, sel(m1, pid) != 0, w_size(st1, W) == w_size(st0, W) + 1)),
               ("new-worker-gets-the-next-age", And(A(c, st1).fields["worker_age"].t == wa0 + 1, age_of(st1, sel(m1, pid)) == wa0 + 1)),
               ("new-child-is-a-live-process", sel(st1.ghost["K_state"], pid) == 1),
               ("other-workers-untouched", z3.ForAll([p], Implies(p != pid, And(sel(m1, p) == sel(m0, p),
                                                                            Implies(sel(m0, p) != 0, age_of(st1, sel(m0, p)) == age_of(st0, sel(m0, p))))))),
               ("other-processes-untouched", z3.ForAll([p], Implies(p != pid, sel(st1.ghost["K_state"], p) == sel(st0.ghost["K_state"], p))))]
        if c.mode != "call":
            t = st1.ghost.get("new_worker_timeout")
            out.append(("worker-gets-half-the-timeout-as-its-heartbeat-period",
                        (t.t * 2 == z3.ToReal(A(c, st0).fields["timeout"].t)) if isinstance(t, SReal) else FALSE))
        return out

    loops = {0: dict(anchor="for sibling in self.WORKERS.values()", cands=[])}


@contract("gunicorn.arbiter:Arbiter.spawn_workers", props=("C03",))
class SpawnWorkers(Contract):
    def cases(self, env):
        st = State()
        a = mk_arbiter(env, st, tracked_are_children=True)
        st.obj(a).fields["LISTENERS"] = Opaque("listeners")
        return [("spawn", st, {"self": a}, {})]

    def pre(self, c):
        return SpawnWorker.pre(SpawnWorker(), c)

    def modifies(self, c):
        return SpawnWorker.modifies(SpawnWorker(), c) + [("ghost", "now")]

    def raises(self, c):
        return [(SystemExit, None), (OSError, None), (RuntimeError, None)]

    def post(self, c):
        st1, st0 = c.st, c.old
        W = A(c).fields["WORKERS"]
        nw = A(c, st0).fields["_num_workers"].t
        n0, n1 = w_size(st0, W), w_size(st1, W)
        m1, m0 = w_map(st1, W), w_map(st0, W)
        wa0 = A(c, st0).fields["worker_age"].t
        p = qvar("p")
        return [("pool-filled-up-to-num_workers", n1 == Max(n0, nw)),
                ("existing-workers-kept", z3.ForAll([p], Implies(sel(m0, p) != 0, sel(m1, p) == sel(m0, p)))),
                ("new-workers-are-younger-than-all-previous", z3.ForAll([p], Implies(And(sel(m0, p) == 0, sel(m1, p) != 0), age_of(st1, sel(m1, p)) > wa0))),
                ("ages-of-existing-workers-kept", z3.ForAll([p], Implies(sel(m0, p) != 0, age_of(st1, sel(m0, p)) == age_of(st0, sel(m0, p))))),
                ("worker_age-only-grows", A(c, st1).fields["worker_age"].t >= wa0),
                ("Inv-preserved:every-tracked-pid-is-a-child-the-kernel-knows", z3.ForAll([p], Implies(sel(m1, p) != 0, sel(st1.ghost["K_state"], p) != 0)))]

    loops = {0: dict(anchor="for _ in range(self.num_workers - len(self.WORKERS))", cands=[
        ("size==n0+i", lambda L: w_size(L.st, _W(L)) == w_size(L.fentry, _W(L)) + L.loop_index),
        ("existing-kept", lambda L: _sp_inv(L)),
        ("num_workers-fixed", lambda L: L.st.obj(L.self).fields["_num_workers"].t == L.fentry.obj(L.self).fields["_num_workers"].t),
        ("Inv:tracked-are-children", lambda L: z3.ForAll([qvar("p")], Implies(sel(w_map(L.st, _W(L)), z3.Int("p!inv")) != 0, sel(L.st.ghost["K_state"], z3.Int("p!inv")) != 0)) if False else _inv_children(L)),
    ])}


def _inv_children(L):
    p = qvar("p")
    return z3.ForAll([p], Implies(sel(w_map(L.st, _W(L)), p) != 0, sel(L.st.ghost["K_state"], p) != 0))


def _W(L):
    return L.st.obj(L.self).fields["WORKERS"]


def _sp_inv(L):
    st1, st0 = L.st, L.fentry
    W = _W(L)
    m1, m0 = w_map(st1, W), w_map(st0, W)
    wa0 = st0.obj(L.self).fields["worker_age"].t
    wa1 = st1.obj(L.self).fields["worker_age"].t
    p = qvar("p")
    return And(z3.ForAll([p], Implies(sel(m0, p) != 0, And(sel(m1, p) == sel(m0, p), age_of(st1, sel(m0, p)) == age_of(st0, sel(m0, p))))),
               z3.ForAll([p], Implies(And(sel(m0, p) == 0, sel(m1, p) != 0), And(age_of(st1, sel(m1, p)) > wa0, age_of(st1, sel(m1, p)) <= wa1))),
               wa1 >= wa0)


def _lsock_ctor(kind):
    def f(ex, st, self_v, args, kwargs, node):
        """TCPSocket / UnixSocket(addr, conf, log, fd=None) summarised (BaseSocket.__init__: create or adopt the socket, then
        set_options / bind - verified separately): with fd it adopts that descriptor and cannot fail with EADDRINUSE; without
        it binds a NEW socket and may fail with any errno"""
        fd = kwargs.get("fd", args[3] if len(args) > 3 else NONE)
        k = st.ghost["made_n"]
        outs = []
        if isinstance(fd, SNone):
            bad = st.fork()
            e = fresh_int("bind.errno")
            bad.ghost["attempts"] = bad.ghost["attempts"] + 1
            outs.append(ex.res_exc(bad, SExc(OSError, (SInt(e),), {"errno": SInt(e), "args": STuple([SInt(e)])})))
            st.ghost["attempts"] = st.ghost["attempts"] + 1
        st.ghost["made_n"] = k + 1
        st.ghost["made_%d" % k] = (kind, args[0], fd)
        outs.insert(0, ex.res(st, st.alloc(HObj("MadeListener", {"g_k": k}))))
        return outs
    return f


def _fromfd(ex, st, self_v, args, kwargs, node):
    return R1(ex, st, st.alloc(HObj("RawSock", {"g_fd": args[0]})))


class RawSock(ClassModel):
    def call(self, ex, st, self_v, meth, args, kwargs, node):
        if meth == "getsockname":
            o = st.obj(self_v)
            return [ex.res(st, STuple([Opaque("host"), SInt(fresh_int("port"))]))]
        return None


@contract("gunicorn.sock:create_sockets", props=("C10", "C14"))
class CreateSockets(Contract):
    """with inherited descriptors: exactly one listener per descriptor, in order, each ADOPTING its descriptor (nothing is
    bound anew, the configured addresses are ignored); without: one new listener per configured address, in order, each
    tried at most five times, and the process exits with status 1 if an address cannot be bound"""

    def cases(self, env):
        from pyvc.exec import Unsupported as _U
        out = []
        for with_fds in (True, False):
            st = State()
            env.class_models.update({"RawSock": RawSock(), "MadeListener": ClassModel()})
            STUBS.update({"socket.fromfd": _fromfd, "ctor:TCPSocket": _lsock_ctor("tcp"), "ctor:UnixSocket": _lsock_ctor("unix"),
                          "ctor:TCP6Socket": _lsock_ctor("tcp6")})
            conf = mk_cfg(env, st)
            addr0 = STuple([strops.fresh_str(st, "bind0.host", True, canonical=True), SInt(z3.Int("bind0.port"))])
            addr1 = strops.fresh_str(st, "bind1.path", True, canonical=True)
            st.obj(conf).fields.update({"address": st.alloc(HList([addr0, addr1])), "certfile": NONE, "keyfile": NONE})
            fds = st.alloc(HList([SInt(z3.Int("fd0")), SInt(z3.Int("fd1"))])) if with_fds else NONE
            st.ghost.update({"made_n": 0, "attempts": iv(0), "now": z3.Real("now0")})
            out.append(("inherited-fds" if with_fds else "fresh-binds", st, {"conf": conf, "log": mk_logger(env, st), "fds": fds},
                        {"with_fds": with_fds, "addrs": [addr0, addr1]}))
        return out

    def raises(self, c):
        return [(SystemExit, None), (OSError, None)]

    def effects(self, c):
        c.st.ghost["create_sockets_calls"] = list(c.st.ghost.get("create_sockets_calls", [])) + [c.a.get("fds", NONE)]

    def result_shape(self, c):
        return c.st.alloc(HList([]))

    def exc_post(self, c):
        if c.mode == "call" or c.exc is None or c.exc.cls is not SystemExit:
            return []
        code = c.exc.fields.get("code")
        return [("gives-up-with-exit-status-1-only-without-inherited-descriptors", And(TRUE if not c.g["with_fds"] else FALSE, code.t == 1 if isinstance(code, SInt) else FALSE)),
                ("an-address-is-tried-five-times-before-giving-up", c.st.ghost["attempts"] >= 5)]

    def post(self, c):
        if c.mode == "call":
            return []
        g = c.st.ghost
        items = c.ex.concrete_items(c.st, c.result)
        if items is None:
            return [("returns-a-list-of-listeners", FALSE)]
        made = [g["made_%d" % c.st.obj(x).fields["g_k"]] for x in items if isinstance(x, Ref) and isinstance(c.st.obj(x), HObj) and c.st.obj(x).cls == "MadeListener"]
        out = [("every-returned-element-is-a-listener-built-here", TRUE if len(made) == len(items) else FALSE)]
        if c.g["with_fds"]:
            ok = len(made) == 2 and all(isinstance(m[2], SInt) for m in made) and made[0][2].t.eq(z3.Int("fd0")) and made[1][2].t.eq(z3.Int("fd1"))
            out += [("one-listener-per-inherited-descriptor-in-order,each-adopting-it", TRUE if ok else FALSE),
                    ("nothing-is-bound-anew", g["attempts"] == 0)]
        else:
            a0, a1 = c.g["addrs"]
            ok = len(made) == 2 and all(isinstance(m[2], SNone) for m in made) and made[0][1] is a0 and made[1][1] is a1 \
                and made[0][0] == "tcp" and made[1][0] == "unix"
            out += [("one-new-listener-per-configured-address-in-order", TRUE if ok else FALSE),
                    ("at-most-five-attempts-per-address", g["attempts"] <= 10)]
        return out


def _opaque_str(ex, st, self_v, args, kwargs, node):
    return R1(ex, st, strops.fresh_str(st, "text", True))


STUBS["traceback.format_exc"] = _opaque_str


# ======================================================================================================
# manage_workers: spawn up to the target, retire the surplus OLDEST-first
# ======================================================================================================
@contract("gunicorn.arbiter:Arbiter.manage_workers", props=("C03", "C10", "C18"))
class ManageWorkers(Contract):
    weight = 4

    def cases(self, env):
        st = State()
        a = mk_arbiter(env, st, tracked_are_children=True)
        st.obj(a).fields["LISTENERS"] = Opaque("listeners")
        return [("manage", st, {"self": a}, {})]

    def pre(self, c):
        return SpawnWorker.pre(SpawnWorker(), c)

    def modifies(self, c):
        return SpawnWorker.modifies(SpawnWorker(), c) + [("ghost", "now"), ("ghost", "K_sig_SIGTERM"),
                                                         ("field", c.a["self"], "_last_logged_active_worker_count", OptionShape(IntShape()))]

    def raises(self, c):
        return [(SystemExit, None), (OSError, None), (RuntimeError, None)]

    def post(self, c):
        st1, st0 = c.st, c.old
        W = A(c).fields["WORKERS"]
        nw = A(c, st0).fields["_num_workers"].t
        n0, n1 = w_size(st0, W), w_size(st1, W)
        m1, m0 = w_map(st1, W), w_map(st0, W)
        k1, k0 = sig_arr(st1, TERM), sig_arr(st0, TERM)
        wa0 = A(c, st0).fields["worker_age"].t
        p, q = qvar("p"), qvar("q")
        termed = lambda x: sel(k1, x) > sel(k0, x)
        return [("only-TERM-is-sent", all_sig_same(st1, st0, TERM)),
                ("at-least-the-target-number-of-workers-afterwards", n1 >= Min(nw, Max(n0, nw))),
                ("each-worker-gets-at-most-one-TERM", z3.ForAll([p], And(sel(k1, p) >= sel(k0, p), sel(k1, p) <= sel(k0, p) + 1))),
                ("only-tracked-workers-are-retired", z3.ForAll([p], Implies(termed(p), Or(sel(m0, p) != 0, sel(m1, p) != 0)))),
                ("retired-oldest-first:every-retired-worker-is-older-than-every-worker-that-was-spared",
                 z3.ForAll([p, q], Implies(And(termed(p), sel(m1, p) != 0, sel(m1, q) != 0, Not(termed(q))),
                                           age_of(st1, sel(m1, p)) < age_of(st1, sel(m1, q))))),
                ("nothing-retired-when-not-above-target", Implies(Max(n0, nw) <= nw, z3.ForAll([p], Not(termed(p))))),
                ("someone-is-retired-when-above-target", Implies(Max(n0, nw) > nw, z3.Exists([p], termed(p)))),
                ("tracked-afterwards-are-previous-workers-or-younger-than-all-previous",
                 z3.ForAll([p], Implies(sel(m1, p) != 0, Or(And(sel(m1, p) == sel(m0, p), age_of(st1, sel(m1, p)) == age_of(st0, sel(m0, p))),
                                                            And(sel(m0, p) == 0, age_of(st1, sel(m1, p)) > wa0))))),
                ("pool-size-afterwards", n1 == Max(n0, nw)),
                ("Inv-preserved:every-tracked-pid-is-a-child-the-kernel-knows", z3.ForAll([p], Implies(sel(m1, p) != 0, sel(st1.ghost["K_state"], p) != 0))),
                ]

    loops = {0: dict(anchor="while len(workers) > self.num_workers", cands=[
        ("only-TERM", lambda L: all_sig_same(L.st, L.fentry, TERM)),
        ("sorted-view", lambda L: _mw_view(L)),
        ("retired-prefix", lambda L: _mw_prefix(L)),
        ("num_workers-fixed", lambda L: L.st.obj(L.self).fields["_num_workers"].t == L.fentry.obj(L.self).fields["_num_workers"].t),
        ("ages-fixed", lambda L: L.st.cheap[("WorkerObj", "age#0")] == L.entry.cheap[("WorkerObj", "age#0")]),
        ("never-below-target", lambda L: _mw_len(L)),
        ("lemma:every-tracked-worker-is-in-the-sorted-list", lambda L: _mw_cover(L)),
        ("lemma:sorted-list-is-strictly-ascending-by-age", lambda L: _mw_strict(L)),
        ("Inv:tracked-are-children", lambda L: _inv_children(L)),
        ("lemma:first-of-the-surplus-got-its-TERM", lambda L: _mw_first(L)),
        ("size-fixed", lambda L: w_size(L.st, _W(L)) == w_size(L.entry, _W(L))),
    ])}


def _mw_len(L):
    cur, ent = L.st.obj(L.workers).sym, L.entry.obj(L.workers).sym
    nw = L.fentry.obj(L.self).fields["_num_workers"].t
    return And(cur.hi - cur.lo >= Min(nw, ent.hi - ent.lo), Or(cur.lo == ent.lo, ent.hi - ent.lo > nw))


def _mw_cover(L):
    ent = L.entry.obj(L.workers).sym
    W = L.entry.obj(L.self).fields["WORKERS"]
    m0 = w_map(L.entry, W)
    p, j = qvar("p"), qvar("j")
    return z3.ForAll([p], Implies(sel(m0, p) != 0, z3.Exists([j], And(ent.lo <= j, j < ent.hi, ent.elem(j).items[0].t == p,
                                                                     ent.elem(j).items[1].t == sel(m0, p)))))


def _mw_strict(L):
    ent = L.entry.obj(L.workers).sym
    i, j = qvar("i"), qvar("j")
    return z3.ForAll([i, j], Implies(And(ent.lo <= i, i < j, j < ent.hi),
                                     age_of(L.entry, ent.elem(i).items[1].t) < age_of(L.entry, ent.elem(j).items[1].t)))


def _mw_first(L):
    cur, ent = L.st.obj(L.workers).sym, L.entry.obj(L.workers).sym
    k1, k0 = sig_arr(L.st, TERM), sig_arr(L.entry, TERM)
    pid0 = ent.elem(ent.lo).items[0].t
    return Implies(cur.lo > ent.lo, sel(k1, pid0) == sel(k0, pid0) + 1)


def _mw_view(L):
    cur, ent = L.st.obj(L.workers).sym, L.entry.obj(L.workers).sym
    return And(cur.hi == ent.hi, cur.lo >= ent.lo, cur.lo <= cur.hi, *[x == y for x, y in zip(cur.arrays, ent.arrays)])


def _mw_prefix(L):
    """exactly the sorted entries before the view start have received TERM (once), nobody else"""
    st1, st0 = L.st, L.entry
    cur, ent = st1.obj(L.workers).sym, st0.obj(L.workers).sym
    k1, k0 = sig_arr(st1, TERM), sig_arr(st0, TERM)
    W = st1.obj(L.self).fields["WORKERS"]
    m1, m0 = w_map(st1, W), w_map(st0, W)
    i, p = qvar("i"), qvar("p")
    pid_at = lambda j: ent.elem(j).items[0].t
    inpre = lambda x: z3.Exists([i], And(ent.lo <= i, i < cur.lo, pid_at(i) == x))
    return And(z3.ForAll([p], Implies(Not(inpre(p)), And(sel(k1, p) == sel(k0, p), sel(m1, p) == sel(m0, p)))),
               # a processed entry either got its TERM and is still tracked, or had already vanished and was forgotten
               z3.ForAll([p], Implies(inpre(p), Or(And(sel(k1, p) == sel(k0, p) + 1, sel(m1, p) == sel(m0, p)),
                                                   And(sel(k1, p) == sel(k0, p), sel(m1, p) == 0)))))


# ======================================================================================================
# murder_workers (C11): two-sided
# ======================================================================================================
def hb_of(st, r):
    return sel(st.ghost["K_hb"], r)


@contract("gunicorn.arbiter:Arbiter.murder_workers", props=("C11",))
class MurderWorkers(Contract):
    """for every tracked worker, at the instant it is looked at: heartbeat older than timeout -> first time ABRT (and marked
    aborted), next time KILL; otherwise NO signal and the mark is untouched; timeout 0 disables the scan"""

    def cases(self, env):
        st = State()
        a = mk_arbiter(env, st)
        return [("scan", st, {"self": a}, {})]

    def modifies(self, c):
        W = A(c).fields["WORKERS"]
        return [("field", W, "g_map"), ("field", W, "g_size"), ("ghost", "K_sig_SIGABRT"), ("ghost", "K_sig_SIGKILL"), ("ghost", "now"),
                ("cheap", "WorkerObj", "aborted")]

    def raises(self, c):
        return [(OSError, None, lambda c2: {"errno": SInt(fresh_int("errno"))})]

    def post(self, c):
        st1, st0 = c.st, c.old
        W = A(c).fields["WORKERS"]
        m0 = w_map(st0, W)
        to = A(c, st0).fields["timeout"].t
        a1, a0 = sig_arr(st1, ABRT), sig_arr(st0, ABRT)
        k1, k0 = sig_arr(st1, KILL), sig_arr(st0, KILL)
        p = qvar("p")
        t0, t1 = st0.ghost["now"], st1.ghost["now"]
        fresh = lambda x: t1 - hb_of(st0, sel(m0, x)) <= z3.ToReal(to)      # still within the timeout at the END of the scan
        stale = lambda x: t0 - hb_of(st0, sel(m0, x)) > z3.ToReal(to)       # already overdue at the START of the scan
        nosig = lambda x: And(sel(a1, x) == sel(a0, x), sel(k1, x) == sel(k0, x))
        return [("only-ABRT-and-KILL", And(*[z3.ForAll([p], sel(st1.ghost["K_sig_" + n], p) == sel(st0.ghost["K_sig_" + n], p))
                                             for s, n in SIGNAME.items() if s not in (ABRT, KILL)])),
                ("timeout-0-disables-the-scan", Implies(to == 0, z3.ForAll([p], nosig(p)))),
                ("healthy-workers-never-get-a-signal", z3.ForAll([p], Implies(And(sel(m0, p) != 0, fresh(p)), And(nosig(p), aborted_of(st1, sel(m0, p)) == aborted_of(st0, sel(m0, p)))))),
                ("untracked-pids-never-get-a-signal", z3.ForAll([p], Implies(sel(m0, p) == 0, nosig(p)))),
                ("at-most-one-signal-per-worker-per-scan", z3.ForAll([p], And(sel(a1, p) >= sel(a0, p), sel(k1, p) >= sel(k0, p),
                                                                            sel(a1, p) - sel(a0, p) + sel(k1, p) - sel(k0, p) <= 1))),
                ("KILL-only-after-ABRT", z3.ForAll([p], Implies(sel(k1, p) > sel(k0, p), aborted_of(st0, sel(m0, p))))),
                ("ABRT-marks-the-worker", z3.ForAll([p], Implies(sel(a1, p) > sel(a0, p), And(Not(aborted_of(st0, sel(m0, p))), aborted_of(st1, sel(m0, p)))))),
                ]

    loops = {0: dict(anchor="for (pid, worker) in workers", cands=[
        ("processed-prefix", lambda L: _mu_inv(L)),
        ("clock-monotone", lambda L: L.st.ghost["now"] >= L.fentry.ghost["now"]),
        ("timeout-fixed", lambda L: L.st.obj(L.self).fields["timeout"].t == L.fentry.obj(L.self).fields["timeout"].t),
    ])}


def _mu_inv(L):
    st1, st0 = L.st, L.fentry
    W = st1.obj(L.self).fields["WORKERS"]
    m0 = w_map(st0, W)
    to = st0.obj(L.self).fields["timeout"].t
    a1, a0 = sig_arr(st1, ABRT), sig_arr(st0, ABRT)
    k1, k0 = sig_arr(st1, KILL), sig_arr(st0, KILL)
    seq = L.st.obj(L.workers).sym
    idx = L.loop_index
    p, i = qvar("p"), qvar("i")
    done = lambda q: z3.Exists([i], And(0 <= i, i < idx, seq.elem(i).items[0].t == q))
    t1 = st1.ghost["now"]
    nosig = lambda x: And(sel(a1, x) == sel(a0, x), sel(k1, x) == sel(k0, x))
    rest = And(*[z3.ForAll([p], sel(st1.ghost["K_sig_" + n], p) == sel(st0.ghost["K_sig_" + n], p)) for s, n in SIGNAME.items() if s not in (ABRT, KILL)])
    return And(rest,
               z3.ForAll([p], Implies(Not(done(p)), And(nosig(p), Implies(sel(m0, p) != 0, aborted_of(st1, sel(m0, p)) == aborted_of(st0, sel(m0, p)))))),
               z3.ForAll([p], Implies(done(p), And(
                   sel(a1, p) >= sel(a0, p), sel(k1, p) >= sel(k0, p), sel(a1, p) - sel(a0, p) + sel(k1, p) - sel(k0, p) <= 1,
                   Implies(sel(k1, p) > sel(k0, p), aborted_of(st0, sel(m0, p))),
                   Implies(sel(a1, p) > sel(a0, p), And(Not(aborted_of(st0, sel(m0, p))), aborted_of(st1, sel(m0, p)))),
                   Implies(sel(m0, p) != 0, Implies(t1 - hb_of(st0, sel(m0, p)) <= z3.ToReal(to),
                                                    And(nosig(p), aborted_of(st1, sel(m0, p)) == aborted_of(st0, sel(m0, p)))))))),
               st1.ghost["K_hb"] == st0.ghost["K_hb"])


# ======================================================================================================
# reap_workers (C03, C14)
# ======================================================================================================
def _signals_stub(ex, st, self_v, args, kwargs, node):
    # signal.Signals(status): the enum member (its .name is only logged) or ValueError
    bad = st.fork()
    return [ex.res(st, st.alloc(HObj("SignalsMember", {"name": strops.fresh_str(st, "signame", True)}))), ex.res_exc(bad, SExc(ValueError))]


STUBS["signal.Signals"] = _signals_stub


@contract("gunicorn.arbiter:Arbiter.reap_workers", props=("C03", "C14"))
class ReapWorkers(Contract):
    """loops until no zombie is left; every reaped worker is forgotten; the re-exec child resets reexec_pid; a worker that
    exited with status 3 / 4 stops the server with that very status (HaltServer) instead of being respawned"""

    def cases(self, env):
        st = State()
        a = mk_arbiter(env, st)
        return [("reap", st, {"self": a}, {})]

    def modifies(self, c):
        W = A(c).fields["WORKERS"]
        return [("field", W, "g_map"), ("field", W, "g_size"), ("ghost", "K_state"), ("field", c.a["self"], "reexec_pid")]

    def raises(self, c):
        H = c.ex.env.repo.live("gunicorn.errors").HaltServer
        return [(H, None), (OSError, None, lambda c2: {"errno": SInt(fresh_int("errno"))})]

    def exc_post(self, c):
        H = c.ex.env.repo.live("gunicorn.errors").HaltServer
        if c.exc is not None and c.exc.cls is H:
            code = c.exc.args[1] if len(c.exc.args) > 1 else c.exc.fields.get("exit_status")
            ok = isinstance(code, SInt)
            return [("halt-status-is-the-worker's-boot-failure-code", And(Or(code.t == 3, code.t == 4)) if ok else FALSE)]
        return []

    def post(self, c):
        st1, st0 = c.st, c.old
        W = A(c).fields["WORKERS"]
        m1, m0 = w_map(st1, W), w_map(st0, W)
        K1, K0 = st1.ghost["K_state"], st0.ghost["K_state"]
        p = qvar("p")
        rp0, rp1 = A(c, st0).fields["reexec_pid"].t, A(c, st1).fields["reexec_pid"].t
        return [("no-zombie-left", z3.ForAll([p], sel(K1, p) != 2)),
                ("only-zombies-disappear", z3.ForAll([p], If(sel(K0, p) == 2, sel(K1, p) == 0, sel(K1, p) == sel(K0, p)))),
                ("reaped-workers-are-forgotten-others-kept", z3.ForAll([p], If(And(sel(K0, p) == 2, p != rp0), sel(m1, p) == 0, sel(m1, p) == sel(m0, p)))),
                ("reexec_pid-reset-iff-the-upgrade-child-was-reaped", rp1 == If(And(rp0 != 0, sel(K0, rp0) == 2), iv(0), rp0)),
                ("no-boot-failure-among-the-reaped", z3.ForAll([p], Implies(And(sel(K0, p) == 2, p != rp0),
                                                                             And(_exitcode(st0, p) != 3, _exitcode(st0, p) != 4))))]

    loops = {0: dict(anchor="while True", cands=[
        ("progress", lambda L: _reap_inv(L)),
    ])}


def _exitcode(st, p):
    """status >> 8 for the non-negative wait status of pid p"""
    s = sel(st.ghost["K_status"], p)
    q = z3.Function("shr8", I, I)
    return q(s)


def _reap_inv(L):
    st1, st0 = L.st, L.fentry
    W = st1.obj(L.self).fields["WORKERS"]
    m1, m0 = w_map(st1, W), w_map(st0, W)
    K1, K0 = st1.ghost["K_state"], st0.ghost["K_state"]
    rp0, rp1 = st0.obj(L.self).fields["reexec_pid"].t, st1.obj(L.self).fields["reexec_pid"].t
    p = qvar("p")
    gone = lambda x: And(sel(K0, x) == 2, sel(K1, x) == 0)
    return And(z3.ForAll([p], Or(sel(K1, p) == sel(K0, p), gone(p))),
               z3.ForAll([p], If(And(gone(p), p != rp0), sel(m1, p) == 0, sel(m1, p) == sel(m0, p))),
               rp1 == If(And(rp0 != 0, gone(rp0)), iv(0), rp0),
               z3.ForAll([p], Implies(And(gone(p), p != rp0), And(_exitcode(st0, p) != 3, _exitcode(st0, p) != 4))),
               st1.ghost["K_status"] == st0.ghost["K_status"])


# ======================================================================================================
# TTIN / TTOU / CHLD / signal queue
# ======================================================================================================
class _Arb1(Contract):
    def cases(self, env):
        st = State()
        a = mk_arbiter(env, st, tracked_are_children=True)
        st.obj(a).fields["LISTENERS"] = Opaque("listeners")
        return [("arb", st, {"self": a}, {})]

    def pre(self, c):
        return SpawnWorker.pre(SpawnWorker(), c)

    def modifies(self, c):
        return ManageWorkers.modifies(ManageWorkers(), c) + [("field", c.a["self"], "_num_workers")]

    def raises(self, c):
        return [(SystemExit, None), (OSError, None), (RuntimeError, None)]


@contract("gunicorn.arbiter:Arbiter.handle_ttin", props=("C03",))
class HandleTtin(_Arb1):
    def post(self, c):
        st1, st0 = c.st, c.old
        W = A(c).fields["WORKERS"]
        nw0 = A(c, st0).fields["_num_workers"].t
        return [("target-incremented", A(c, st1).fields["_num_workers"].t == nw0 + 1),
                ("pool-reaches-at-least-the-new-target", w_size(st1, W) >= Min(nw0 + 1, Max(w_size(st0, W), nw0 + 1))),
                ("only-TERM-is-sent", all_sig_same(st1, st0, TERM))]


@contract("gunicorn.arbiter:Arbiter.handle_ttou", props=("C03",))
class HandleTtou(_Arb1):
    def post(self, c):
        st1, st0 = c.st, c.old
        W = A(c).fields["WORKERS"]
        nw0 = A(c, st0).fields["_num_workers"].t
        p = qvar("p")
        same = And(A(c, st1).fields["_num_workers"].t == nw0, w_size(st1, W) == w_size(st0, W), all_sig_same(st1, st0, None),
                   z3.ForAll([p], sel(w_map(st1, W), p) == sel(w_map(st0, W), p)))
        return [("never-below-one-worker:nothing-changes", Implies(nw0 <= 1, same)),
                ("target-decremented", Implies(nw0 > 1, A(c, st1).fields["_num_workers"].t == nw0 - 1)),
                ("only-TERM-is-sent", all_sig_same(st1, st0, TERM))]


@contract("gunicorn.arbiter:Arbiter.signal", props=("C03",))
class ArbSignal(Contract):
    def cases(self, env):
        st = State()
        a = mk_arbiter(env, st)
        q = st.alloc(HList(sym=ListShape(IntShape()).fresh_seq(st, "SIG_QUEUE", view=False)))
        st.obj(a).fields["SIG_QUEUE"] = q
        return [("sig", st, {"self": a, "sig": SInt(z3.Int("sig")), "frame": Opaque("frame")}, {})]

    def raises(self, c):
        return [(OSError, None)]

    def post(self, c):
        q1 = c.st.obj(A(c).fields["SIG_QUEUE"]).sym
        q0 = c.old.obj(A(c, c.old).fields["SIG_QUEUE"]).sym
        n0 = q0.length()
        return [("queued-FIFO-unless-five-are-pending", If(n0 < 5, And(q1.length() == n0 + 1, q1.elem(q1.hi - 1).t == c.a["sig"].t), q1.length() == n0)),
                ("queue-never-longer-than-five", Implies(n0 <= 5, q1.length() <= 5))]


@contract("gunicorn.arbiter:Arbiter.handle_chld", props=("C03",))
class HandleChld(Contract):
    def cases(self, env):
        st = State()
        a = mk_arbiter(env, st)
        return [("chld", st, {"self": a, "sig": SInt(int(_signal.SIGCHLD)), "frame": Opaque("frame")}, {})]

    def raises(self, c):
        return ReapWorkers.raises(ReapWorkers(), c)

    def post(self, c):
        p = qvar("p")
        return [("no-zombie-left", z3.ForAll([p], sel(c.st.ghost["K_state"], p) != 2))]


# ======================================================================================================
# stop / halt / TERM INT QUIT (C04)
# ======================================================================================================
def mk_listeners(env, st, a, n=2):
    from .creds import mk_lsock
    socks = [mk_lsock(env, st, strops.fresh_str(st, "lname%d" % k, True)) for k in range(n)]
    st.obj(a).fields["LISTENERS"] = st.alloc(HList(socks))
    return socks


class _StopBase(Contract):
    weight = 3

    def mk(self, env, pidfile=False):
        st = State()
        a = mk_arbiter(env, st)
        socks = mk_listeners(env, st, a)
        st.ghost["close_calls"] = []
        return st, a, socks


def _close_sockets_stub(ex, st, self_v, args, kwargs, node):
    """call-site summary of sock.close_sockets (its own contract is verified above): records the call"""
    lst, unlink = args[0], (args[1] if len(args) > 1 else kwargs.get("unlink", SBool(True)))
    st.ghost["close_calls"] = list(st.ghost.get("close_calls", [])) + [(lst, ex.truth(unlink, st))]
    for s in ex.concrete_items(st, lst) or []:
        st.obj(s).fields["g_closed"] = SBool(True)
    bad = st.fork()
    return [ex.res(st, NONE), ex.res_exc(bad, oserror(_errno.EIO))]


@contract("gunicorn.arbiter:Arbiter.stop", props=("C04", "C14"))
class ArbStop(_StopBase):
    def cases(self, env):
        out = []
        for graceful in (True, False):
            st, a, socks = self.mk(env)
            out.append(("graceful=%s" % graceful, st, {"self": a, "graceful": SBool(graceful)}, {"socks": socks}))
        return out

    def modifies(self, c):
        W = A(c).fields["WORKERS"]
        return [("field", W, "g_map"), ("field", W, "g_size"), ("ghost", "K_sig_SIGTERM"), ("ghost", "K_sig_SIGQUIT"), ("ghost", "K_sig_SIGKILL"),
                ("ghost", "now")]

    def effects(self, c):
        st = c.st
        o0 = A(c, c.old)
        cfg = o0.fields["cfg"]
        unlink_spec = And(o0.fields["reexec_pid"].t == 0, o0.fields["master_pid"].t == 0, Not(c.ex.truth(o0.fields["systemd"], c.old)),
                          Not(c.ex.truth(c.field(cfg, "reuse_port", c.old), c.old)))
        st.ghost["close_calls"] = list(st.ghost.get("close_calls", [])) + [(o0.fields["LISTENERS"], unlink_spec)]
        A(c).fields["LISTENERS"] = st.alloc(HList([]))

    def raises(self, c):
        return [(OSError, None, lambda c2: {"errno": SInt(fresh_int("errno"))})]

    def post(self, c):
        st1, st0 = c.st, c.old
        W = A(c).fields["WORKERS"]
        m1, m0 = w_map(st1, W), w_map(st0, W)
        g = c.ex.truth(c.a["graceful"], st0)
        from pyvc.smt import const_bool
        first = TERM if const_bool(g) else QUIT
        f1, f0 = sig_arr(st1, first), sig_arr(st0, first)
        k1, k0 = sig_arr(st1, KILL), sig_arr(st0, KILL)
        K = st0.ghost["K_state"]
        p = qvar("p")
        calls = st1.ghost.get("close_calls", [])
        o0 = A(c, st0)
        cfg = o0.fields["cfg"]
        unlink_spec = And(o0.fields["reexec_pid"].t == 0, o0.fields["master_pid"].t == 0, Not(c.ex.truth(o0.fields["systemd"], st0)),
                          Not(c.ex.truth(c.field(cfg, "reuse_port", st0), st0)))
        lst1 = A(c, st1).fields["LISTENERS"]
        other = QUIT if first == TERM else TERM
        out = [("only-the-chosen-stop-signal-and-KILL-are-used", And(*[st1.ghost["K_sig_" + n] == st0.ghost["K_sig_" + n]
                                                                        for s_, n in SIGNAME.items() if s_ not in (first, KILL)])),
               ("listeners-closed-exactly-once", TRUE if len(calls) == 1 else FALSE),
               ("LISTENERS-emptied", TRUE if (isinstance(lst1, Ref) and c.ex.concrete_items(st1, lst1) == []) else FALSE),
               ("every-worker-told-to-stop(TERM-graceful/QUIT-otherwise)",
                z3.ForAll([p], Implies(And(sel(m0, p) != 0, sel(K, p) != 0), sel(f1, p) >= sel(f0, p) + 1))),
               ("workers-still-tracked-at-the-deadline-get-KILL", z3.ForAll([p], Implies(And(sel(m1, p) != 0, sel(K, p) != 0), sel(k1, p) >= sel(k0, p) + 1))),
               ("only-tracked-workers-are-signalled", z3.ForAll([p], Implies(sel(m0, p) == 0, And(sel(f1, p) == sel(f0, p), sel(k1, p) == sel(k0, p)))))]
        if len(calls) == 1:
            out.append(("unix-socket-files-unlinked-only-when-no-other-master-uses-them", calls[0][1] == unlink_spec))
        return out

    loops = {0: dict(anchor="while self.WORKERS and time.time() < limit", cands=[
        ("nothing-changes-while-waiting", lambda L: _stop_wait(L)),
    ])}


def _stop_wait(L):
    st1, st0 = L.st, L.entry
    W = st1.obj(L.self).fields["WORKERS"]
    p = qvar("p")
    return And(st1.obj(W).fields["g_map"].t == st0.obj(W).fields["g_map"].t, st1.obj(W).fields["g_size"].t == st0.obj(W).fields["g_size"].t,
               *[st1.ghost["K_sig_" + n] == st0.ghost["K_sig_" + n] for n in SIGNAME.values()])


@contract("gunicorn.arbiter:Arbiter.halt", props=("C04", "C17"))
class ArbHalt(_StopBase):
    def cases(self, env):
        out = []
        for pf in (False, True):
            st, a, socks = self.mk(env)
            if pf:
                env.class_models["PidfileModel"] = _PidfileModel()
                st.obj(a).fields["pidfile"] = st.alloc(HObj("PidfileModel", {"g_unlinks": SInt(0)}))
            es = z3.Int("exit_status")
            out.append(("pidfile=%s" % pf, st, {"self": a, "reason": NONE, "exit_status": SInt(es)}, {"pf": pf}))
        return out

    def raises(self, c):
        return [(SystemExit, None), (OSError, None)]

    def exc_post(self, c):
        if c.exc is not None and c.exc.cls is SystemExit:
            code = c.exc.fields.get("code")
            out = [("exits-with-the-given-status", code.t == c.a["exit_status"].t if isinstance(code, SInt) else FALSE),
                   ("stopped-before-exiting", TRUE if len(c.st.ghost.get("close_calls", [])) == 1 else FALSE)]
            pf = A(c).fields["pidfile"]
            if isinstance(pf, Ref):
                out.append(("own-pid-file-unlinked-once", c.st.obj(pf).fields["g_unlinks"].t == 1))
            return out
        return []

    def post(self, c):
        return [("halt-never-returns", FALSE)]


class PidfileModel(ClassModel):
    pass


class _PidfileModel(ClassModel):
    def call(self, ex, st, self_v, meth, args, kwargs, node):
        o = st.obj(self_v)
        if meth == "unlink":
            o.fields["g_unlinks"] = SInt(o.fields["g_unlinks"].t + 1)
            return [ex.res(st, NONE)]
        if meth == "rename":
            o.fields["g_renamed_to"] = args[0]
            bad = st.fork()
            return [ex.res(st, NONE), ex.res_exc(bad, SExc(RuntimeError))]
        return None


class _TermLike(Contract):
    graceful_stop = None

    def cases(self, env):
        st = State()
        a = mk_arbiter(env, st)
        mk_listeners(env, st, a)
        st.ghost["close_calls"] = []
        return [("sig", st, {"self": a}, {})]

    def raises(self, c):
        return [(StopIteration, None), (OSError, None)]

    def post(self, c):
        return [("always-leads-to-shutdown(StopIteration)", FALSE)]


@contract("gunicorn.arbiter:Arbiter.handle_term", props=("C04",))
class HandleTerm(_TermLike):
    def exc_post(self, c):
        if c.exc is not None and c.exc.cls is StopIteration:
            return [("TERM-does-not-stop-workers-itself(graceful-stop-happens-in-halt)", TRUE if len(c.st.ghost.get("close_calls", [])) == 0 else FALSE)]
        return []


@contract("gunicorn.arbiter:Arbiter.handle_int", props=("C04",))
class HandleInt(_TermLike):
    def exc_post(self, c):
        if c.exc is not None and c.exc.cls is StopIteration:
            return [("quick-stop-ran-first", TRUE if len(c.st.ghost.get("close_calls", [])) == 1 else FALSE),
                    ("workers-got-QUIT-not-TERM", c.st.ghost["K_sig_SIGTERM"] == c.old.ghost["K_sig_SIGTERM"])]
        return []


@contract("gunicorn.arbiter:Arbiter.handle_quit", props=("C04",))
class HandleQuit(HandleInt):
    pass


# ======================================================================================================
# USR2: reexec / maybe_promote_master / handle_usr2 / handle_winch (C14)
# ======================================================================================================
def _execvpe(ex, st, self_v, args, kwargs, node):
    st.ghost["exec"] = {"file": args[0], "args": args[1], "env": args[2]}
    return [ex.res_exc(st, SExc(SystemExit, (SInt(0),), {"code": SInt(0), "g_exec": SBool(True)}))]    # exec never returns


def _chdir(ex, st, self_v, args, kwargs, node):
    return R1(ex, st, NONE)


class EnvDictModel(ClassModel):
    """os.environ / cfg.env_orig: a str->str mapping with ghost 'set' record (only the keys the code writes are tracked)"""

    def call(self, ex, st, self_v, meth, args, kwargs, node):
        o = st.obj(self_v)
        if meth == "copy":
            return [ex.res(st, st.alloc(HObj("EnvDict", {"g_set": HDict_items(st, o)})))]
        if meth == "get":
            k = args[0].concrete_py()
            d = st.obj(o.fields["g_set"]).items
            if k in d:
                return [ex.res(st, d[k])]
            return [ex.res(st, args[1] if len(args) > 1 else NONE)]
        if meth == "pop":
            k = args[0].concrete_py()
            d = st.obj(o.fields["g_set"]).items
            if k in d:
                return [ex.res(st, d.pop(k))]
            return [ex.res_exc(st, SExc(KeyError))]
        return None

    def setitem(self, ex, st, ref, o, key, v):
        st.obj(o.fields["g_set"]).items[key.concrete_py()] = v
        return [(st, None)]

    def contains(self, ex, st, ref, o, item):
        k = item.concrete_py()
        d = st.obj(o.fields["g_set"]).items
        if k in d:
            return TRUE
        return z3.Bool("environ.has.%s" % k)

    def delitem(self, ex, st, ref, o, key):
        st.obj(o.fields["g_set"]).items.pop(key.concrete_py(), None)
        st.ghost["env_deleted"] = list(st.ghost.get("env_deleted", [])) + [key.concrete_py()]
        return [(st, None)]


def HDict_items(st, o):
    src = st.obj(o.fields["g_set"])
    return st.alloc(HDict(dict(src.items)))


ENVDICT = EnvDictModel()


def mk_envdict(env, st):
    env.class_models["EnvDict"] = ENVDICT
    return st.alloc(HObj("EnvDict", {"g_set": st.alloc(HDict({}))}))


@contract("gunicorn.arbiter:Arbiter.reexec", props=("C14",))
class Reexec(Contract):
    def cases(self, env):
        STUBS["os.execvpe"] = _execvpe
        STUBS["posix.execvpe"] = _execvpe
        STUBS["os.chdir"] = _chdir
        STUBS["posix.chdir"] = _chdir
        out = []
        for systemd in (False, True):
            st = State()
            a = mk_arbiter(env, st)
            socks = mk_listeners(env, st, a, n=2)
            for k, s_ in enumerate(socks):
                st.obj(s_).fields["g_fd"] = SInt(z3.Int("lfd%d" % k))
            o = st.obj(a)
            o.fields["systemd"] = SBool(systemd)
            cfg = st.obj(o.fields["cfg"])
            cfg.fields["env_orig"] = mk_envdict(env, st)
            o.fields["START_CTX"] = st.alloc(HDict({"cwd": strops.fresh_str(st, "cwd", True), "args": Opaque("argv"), 0: strops.fresh_str(st, "exe", True)}))
            st.ghost["close_calls"] = []
            out.append(("systemd=%s" % systemd, st, {"self": a}, {"socks": socks}))
        return out

    def raises(self, c):
        return [(SystemExit, None), (OSError, None)]

    def no_close(self, c):
        socks = c.g["socks"] if "socks" in c.g else (c.ex.concrete_items(c.old, A(c, c.old).fields["LISTENERS"]) or [])
        from .creds import sock_events
        closed = [s_ for s_ in socks if any(e[0] == "close" for e in sock_events(c.st, s_))]
        return [("no-listener-is-closed", TRUE if (not closed and not c.st.ghost.get("close_calls")) else FALSE)]

    def exc_post(self, c):
        if c.exc is not None and c.exc.cls is SystemExit and c.mode != "call":
            x = c.st.ghost.get("exec")
            out = self.no_close(c)
            if x is None:
                return out + [("child-execs", FALSE)]
            envd = c.st.obj(c.st.obj(x["env"]).fields["g_set"]).items
            o0 = A(c, c.old)
            out.append(("exec-only-in-the-forked-child-when-no-upgrade-is-pending",
                        And(TRUE if c.st.ghost.get("in_child", False) else FALSE, o0.fields["reexec_pid"].t == 0, o0.fields["master_pid"].t == 0)))
            gp = envd.get("GUNICORN_PID")
            out.append(("GUNICORN_PID==str(parent pid)", TRUE if (isinstance(gp, SStr) and len(gp.atoms) == 1 and hasattr(gp.atoms[0], "t") and gp.atoms[0].t.eq(z3.Int("me"))) else FALSE))
            from pyvc.smt import const_bool
            if const_bool(c.ex.truth(o0.fields["systemd"], c.old)):
                out.append(("systemd:LISTEN_FDS==number-of-listeners", TRUE if ("LISTEN_FDS" in envd and envd["LISTEN_FDS"].concrete_py() == "2") else FALSE))
                out.append(("systemd:no-GUNICORN_FD", TRUE if "GUNICORN_FD" not in envd else FALSE))
            else:
                fd = envd.get("GUNICORN_FD")
                ok = isinstance(fd, SStr) and [type(a_).__name__ for a_ in fd.atoms] == ["Num", "Lit", "Num"] and fd.atoms[1].b == b"," \
                    and fd.atoms[0].t.eq(z3.Int("lfd0")) and fd.atoms[2].t.eq(z3.Int("lfd1"))
                out.append(("GUNICORN_FD==comma-joined-filenos-of-all-listeners-in-order", TRUE if ok else FALSE))
            return out
        return []

    def post(self, c):
        st1, st0 = c.st, c.old
        o1, o0 = A(c, st1), A(c, st0)
        pending = Or(o0.fields["reexec_pid"].t != 0, o0.fields["master_pid"].t != 0)
        forks = st1.ghost.get("forks", iv(0))
        return self.no_close(c) + [
            ("further-USR2-ignored-while-an-upgrade-is-pending", Implies(pending, And(forks == 0, o1.fields["reexec_pid"].t == o0.fields["reexec_pid"].t))),
            ("parent-remembers-the-new-master", Implies(Not(pending), And(forks == 1, o1.fields["reexec_pid"].t > 0))),
            ("returns-only-in-the-parent", TRUE if not st1.ghost.get("in_child", False) else FALSE)]


def _lsock_fileno(ex, st, self_v, args, kwargs, node):
    return R1(ex, st, st.obj(self_v).fields["g_fd"])


STUBS["lsock.fileno"] = _lsock_fileno


@contract("gunicorn.arbiter:Arbiter.maybe_promote_master", props=("C14",))
class MaybePromote(Contract):
    def cases(self, env):
        st = State()
        a = mk_arbiter(env, st)
        env.class_models["PidfileModel"] = _PidfileModel()
        o = st.obj(a)
        o.fields["pidfile"] = st.alloc(HObj("PidfileModel", {"g_unlinks": SInt(0)}))
        cfg = st.obj(o.fields["cfg"])
        cfg.fields["pidfile"] = strops.fresh_str(st, "cfg.pidfile", True, canonical=True)
        st.ghost["os.environ"] = mk_envdict(env, st)
        st.obj(st.obj(st.ghost["os.environ"]).fields["g_set"]).items["GUNICORN_PID"] = SStr.lit("1")
        return [("promote", st, {"self": a}, {})]

    def raises(self, c):
        return [(RuntimeError, None), (OSError, None), (KeyError, None)]

    def post(self, c):
        st1, st0 = c.st, c.old
        o1, o0 = A(c, st1), A(c, st0)
        mp0 = o0.fields["master_pid"].t
        ppid = z3.Int("ppid.now")
        promoted = And(mp0 != 0, mp0 != ppid)
        pf = st1.obj(o1.fields["pidfile"])
        renamed = pf.fields.get("g_renamed_to")
        cfgpf = c.field(o0.fields["cfg"], "pidfile", st0)
        ren_ok = TRUE if (renamed is not None and isinstance(cfgpf, SStr) and renamed.atoms == cfgpf.atoms) else FALSE
        return [("promoted-iff-the-old-master-is-no-longer-the-parent", o1.fields["master_pid"].t == If(promoted, iv(0), mp0)),
                ("promotion-moves-the-pid-file-to-the-configured-name", Implies(promoted, ren_ok)),
                ("no-rename-without-promotion", Implies(Not(promoted), TRUE if renamed is None else FALSE)),
                ("GUNICORN_PID-dropped-on-promotion", Implies(promoted, TRUE if "GUNICORN_PID" in st1.ghost.get("env_deleted", []) else FALSE))]


# ======================================================================================================
# setup / reload / handle_hup (C10), start (C14), handle_usr2 / handle_winch
# ======================================================================================================
class ArbApp(ClassModel):
    """the Application object as the arbiter sees it: reload() re-reads the configuration and installs a NEW cfg object
    (ASSUMED: Application.reload -> do_load_config builds a fresh Config; C16 is about what it contains)"""

    def call(self, ex, st, self_v, meth, args, kwargs, node):
        o = st.obj(self_v)
        if meth == "reload":
            o.fields["cfg"] = o.fields["g_newcfg"]
            o.fields["g_reloads"] = SInt(o.fields["g_reloads"].t + 1)
            bad = st.fork()
            return [ex.res(st, NONE), ex.res_exc(bad, SExc(RuntimeError))]
        if meth == "wsgi":
            return [ex.res(st, Opaque("wsgi-callable"))]
        return None


def mk_cfg2(env, st, tag, pidfile=None):
    """a Config whose arbiter-relevant settings are independent symbols tagged `tag`"""
    cfg = mk_cfg(env, st)
    f = st.obj(cfg).fields
    w, t = z3.Int(tag + ".workers"), z3.Int(tag + ".timeout")
    st.assume(w >= 1, t >= 0)
    f.update({"address": strops.fresh_str(st, tag + ".address", True, canonical=True), "workers": SInt(w), "timeout": SInt(t),
              "proc_name": strops.fresh_str(st, tag + ".proc_name", True, canonical=True),
              "pidfile": pidfile if pidfile is not None else NONE, "env": st.alloc(HDict({})), "env_orig": mk_envdict(env, st),
              "worker_class": st.alloc(HObj("WorkerFactory", {"g_tag": tag})), "preload_app": SBool(z3.Bool(tag + ".preload_app")),
              "worker_class_str": SStr.lit("sync"), "settings": Opaque("settings")})
    return cfg


def _ctor_pidfile(ex, st, self_v, args, kwargs, node):
    ex.env.class_models["PidfileModel"] = _PidfileModel2()
    return R1(ex, st, st.alloc(HObj("PidfileModel", {"g_unlinks": SInt(0), "g_fname": args[0], "g_created": NONE})))


class _PidfileModel2(_PidfileModel):
    def call(self, ex, st, self_v, meth, args, kwargs, node):
        o = st.obj(self_v)
        if meth == "create":
            o.fields["g_created"] = args[0]
            bad = st.fork()
            return [ex.res(st, NONE), ex.res_exc(bad, SExc(RuntimeError))]
        return _PidfileModel.call(self, ex, st, self_v, meth, args, kwargs, node)


def _setproctitle(ex, st, self_v, args, kwargs, node):
    return R1(ex, st, NONE)


def mk_reload_world(env, st, pidfile=False):
    STUBS["ctor:Pidfile"] = _ctor_pidfile
    STUBS["gunicorn.util._setproctitle"] = _setproctitle
    env.class_models["ArbApp"] = ArbApp()
    env.class_models["PidfileModel"] = _PidfileModel2()
    a = mk_arbiter(env, st, tracked_are_children=True)
    o = st.obj(a)
    socks = mk_listeners(env, st, a, n=2)
    cfg1 = mk_cfg2(env, st, "cfg1")
    cfg2 = mk_cfg2(env, st, "cfg2", pidfile=(strops.fresh_str(st, "cfg2.pidfile", True, canonical=True) if pidfile else None))
    o.fields["cfg"] = cfg1
    app = st.alloc(HObj("ArbApp", {"cfg": cfg1, "g_newcfg": cfg2, "g_reloads": SInt(0)}))
    o.fields["app"] = app
    o.fields["address"] = st.obj(cfg1).fields["address"]
    if pidfile:
        o.fields["pidfile"] = st.alloc(HObj("PidfileModel", {"g_unlinks": SInt(0), "g_fname": Opaque("old"), "g_created": NONE}))
    st.ghost["os.environ"] = mk_envdict(env, st)
    st.ghost["close_calls"] = []
    return a, socks, cfg1, cfg2, app


@contract("gunicorn.arbiter:Arbiter.setup", props=("C10", "C16"))
class Setup(Contract):
    def cases(self, env):
        st = State()
        a, socks, cfg1, cfg2, app = mk_reload_world(env, st)
        st.obj(app).fields["cfg"] = cfg2         # as after app.reload()
        return [("setup", st, {"self": a, "app": app}, {"cfg2": cfg2, "socks": socks})]

    def modifies(self, c):
        s = c.a["self"]
        if c.mode == "call":          # effects() installs the new values constructively
            return [("ghost", "os.environ")]
        return [("field", s, "app"), ("field", s, "cfg"), ("field", s, "worker_class"), ("field", s, "address"),
                ("field", s, "_num_workers"), ("field", s, "timeout"), ("field", s, "proc_name"), ("ghost", "os.environ")]

    def raises(self, c):
        return [(Exception, None)]

    def effects(self, c):
        o = A(c)
        cfg = c.st.obj(c.a["app"]).fields["cfg"]
        o.fields["app"] = c.a["app"]
        o.fields["cfg"] = cfg
        cf = c.st.obj(cfg).fields
        o.fields["worker_class"] = cf["worker_class"]
        o.fields["address"] = cf["address"]
        o.fields["_num_workers"] = cf["workers"]
        o.fields["timeout"] = cf["timeout"]
        o.fields["proc_name"] = cf["proc_name"]

    def post(self, c):
        if c.mode == "call":
            return []
        o1 = A(c)
        cfg = c.st.obj(c.a["app"]).fields["cfg"]
        cf = c.st.obj(cfg).fields
        same = lambda x, y: TRUE if (x is y or (isinstance(x, SStr) and isinstance(y, SStr) and x.atoms == y.atoms) or
                                      (isinstance(x, Ref) and isinstance(y, Ref) and x.oid == y.oid)) else FALSE
        return [("cfg-is-the-application's-current-cfg", same(o1.fields["cfg"], cfg)),
                ("num_workers==cfg.workers", o1.fields["_num_workers"].t == cf["workers"].t),
                ("timeout==cfg.timeout", o1.fields["timeout"].t == cf["timeout"].t),
                ("worker_class==cfg.worker_class", same(o1.fields["worker_class"], cf["worker_class"])),
                ("address==cfg.address", same(o1.fields["address"], cf["address"])),
                ("proc_name==cfg.proc_name", same(o1.fields["proc_name"], cf["proc_name"]))]


def _listener_events(c, socks):
    from .creds import sock_events
    return [e for s_ in socks for e in sock_events(c.st, s_)]


@contract("gunicorn.arbiter:Arbiter.reload", props=("C10", "C03"))
class Reload(Contract):
    weight = 4

    def cases(self, env):
        out = []
        for pf in (False, True):
            st = State()
            a, socks, cfg1, cfg2, app = mk_reload_world(env, st, pidfile=pf)
            out.append(("pidfile=%s" % pf, st, {"self": a}, {"cfg1": cfg1, "cfg2": cfg2, "socks": socks, "app": app, "pf": pf}))
        return out

    def pre(self, c):
        return SpawnWorker.pre(SpawnWorker(), c)

    def raises(self, c):
        return [(Exception, None), (SystemExit, None)]

    def post(self, c):
        st1, st0 = c.st, c.old
        o1, o0 = A(c, st1), A(c, st0)
        g = c.g
        if "cfg1" not in g:      # call mode: the same quantities read off the caller's state
            app = o0.fields["app"]
            g = {"cfg1": o0.fields["cfg"], "cfg2": st0.obj(app).fields["g_newcfg"], "app": app,
                 "socks": c.ex.concrete_items(st0, o0.fields["LISTENERS"]), "pf": isinstance(o0.fields["pidfile"], Ref)}
        W = o0.fields["WORKERS"]
        m1, m0 = w_map(st1, W), w_map(st0, W)
        wa0 = o0.fields["worker_age"].t
        k1, k0 = sig_arr(st1, TERM), sig_arr(st0, TERM)
        p, q = qvar("p"), qvar("q")
        addr1 = st1.obj(g["cfg1"]).fields["address"]
        addr2 = st1.obj(g["cfg2"]).fields["address"]
        from pyvc.values import str_eq
        unchanged = str_eq(addr1, addr2)
        closed = [e for e in _listener_events(c, g["socks"]) if e[0] == "close"]
        L1 = o1.fields["LISTENERS"]
        same_list = isinstance(L1, Ref) and L1.oid == o0.fields["LISTENERS"].oid
        nclose = len(closed)
        ncreate = len(st1.ghost.get("create_sockets_calls", []))
        termed = lambda x: sel(k1, x) > sel(k0, x)
        new = lambda x: And(sel(m0, x) == 0, sel(m1, x) != 0)
        w2 = st1.obj(g["cfg2"]).fields["workers"].t
        out = [("unchanged-bind-address:no-listener-closed-and-none-created",
                Implies(unchanged, TRUE if (nclose == 0 and ncreate == 0 and same_list and not st1.ghost.get("close_calls")) else FALSE)),
               ("changed-bind-address:every-old-listener-closed-once-and-new-ones-created",
                Implies(Not(unchanged), TRUE if (nclose == len(g["socks"]) and ncreate == 1 and not same_list) else FALSE)),
               ("configuration-re-read-exactly-once", st1.obj(g["app"]).fields["g_reloads"].t == 1),
               ("runs-the-new-configuration", TRUE if (isinstance(o1.fields["cfg"], Ref) and o1.fields["cfg"].oid == g["cfg2"].oid) else FALSE),
               ("target-is-the-newly-configured-number", o1.fields["_num_workers"].t == w2),
               ("new-generation-is-younger-than-every-old-worker", z3.ForAll([p], Implies(new(p), age_of(st1, sel(m1, p)) > wa0))),
               ("pool-afterwards-is-old-workers-plus-new-generation-only",
                z3.ForAll([p], Implies(sel(m1, p) != 0, Or(And(sel(m1, p) == sel(m0, p), age_of(st1, sel(m1, p)) == age_of(st0, sel(m0, p))),
                                                           And(sel(m0, p) == 0, age_of(st1, sel(m1, p)) > wa0))))),
               ("pool-holds-old-plus-exactly-the-new-number", w_size(st1, W) == w_size(st0, W) + w2),
               ("only-TERM-is-sent", all_sig_same(st1, st0, TERM)),
               ("retirement-is-oldest-first:a-new-generation-worker-is-retired-only-if-every-older-one-is",
                z3.ForAll([p, q], Implies(And(termed(p), sel(m1, p) != 0, sel(m1, q) != 0, Not(termed(q))),
                                          age_of(st1, sel(m1, p)) < age_of(st1, sel(m1, q))))),
               ("at-most-one-TERM-per-worker", z3.ForAll([p], And(sel(k1, p) >= sel(k0, p), sel(k1, p) <= sel(k0, p) + 1))),
               ("some-worker-is-retired-whenever-old-ones-exist", Implies(w_size(st0, W) > 0, z3.Exists([p], termed(p))))]
        if g["pf"]:
            pf1 = o1.fields["pidfile"]
            ok = isinstance(pf1, Ref) and pf1.oid != o0.fields["pidfile"].oid
            if ok:
                pfo = st1.obj(pf1)
                ok = pfo.fields["g_fname"] is st1.obj(g["cfg2"]).fields["pidfile"] and isinstance(pfo.fields["g_created"], SInt) \
                    and pfo.fields["g_created"].t.eq(z3.Int("me"))
            out.append(("pid-file-recreated-under-the-new-name-with-the-master's-pid", TRUE if ok else FALSE))
            out.append(("old-pid-file-unlinked-once", st1.obj(o0.fields["pidfile"]).fields["g_unlinks"].t == 1))
        return out

    loops = {0: dict(anchor="for k in self.cfg.env", cands=[]),
             1: dict(anchor="for lnr in self.LISTENERS", cands=[]),
             2: dict(anchor="for _ in range(self.cfg.workers)", cands=[
                 ("size==n0+i", lambda L: w_size(L.st, _W(L)) == w_size(L.fentry, _W(L)) + L.loop_index),
                 ("existing-kept", lambda L: _sp_inv(L)),
                 ("Inv:tracked-are-children", lambda L: _inv_children(L)),
                 ("no-signal-sent", lambda L: all_sig_same(L.st, L.fentry)),
             ])}


@contract("gunicorn.arbiter:Arbiter.handle_hup", props=("C10",))
class HandleHup(Contract):
    def cases(self, env):
        st = State()
        a, socks, cfg1, cfg2, app = mk_reload_world(env, st)
        return [("hup", st, {"self": a}, {"app": app})]

    def pre(self, c):
        return SpawnWorker.pre(SpawnWorker(), c)

    def raises(self, c):
        return [(Exception, None), (SystemExit, None)]

    def post(self, c):
        return [("HUP-reloads-exactly-once", c.st.obj(c.g["app"]).fields["g_reloads"].t == 1)]


inline("gunicorn.systemd:listen_fds")


def _sd_notify(ex, st, self_v, args, kwargs, node):
    return R1(ex, st, NONE)


def _flagfd(name):
    def f(ex, st, self_v, args, kwargs, node):
        from pyvc.smt import const_int
        d = dict(st.ghost.get(name, {}))
        d[str(args[0].t)] = True
        st.ghost[name] = d
        return R1(ex, st, NONE)
    return f


def _os_pipe(ex, st, self_v, args, kwargs, node):
    bad = st.fork()
    return [ex.res(st, STuple([SInt(z3.Int("newpipe.r")), SInt(z3.Int("newpipe.w"))])), ex.res_exc(bad, oserror(_errno.EMFILE))]


def _os_close_rec(ex, st, self_v, args, kwargs, node):
    st.ghost["closed_fds"] = list(st.ghost.get("closed_fds", [])) + [str(args[0].t)]
    return R1(ex, st, NONE)


@contract("gunicorn.arbiter:Arbiter.init_signals", props=("C14", "C03"))
class InitSignals(Contract):
    """every signal of Arbiter.SIGNALS is routed to the queueing handler Arbiter.signal, SIGCHLD to handle_chld; the old
    wake-up pipe is closed and a new one created with both ends non-blocking and close-on-exec"""

    def cases(self, env):
        from .workerlife import _signal_signal
        st = State()
        env.use_class("gunicorn.arbiter", "Arbiter")
        a = st.alloc(HObj("Arbiter", {"PIPE": st.alloc(HList([SInt(z3.Int("oldpipe.r")), SInt(z3.Int("oldpipe.w"))])), "log": mk_logger(env, st)}))
        STUBS.update({"signal.signal": _signal_signal, "os.pipe": _os_pipe, "posix.pipe": _os_pipe, "os.close": _os_close_rec, "posix.close": _os_close_rec,
                      "gunicorn.util.set_non_blocking": _flagfd("nonblocking"), "gunicorn.util.close_on_exec": _flagfd("cloexec")})
        st.ghost.update({"handlers": {}, "nonblocking": {}, "cloexec": {}, "closed_fds": []})
        return [("init", st, {"self": a}, {})]

    def raises(self, c):
        return [(OSError, None)]

    def post(self, c):
        if c.mode == "call":
            return []
        import signal as _sg
        from .workerlife import _handler_name
        g = c.st.ghost
        live = c.ex.env.repo.live("gunicorn.arbiter")
        h = {k: _handler_name(v) for k, v in g["handlers"].items()}
        sigs = [int(x) for x in live.Arbiter.SIGNALS]
        new = ["newpipe.r", "newpipe.w"]
        pipe = A(c).fields["PIPE"]
        return [("every-master-signal-is-queued-by-Arbiter.signal", TRUE if all(h.get(s) == "signal" for s in sigs) else FALSE),
                ("SIGCHLD-goes-to-handle_chld", TRUE if h.get(int(_sg.SIGCHLD)) == "handle_chld" else FALSE),
                ("old-pipe-closed", TRUE if g["closed_fds"] == ["oldpipe.r", "oldpipe.w"] else FALSE),
                ("new-pipe-ends-are-non-blocking-and-close-on-exec", TRUE if all(n in g["nonblocking"] and n in g["cloexec"] for n in new) else FALSE),
                ("PIPE-is-the-new-pipe", TRUE if (isinstance(pipe, STuple) and [str(x.t) for x in pipe.items] == new) else FALSE)]

    loops = {0: dict(anchor="for p in self.PIPE", cands=[]), 1: dict(anchor="for p in pair", cands=[]), 2: dict(anchor="for s in self.SIGNALS", cands=[])}


@contract("gunicorn.arbiter:Arbiter.start", props=("C14", "C17"))
class Start(Contract):
    """the upgrade child (GUNICORN_PID in the environment) records its pid under '<pidfile>.2' and adopts exactly the
    descriptors listed in GUNICORN_FD, in order; a first master uses the configured name and binds fresh sockets"""

    def cases(self, env):
        from pyvc.strops import decval
        out = []
        for upgrade in (False, True):
            st = State()
            STUBS["ctor:Pidfile"] = _ctor_pidfile
            STUBS["gunicorn.systemd.sd_notify"] = _sd_notify
            env.class_models["PidfileModel"] = _PidfileModel2()
            a = mk_arbiter(env, st)
            o = st.obj(a)
            o.fields["LISTENERS"] = st.alloc(HList([]))
            o.fields["master_pid"] = SInt(0)
            cfg = st.obj(o.fields["cfg"])
            cfg.fields["worker_class_str"] = SStr.lit("sync")
            envd = mk_envdict(env, st)
            st.ghost["os.environ"] = envd
            items = st.obj(st.obj(envd).fields["g_set"]).items
            g = {"upgrade": upgrade}
            if upgrade:
                items["GUNICORN_PID"] = strops.fresh_str(st, "env.GUNICORN_PID", True, canonical=True)
                items["GUNICORN_FD"] = strops.fresh_str(st, "env.GUNICORN_FD", True, canonical=True)
            else:
                st.assume(Not(z3.Bool("environ.has.GUNICORN_PID")))
            out.append(("upgrade-child" if upgrade else "first-master", st, {"self": a}, g))
        return out

    def raises(self, c):
        return [(Exception, None), (SystemExit, None)]

    def post(self, c):
        from pyvc.strops import pyint
        decval = lambda b_, lo_, hi_: pyint(b_, lo_, hi_, iv(10))
        st1, st0 = c.st, c.old
        o1, o0 = A(c, st1), A(c, st0)
        up = c.g["upgrade"]
        out = []
        pf = o1.fields["pidfile"]
        cfgpf = c.field(o0.fields["cfg"], "pidfile", st0)
        calls = st1.ghost.get("create_sockets_calls", [])
        reuse = z3.Bool("cfg.reuse_port")
        if isinstance(pf, Ref):
            fo = st1.obj(pf)
            name = fo.fields["g_fname"]
            base = cfgpf.inner if isinstance(cfgpf, SOpt) else cfgpf
            want = list(base.atoms) + ([strops.Lit(b".2")] if up else [])
            from .sockmodel import rope_struct_eq
            if not isinstance(name, SStr):
                ok = FALSE
            elif up:
                ok = If(o1.fields["master_pid"].t != 0, rope_struct_eq(name, SStr(want, True)), rope_struct_eq(name, SStr(list(base.atoms), True)))
            else:
                ok = rope_struct_eq(name, SStr(want, True))
            out.append(("pid-file-name-is-the-configured-name" + ("-plus-.2-in-the-upgrade-child" if up else ""), ok))
            out.append(("pid-file-holds-this-master's-pid", TRUE if (isinstance(fo.fields["g_created"], SInt) and fo.fields["g_created"].t.eq(z3.Int("me"))) else FALSE))
        else:
            out.append(("no-pid-file-only-when-none-is-configured", Not(cfgpf.some) if isinstance(cfgpf, SOpt) else FALSE))
        if up:
            gp = st0.obj(st0.obj(st0.ghost["os.environ"]).fields["g_set"]).items["GUNICORN_PID"].single_win()
            out.append(("remembers-the-old-master", o1.fields["master_pid"].t == decval(gp.base, gp.lo, gp.hi)))
            items1 = st1.obj(st1.obj(st1.ghost["os.environ"]).fields["g_set"]).items
            out.append(("GUNICORN_FD-consumed-by-the-upgrade-child", Implies(And(o1.fields["master_pid"].t != 0, Not(reuse)), TRUE if "GUNICORN_FD" not in items1 else FALSE)))
        else:
            out.append(("not-an-upgrade:master_pid-stays-0", o1.fields["master_pid"].t == 0))
        if len(calls) == 1:
            fds = calls[0]
            if up:
                ok = FALSE
                gfd = st0.obj(st0.obj(st0.ghost["os.environ"]).fields["g_set"]).items["GUNICORN_FD"]
                if isinstance(fds, Ref) and isinstance(st1.obj(fds), HList) and st1.obj(fds).sym is not None and "split_seq" in st1.ghost:
                    seq, pieces = st1.obj(fds).sym, st1.ghost["split_seq"]
                    j = qvar("j")
                    w = lambda k: pieces.elem(k).single_win()
                    G = gfd.single_win()
                    pq = qvar("p")
                    first, last = w(pieces.lo), w(pieces.hi - 1)
                    # `pieces` is characterised independently of how the code obtained it: it tiles the WHOLE value of
                    # GUNICORN_FD into maximal comma-free fields
                    tiles = And(pieces.length() >= 1, first.lo == G.lo, last.hi == G.hi,
                                z3.ForAll([j], Implies(And(pieces.lo <= j, j < pieces.hi - 1),
                                                       And(w(j).hi + 1 == w(j + 1).lo, z3.Select(G.base, w(j).hi) == 44))),
                                z3.ForAll([j, pq], Implies(And(pieces.lo <= j, j < pieces.hi, w(j).lo <= pq, pq < w(j).hi),
                                                           z3.Select(G.base, pq) != 44)))
                    ok = And(TRUE if first.base.eq(G.base) else FALSE, tiles, seq.length() == pieces.length(),
                             z3.ForAll([j], Implies(And(0 <= j, j < pieces.length()),
                                                    seq.elem(seq.lo + j).t == decval(w(pieces.lo + j).base, w(pieces.lo + j).lo, w(pieces.lo + j).hi))))
                out.append(("adopts-exactly-the-descriptors-of-GUNICORN_FD-in-order", Implies(o1.fields["master_pid"].t != 0, ok)))
            else:
                out.append(("first-master-binds-fresh-sockets(no-inherited-descriptors)", TRUE if isinstance(fds, SNone) else
                            (Not(z3.Bool("never")) if False else FALSE)))
        else:
            out.append(("sockets-created-once-unless-reuse_port", And(reuse, TRUE if len(calls) == 0 else FALSE)))
        return out

    loops = {0: dict(anchor="for fd in os.environ.pop('GUNICORN_FD').split(',')", cands=[
        ("len==i", lambda L: _fds_len(L)),
        ("elems", lambda L: _fds_elems(L)),
    ])}


def _fds_view(L):
    """(length, element-at-offset) of the local list `fds`, concrete-empty at loop entry and symbolic at the head"""
    o = L.st.obj(L.fds)
    if o.sym is not None:
        return o.sym.length(), (lambda j: o.sym.elem(o.sym.lo + j).t)
    if o.items is not None and not o.items:
        return iv(0), (lambda j: iv(0))
    raise Unsupported("fds has an unexpected shape")


def _fds_len(L):
    L.st.ghost["split_seq"] = L.ex.sym_seq(L.entry, L.iter)
    return _fds_view(L)[0] == L.loop_index


def _fds_elems(L):
    from pyvc.strops import pyint
    n, at = _fds_view(L)
    pieces = L.ex.sym_seq(L.entry, L.iter)
    j = qvar("j")
    w = lambda k: pieces.elem(k).single_win()
    return z3.ForAll([j], Implies(And(0 <= j, j < L.loop_index),
                                  at(j) == pyint(w(pieces.lo + j).base, w(pieces.lo + j).lo, w(pieces.lo + j).hi, iv(10))))


@contract("gunicorn.arbiter:Arbiter.handle_usr2", props=("C14",))
class HandleUsr2(Contract):
    def cases(self, env):
        return Reexec.cases(Reexec(), env)

    def raises(self, c):
        return [(SystemExit, None), (OSError, None)]

    def post(self, c):
        return Reexec.post(Reexec(), c)


@contract("gunicorn.arbiter:Arbiter.handle_winch", props=("C14",))
class HandleWinch(Contract):
    """WINCH: a daemonised master retires all its workers (target 0, TERM to each) but keeps the listeners; otherwise nothing"""

    def cases(self, env):
        st = State()
        a = mk_arbiter(env, st)
        socks = mk_listeners(env, st, a)
        st.ghost["close_calls"] = []
        return [("winch", st, {"self": a}, {"socks": socks})]

    def raises(self, c):
        return [(OSError, None)]

    def post(self, c):
        st1, st0 = c.st, c.old
        o1, o0 = A(c, st1), A(c, st0)
        W = o0.fields["WORKERS"]
        m0 = w_map(st0, W)
        k1, k0 = sig_arr(st1, TERM), sig_arr(st0, TERM)
        K = st0.ghost["K_state"]
        p = qvar("p")
        daemon = z3.Bool("cfg.daemon")
        closed = [e for e in _listener_events(c, c.g["socks"]) if e[0] == "close"]
        return [("listeners-stay-open", TRUE if (not closed and not st1.ghost.get("close_calls")) else FALSE),
                ("daemon:target-becomes-0", Implies(daemon, o1.fields["_num_workers"].t == 0)),
                ("daemon:every-live-tracked-worker-gets-TERM", Implies(daemon, z3.ForAll([p], Implies(And(sel(m0, p) != 0, sel(K, p) != 0), sel(k1, p) == sel(k0, p) + 1)))),
                ("not-daemon:nothing-happens", Implies(Not(daemon), And(o1.fields["_num_workers"].t == o0.fields["_num_workers"].t,
                                                                         z3.ForAll([p], sel(k1, p) == sel(k0, p))))),
                ("only-TERM-is-sent", all_sig_same(st1, st0, TERM))]


# ======================================================================================================
# Arbiter.run: orchestration of the main loop (callees are the contracts above; here they are abstract steps that record an
# event and may fail in every way their contracts allow)
# ======================================================================================================
class UnexpectedError(Exception):
    """synthetic: any exception that is not StopIteration / KeyboardInterrupt / HaltServer / SystemExit"""


STEP_ID = {n: k + 1 for k, n in enumerate(["start", "manage_workers", "maybe_promote_master", "sleep", "murder_workers", "wakeup", "stop",
                                            "handle_hup", "handle_quit", "handle_int", "handle_ttin", "handle_ttou", "handle_usr1", "handle_usr2",
                                            "handle_winch", "handle_term"])}
HANDLERS = [n for n in STEP_ID if n.startswith("handle_")]
ALLOWED_PREV = {"start": [0], "manage_workers": ["start", "murder_workers"], "maybe_promote_master": ["manage_workers", "wakeup", "maybe_promote_master"],
                "sleep": ["maybe_promote_master"], "murder_workers": ["sleep"], "wakeup": HANDLERS, "stop": None}
for _h in HANDLERS:
    ALLOWED_PREV[_h] = ["maybe_promote_master"]


def _run_ev(st, name):
    """the steps of run() form a small state machine; `order_ok` records that every step so far followed an allowed one"""
    g = st.ghost
    allowed = ALLOWED_PREV.get(name)
    if allowed is not None:
        g["order_ok"] = And(g["order_ok"], Or(*[g["last"] == (STEP_ID[x] if x != 0 else 0) for x in allowed]))
    g["last"] = iv(STEP_ID[name])
    if name == "stop":
        g["stop_calls"] = g["stop_calls"] + 1


def _step(name, may_stop=False):
    def f(ex, st, self_v, args, kwargs, node):
        live = ex.env.repo.live("gunicorn.errors")
        outs = []
        ok = st.fork()
        _run_ev(ok, name)
        outs.append(ex.res(ok, NONE))
        h = st.fork()
        code = z3.Int("halt.status.%s" % name)
        h.ghost["cause_kind"], h.ghost["cause_val"], h.ghost["cause_step"] = iv(1), code, iv(STEP_ID[name])
        outs.append(ex.res_exc(h, SExc(live.HaltServer, (Opaque("reason"), SInt(code)), {"reason": Opaque("reason"), "exit_status": SInt(code)})))
        u = st.fork()
        u.ghost["cause_kind"], u.ghost["cause_step"] = iv(2), iv(STEP_ID[name])
        outs.append(ex.res_exc(u, SExc(UnexpectedError)))
        x = st.fork()
        xc = z3.Int("exit.code.%s" % name)
        x.ghost["cause_kind"], x.ghost["cause_val"] = iv(3), xc
        outs.append(ex.res_exc(x, SExc(SystemExit, (SInt(xc),), {"code": SInt(xc)})))
        if may_stop:
            s2 = st.fork()
            s2.ghost["cause_kind"] = iv(4)
            outs.append(ex.res_exc(s2, SExc(StopIteration)))
        return outs
    return f


def _halt_step(ex, st, self_v, args, kwargs, node):
    status = kwargs.get("exit_status", args[1] if len(args) > 1 else SInt(0))
    st.ghost["halt_calls"] = st.ghost["halt_calls"] + 1
    st.ghost["halt_status"] = status.t
    return [ex.res_exc(st, SExc(SystemExit, (status,), {"code": status}))]


def _exit_step(ex, st, self_v, args, kwargs, node):
    code = args[0] if args else SInt(0)
    st.ghost["exit_calls"] = st.ghost["exit_calls"] + 1
    return [ex.res_exc(st, SExc(SystemExit, (code,), {"code": code}))]


RUN_STEPS = ["start", "manage_workers", "maybe_promote_master", "sleep", "murder_workers", "wakeup", "stop",
             "handle_hup", "handle_quit", "handle_int", "handle_ttin", "handle_ttou", "handle_usr1", "handle_usr2", "handle_winch"]


@contract("gunicorn.arbiter:Arbiter.run", props=("C03", "C04", "C11"))
class ArbRun(Contract):
    """the master loop: with no signal queued each round sleeps, then scans for hung workers, then restores the worker count
    (in that order); a queued signal is dispatched to exactly its handler; the loop is left only through halt():
    HaltServer(status) from ANY step - e.g. a worker that failed to boot, reported by reap_workers - ends the process with
    exactly that status, TERM (StopIteration) with status 0, any unexpected exception with stop(False), pid file removal and
    status -1; SystemExit from a step (a forked child leaving through sys.exit) passes through untouched"""

    def cases(self, env):
        import signal as _sg
        from pyvc.shapes import ListShape
        st = State()
        # a bare arbiter: run() touches nothing but its own steps, the signal queue, the log and the pid file
        env.use_class("gunicorn.arbiter", "Arbiter")
        a = st.alloc(HObj("Arbiter", {"log": mk_logger(env, st), "cfg": mk_cfg(env, st), "proc_name": strops.fresh_str(st, "proc_name", True)}))
        env.class_models["PidfileModel"] = _PidfileModel()
        o = st.obj(a)
        o.fields["pidfile"] = st.alloc(HObj("PidfileModel", {"g_unlinks": SInt(0)}))
        for n in RUN_STEPS:
            o.fields[n] = StubV("run." + n, a)
            STUBS["run." + n] = _step(n, may_stop=False)
        o.fields["handle_term"] = StubV("run.handle_term", a)
        STUBS["run.handle_term"] = _step("handle_term", may_stop=True)
        o.fields["halt"] = StubV("run.halt", a)
        STUBS["run.halt"] = _halt_step
        STUBS["sys.exit"] = _exit_step
        STUBS["gunicorn.util._setproctitle"] = _setproctitle
        seq = ListShape(IntShape()).fresh_seq(st, "SIG_QUEUE", view=True)
        o.fields["SIG_QUEUE"] = st.alloc(HList(sym=seq))
        st.ghost.update({"order_ok": TRUE, "last": iv(0), "halt_calls": iv(0), "halt_status": iv(-99), "stop_calls": iv(0), "exit_calls": iv(0)})
        st.ghost["cause_kind"], st.ghost["cause_val"], st.ghost["cause_step"] = iv(0), iv(0), iv(0)
        return [("loop", st, {"self": a}, {})]

    def raises(self, c):
        live = c.ex.env.repo.live("gunicorn.errors")
        return [(SystemExit, None), (live.HaltServer, None), (UnexpectedError, None)]

    def exc_post(self, c):
        g = c.st.ghost
        if c.exc.cls is not SystemExit:
            # the only exceptions that may escape run(): raised by start() (before the loop is guarded) or by stop() inside
            # the handler for an unexpected exception
            return [("only-start()-or-the-emergency-stop()-may-let-an-exception-escape", Or(g["cause_step"] == STEP_ID["start"], g["cause_step"] == STEP_ID["stop"]))]
        code = c.exc.fields.get("code")
        if not isinstance(code, SInt):
            return [("exit-code-is-an-integer", FALSE)]
        kind, val = g["cause_kind"], g["cause_val"]
        pf = c.st.obj(A(c).fields["pidfile"]).fields["g_unlinks"].t
        return [("the-loop-is-left-only-because-a-step-raised", kind != 0),
                ("steps-follow-the-round-structure(promote;sleep,murder,manage|handler,wakeup)", g["order_ok"]),
                ("HaltServer=>halt-once-with-exactly-its-exit-status=process-exit-status", Implies(kind == 1, And(g["halt_calls"] == 1, g["halt_status"] == val, code.t == val))),
                ("TERM=>halt-once-with-status-0", Implies(kind == 4, And(g["halt_calls"] == 1, g["halt_status"] == 0, code.t == 0))),
                ("unexpected-exception=>stop(False)-once,no-halt,exit(-1),own-pid-file-removed-once",
                 Implies(kind == 2, And(g["stop_calls"] == 1, g["halt_calls"] == 0, g["exit_calls"] == 1, code.t == -1, pf == 1))),
                ("SystemExit-from-a-step-passes-through-untouched", Implies(kind == 3, And(code.t == val, g["halt_calls"] == 0, g["stop_calls"] == 0)))]

    def post(self, c):
        return [("run-never-returns", FALSE)]

    loops = {0: dict(anchor="while True", cands=[
        ("order_ok", lambda L: L.st.ghost["order_ok"]),
        ("loop-head-follows-manage/wakeup/promote", lambda L: Or(*[L.st.ghost["last"] == STEP_ID[n] for n in ("manage_workers", "wakeup", "maybe_promote_master")])),
        ("nothing-stopped-yet", lambda L: And(L.st.ghost["halt_calls"] == 0, L.st.ghost["stop_calls"] == 0, L.st.ghost["exit_calls"] == 0, L.st.ghost["cause_kind"] == 0,
                                              L.st.obj(L.st.obj(L.self).fields["pidfile"]).fields["g_unlinks"].t == 0)),
    ])}


# ======================================================================================================
# Arbiter.sleep: wait for a wake-up byte or one second
# ======================================================================================================
def _sleep_select(ex, st, self_v, args, kwargs, node):
    st.ghost["sleep_timeout"] = args[3]
    rl = ex.concrete_items(st, args[0])
    empty, bad, kbd = st.fork(), st.fork(), st.fork()
    e = z3.Int("select.errno")
    return [ex.res(st, STuple([st.alloc(HList(list(rl))), st.alloc(HList([])), st.alloc(HList([]))])),
            ex.res(empty, STuple([empty.alloc(HList([])), empty.alloc(HList([])), empty.alloc(HList([]))])),
            ex.res_exc(bad, SExc(OSError, (SInt(e),), {"errno": SInt(e), "args": STuple([SInt(e)])})),
            ex.res_exc(kbd, SExc(KeyboardInterrupt))]


def _sleep_read(ex, st, self_v, args, kwargs, node):
    more, bad = st.fork(), st.fork()
    e = z3.Int("read.errno")
    st.ghost["pipe_reads"] = st.ghost["pipe_reads"] + 1
    more.ghost["pipe_reads"] = more.ghost["pipe_reads"] + 1
    return [ex.res(st, SStr.lit(b"")), ex.res(more, SStr.lit(b".")),
            ex.res_exc(bad, SExc(OSError, (SInt(e),), {"errno": SInt(e), "args": STuple([SInt(e)])}))]


@contract("gunicorn.arbiter:Arbiter.sleep", props=("C03",))
class ArbSleep(Contract):
    """waits at most one second for the wake-up pipe, drains it, and lets only real errors through: EAGAIN / EINTR from
    select or read are swallowed, any other OSError propagates, Ctrl-C ends the process"""

    def cases(self, env):
        st = State()
        env.use_class("gunicorn.arbiter", "Arbiter")
        a = st.alloc(HObj("Arbiter", {"PIPE": STuple([SInt(7), SInt(8)]), "log": mk_logger(env, st)}))
        STUBS.update({"select.select": _sleep_select, "os.read": _sleep_read, "posix.read": _sleep_read})
        st.ghost["pipe_reads"] = iv(0)
        return [("sleep", st, {"self": a}, {})]

    def raises(self, c):
        return [(OSError, None), (SystemExit, None)]

    def exc_post(self, c):
        if c.exc.cls is OSError:
            e = c.exc.fields.get("errno")
            return [("only-real-errors-propagate(not-EAGAIN/EINTR)", And(e.t != _errno.EAGAIN, e.t != _errno.EINTR) if isinstance(e, SInt) else FALSE)]
        return []

    def post(self, c):
        to = c.st.ghost.get("sleep_timeout")
        return [("waits-at-most-one-second", (to.t == 1.0) if isinstance(to, SReal) else ((to.t == 1) if isinstance(to, SInt) else FALSE))]

    loops = {0: dict(anchor="while os.read(self.PIPE[0], 1)", cands=[])}
