"""Contracts for gunicorn/http/wsgi.py (Response) and the write helpers of gunicorn/util.py  -- C02, C09, C19."""
import ast as _ast

import z3

from pyvc.contracts import contract, Contract, inline
from pyvc.smt import And, Or, Not, Implies, If, Min, Max, iv, fresh_int, fresh_bool, I, TRUE, FALSE
from pyvc.values import (SInt, SBool, SNone, NONE, SStr, STuple, Ref, HObj, HBio, HList, mk_win, qvar, SExc, Opaque, SOpt,
                         Lit, Win, Num, JoinAtom, in_class, all_chars, str_eq, concat)
from pyvc.shapes import (WinShape, IntShape, BoolShape, TupleShape, ListShape, OptionShape, AnyStrShape, ConstShape)
from pyvc import strops
from pyvc.state import State
from .cfgmodel import mk_cfg
from .sockmodel import mk_sock, mk_file, rope_struct_eq, suffix_after, SOCK
from .http_message import RFC_TOKEN, is_tchar

inline("gunicorn.util:write", "gunicorn.util:to_bytestring", "gunicorn.util:is_hoppish", "gunicorn.http.wsgi:Response.force_close",
       "gunicorn.http.wsgi:Response.can_sendfile", "gunicorn.util:has_fileno")

AH = z3.Array("AH", I, I)         # ghost text heap of the strings the application passes as header names / values
APP_HDR = TupleShape([WinShape(AH, True), WinShape(AH, True)])
CRLF = b"\r\n"

FIELD_VCHAR = [(9, 9), (32, 126), (128, 255)]      # RFC 9110 5.5 field-value characters: HTAB SP VCHAR obs-text


def base_state(env):
    st = State()
    p = z3.Int("p?AH")
    st.assume(z3.ForAll([p], And(z3.Select(AH, p) >= 0, z3.Select(AH, p) <= 255)))
    return st


def clean(s):
    """no CR, LF or NUL anywhere in the string"""
    return all_chars(s, lambda c: And(c != 0, c != 10, c != 13))


def mk_reqview(env, st):
    v0, v1 = z3.Int("req.ver.major"), z3.Int("req.ver.minor")
    st.assume(v0 == 1, 0 <= v1, v1 <= 1)
    return st.alloc(HObj("ReqView", {"version": STuple([SInt(v0), SInt(v1)]), "method": strops.fresh_str(st, "req.method", True, canonical=True),
                                     "g_close": SBool(z3.Bool("req.should_close"))}))


@contract("abstract:ReqView.should_close", props=("C02",))
class ReqViewShouldClose(Contract):
    """request-side persistence decision (Message.should_close, verified separately): a fixed boolean of the request"""
    trusted = True
    params = ["self"]

    def result_shape(self, c):
        return c.st.obj(c.a["self"]).fields["g_close"]


def mk_response(env, st, headers_sent=None, started=True):
    env.use_class("gunicorn.http.wsgi", "Response")
    req = mk_reqview(env, st)
    sock = mk_sock(env, st)
    cfg = mk_cfg(env, st)
    hs = SBool(z3.Bool("resp.headers_sent")) if headers_sent is None else SBool(headers_sent)
    hdrs = st.alloc(HList(sym=ListShape(APP_HDR).fresh_seq(st, "resp.headers", view=False)))
    rl = SOpt(z3.Bool("resp.has_length"), SInt(z3.Int("resp.response_length")))
    sent = z3.Int("resp.sent")
    sc = SOpt(z3.Bool("resp.has_code"), SInt(z3.Int("resp.status_code")))
    st.assume(sent >= 0, Implies(z3.Bool("resp.has_length"), z3.Int("resp.response_length") >= 0))
    f = {"req": req, "sock": sock, "cfg": cfg, "version": SStr.lit(env.repo.live("gunicorn").SERVER),
         "status": strops.fresh_str(st, "resp.status", True, canonical=True) if started else NONE,
         "status_code": sc if started else NONE, "chunked": SBool(z3.Bool("resp.chunked")), "must_close": SBool(z3.Bool("resp.must_close")),
         "headers": hdrs, "headers_sent": hs, "response_length": rl, "sent": SInt(sent), "upgrade": SBool(z3.Bool("resp.upgrade")),
         "g_hend": SInt(z3.Int("resp.g_hend"))}
    return st.alloc(HObj("Response", f))


def F(c, st, name):
    return st.obj(c.a["self"]).fields[name]


def T_(c, st, name):
    return c.ex.truth(F(c, st, name), st)


def opt_int(v):
    """(is-set, term) of an optional int field"""
    if isinstance(v, SOpt):
        return v.some, v.inner.t
    if isinstance(v, SNone):
        return FALSE, iv(0)
    return TRUE, v.t


def wire(c, st):
    return st.obj(F(c, st, "sock")).fields["g_wire"]


def wl(c, st):
    return st.obj(F(c, st, "sock")).fields["g_wl"].t


def RI_resp(c, st):
    """representation invariant of a Response (whole view of the accounting fields)"""
    has_len, L = opt_int(F(c, st, "response_length"))
    sent = F(c, st, "sent").t
    hs = T_(c, st, "headers_sent")
    ch = T_(c, st, "chunked")
    return [("RIr.sent>=0", sent >= 0),
            ("RIr.nothing-counted-before-the-head", Implies(Not(hs), sent == 0)),
            ("RIr.never-more-than-Content-Length", Implies(has_len, And(L >= 0, sent <= Max(L, iv(0))))),
            ("RIr.chunked-xor-length", Not(And(ch, has_len)))]


def tail_struct_eq(w1, w0, enc):
    """wire w1 == w0 ++ enc (structurally), when w0 is a syntactic prefix of w1; else FALSE"""
    suf = suffix_after(w1, w0)
    if suf is None:
        return FALSE
    return rope_struct_eq(suf, enc)


def chunk_enc(data, n=None):
    n = data.length() if n is None else n
    cn = None
    try:
        from pyvc.smt import const_int
        cn = const_int(n)
    except Exception:
        pass
    size = [Lit(("%X" % cn).encode())] if cn is not None else [Num("HEX", n)]
    return SStr(size + [Lit(CRLF)] + list(data.atoms) + [Lit(CRLF)], False)


# ======================================================================================================
# util.write_chunk
# ======================================================================================================
@contract("gunicorn.util:write_chunk", props=("C02",))
class WriteChunk(Contract):
    def cases(self, env):
        st = base_state(env)
        sock = mk_sock(env, st)
        D = z3.Array("D", I, I)
        n = z3.Int("data.len")
        st.assume(n >= 0)
        return [("bytes", st, {"sock": sock, "data": mk_win(D, 0, n)}, {})]

    def modifies(self, c):
        return [("field", c.a["sock"], "g_wire", AnyStrShape(False)), ("field", c.a["sock"], "g_wl")]

    def raises(self, c):
        return [(OSError, None, lambda c2: {"errno": SInt(fresh_int("errno"))})]

    def exc_post(self, c):
        return [("broken-after-error", c.ex.truth(c.st.obj(c.a["sock"]).fields["g_broken"], c.st))]

    def effects(self, c):
        so = c.st.obj(c.a["sock"])
        enc = chunk_enc(c.a["data"])
        c.st.assume(*enc.axioms())
        so.fields["g_wire"] = concat(c.old.obj(c.a["sock"]).fields["g_wire"], enc)

    def post(self, c):
        s1, s0 = c.st.obj(c.a["sock"]), c.old.obj(c.a["sock"])
        d = c.a["data"]
        enc = chunk_enc(d)
        return [("wire'==wire++HEX(len)CRLF data CRLF", tail_struct_eq(s1.fields["g_wire"], s0.fields["g_wire"], enc)),
                ("length-accounting", s1.fields["g_wl"].t == s0.fields["g_wl"].t + enc.length()),
                ("a-chunk-is-never-empty-on-the-wire", enc.length() >= 5)]


# ======================================================================================================
# Response.is_chunked / should_close
# ======================================================================================================
def ver_le_10(c, st):
    ver = st.obj(F(c, st, "req")).fields["version"]
    return c.ex.compare(_ast.LtE(), ver, STuple([SInt(1), SInt(0)]), st)


def is_head(c, st):
    return str_eq(st.obj(F(c, st, "req")).fields["method"], SStr.lit("HEAD"))


def spec_is_chunked(c, st):
    has_len, _ = opt_int(F(c, st, "response_length"))
    has_code, code = opt_int(F(c, st, "status_code"))
    return And(Not(has_len), Not(ver_le_10(c, st)), Not(is_head(c, st)), Not(And(has_code, Or(code == 204, code == 304))))


class _RespCases:
    def cases(self, env):
        st = base_state(env)
        r = mk_response(env, st)
        return [("any", st, {"self": r}, {})]


@contract("gunicorn.http.wsgi:Response.is_chunked", props=("C02",))
class IsChunked(_RespCases, Contract):
    def result_shape(self, c):
        return BoolShape()

    def post(self, c):
        return [("chunked-iff-no-length-and-HTTP/1.1-and-body-allowed", c.ex.truth(c.result, c.st) == spec_is_chunked(c, c.old))]


@contract("gunicorn.http.wsgi:Response.should_close", props=("C02",))
class RespShouldClose(_RespCases, Contract):
    def pre(self, c):
        has_code, _ = opt_int(F(c, c.st, "status_code"))
        has_len, _ = opt_int(F(c, c.st, "response_length"))
        return [("status-code-known-when-it-matters", Or(has_code, has_len, T_(c, c.st, "chunked"), T_(c, c.st, "must_close"), is_head(c, c.st),
                                                         c.ex.truth(c.st.obj(F(c, c.st, "req")).fields["g_close"], c.st)))]

    def result_shape(self, c):
        return BoolShape()

    def post(self, c):
        st = c.old
        has_len, _ = opt_int(F(c, st, "response_length"))
        has_code, code = opt_int(F(c, st, "status_code"))
        req_close = c.ex.truth(st.obj(F(c, st, "req")).fields["g_close"], st)
        delimited = Or(has_len, T_(c, st, "chunked"), is_head(c, st), And(has_code, Or(code < 200, code == 204, code == 304)))
        res = c.ex.truth(c.result, c.st)
        return [("keep-alive-only-if-self-delimited-and-nobody-asked-to-close",
                 res == Or(T_(c, st, "must_close"), req_close, Not(delimited)))]


# ======================================================================================================
# process_headers / start_response
# ======================================================================================================
@contract("gunicorn.util:http_date", props=("C09",))
class HttpDate(Contract):
    """TRUSTED: email.utils.formatdate returns a printable ASCII date (no CR/LF/NUL)"""
    trusted = True

    def result_shape(self, c):
        s = strops.fresh_str(c.st, "http_date", True, canonical=True)
        c.st.assume(clean(s))
        return s


def mk_app_headers(st, name="app.headers"):
    return st.alloc(HList(sym=ListShape(APP_HDR).fresh_seq(st, name, view=False)))


def hdr_ok(seq, k):
    """the k-th accepted header: name is a token, value has field-value characters only and no outer SP/HTAB"""
    e = seq.elem(k)
    n, v = e.items[0], e.items[1]
    nw, vw = n.single_win(), v.single_win()
    q = qvar("q")
    return And(nw.lo < nw.hi,
               z3.ForAll([q], Implies(And(nw.lo <= q, q < nw.hi), is_tchar(z3.Select(AH, q)))),
               z3.ForAll([q], Implies(And(vw.lo <= q, q < vw.hi), in_class(z3.Select(AH, q), FIELD_VCHAR))))


def all_hdrs_ok(seq):
    k = qvar("k")
    return z3.ForAll([k], Implies(And(seq.lo <= k, k < seq.hi), hdr_ok(seq, k)))


HOP = ["connection", "keep-alive", "proxy-authenticate", "proxy-authorization", "te", "trailers", "transfer-encoding",
       "upgrade", "server", "date"]          # RFC 9110 7.6.1 hop-by-hop + the two the server generates itself


def lower_eq(s, lit):
    """s.lower() == lit for ASCII literal (character-wise, latin-1 lower)"""
    w = s.single_win()
    lw = Win(w.base, w.lo, w.hi, w.xf + ("lower",), True)
    return str_eq(SStr([lw], True), SStr.lit(lit))


def not_hop(seq, k, allow_upgrade=True):
    n = seq.elem(k).items[0]
    names = [h for h in HOP if not (allow_upgrade and h == "upgrade")]
    return And(*[Not(lower_eq(n, h)) for h in names])


@contract("gunicorn.http.wsgi:Response.process_headers", props=("C09", "C02"))
class ProcessHeaders(Contract):
    def cases(self, env):
        st = base_state(env)
        r = mk_response(env, st, headers_sent=False)
        return [("app-headers", st, {"self": r, "headers": mk_app_headers(st)}, {})]

    def pre(self, c):
        seq = c.st.obj(F(c, c.st, "headers")).sym
        return [("already-accepted-headers-are-valid", And(all_hdrs_ok(seq), seq.lo == 0))]

    def modifies(self, c):
        s = c.a["self"]
        return [("field", s, "headers", ListShape(APP_HDR)), ("field", s, "response_length", OptionShape(IntShape())),
                ("field", s, "upgrade", BoolShape())]

    def raises(self, c):
        E = c.ex.env.repo.live("gunicorn.http.errors")
        return [(E.InvalidHeaderName, None), (E.InvalidHeader, None), (TypeError, None), (ValueError, None)]

    def post(self, c):
        seq1 = c.st.obj(F(c, c.st, "headers")).sym
        seq0 = c.old.obj(F(c, c.old, "headers")).sym
        if seq1 is None:
            return [("headers-list", FALSE)]
        k = qvar("k")
        new = lambda j: And(seq0.hi <= j, j < seq1.hi)
        return [("every-accepted-header-has-a-token-name-and-a-clean-value", And(all_hdrs_ok(seq1), seq1.lo == 0)),
                ("previously-accepted-headers-kept", And(seq1.hi >= seq0.hi, *[
                    z3.ForAll([k], Implies(And(0 <= k, k < seq0.hi), z3.Select(a1, k) == z3.Select(a0, k)))
                    for a0, a1 in zip(seq0.arrays, seq1.arrays)])),
                ("hop-by-hop-headers-not-forwarded", z3.ForAll([k], Implies(new(k), not_hop(seq1, k)))),
                ("hop-by-hop:Upgrade-not-forwarded", z3.ForAll([k], Implies(new(k), Not(lower_eq(seq1.elem(k).items[0], "upgrade"))))),
                ]

    loops = {0: dict(anchor="for (name, value) in headers", cands=[
        ("accepted-ok", lambda L: _acc(L, lambda s1, s0: And(all_hdrs_ok(s1), s1.lo == 0))),
        ("old-kept", lambda L: _acc(L, lambda s1, s0: _kept(s1, s0))),
        ("no-hop", lambda L: _acc(L, lambda s1, s0: _nohop(s1, s0))),
    ])}


def _acc(L, f):
    s1 = L.st.obj(L.st.obj(L.self).fields["headers"]).sym
    s0 = L.fentry.obj(L.fentry.obj(L.self).fields["headers"]).sym
    if s1 is None:
        raise KeyError("headers concrete")
    return f(s1, s0)


def _kept(s1, s0):
    k = qvar("k")
    return And(s1.hi >= s0.hi, *[z3.ForAll([k], Implies(And(0 <= k, k < s0.hi), z3.Select(a1, k) == z3.Select(a0, k)))
                                 for a0, a1 in zip(s0.arrays, s1.arrays)])


def _nohop(s1, s0):
    k = qvar("k")
    return z3.ForAll([k], Implies(And(s0.hi <= k, k < s1.hi), not_hop(s1, k)))


# ======================================================================================================
# start_response
# ======================================================================================================
inline("gunicorn.util:reraise", "gunicorn.http.wsgi:Response.default_headers")


@contract("gunicorn.http.wsgi:Response.start_response", props=("C09", "C02"))
class StartResponse(Contract):
    def cases(self, env):
        out = []
        for started in (False, True):
            for exc in (False, True):
                st = base_state(env)
                r = mk_response(env, st, started=started)
                status = strops.fresh_str(st, "app.status", True, canonical=True)
                ei = STuple([Opaque("exc-type"), SExc(env.repo.live("gunicorn.http.errors").ConfigurationProblem) if False else NONE, Opaque("tb")]) if exc else NONE
                if exc:
                    ei = STuple([Opaque("exctype"), SExc(KeyError), Opaque("tb")])
                if not started:
                    st.assume(Not(z3.Bool("resp.headers_sent")))
                out.append(("started=%s,exc_info=%s" % (started, exc), st,
                            {"self": r, "status": status, "headers": mk_app_headers(st), "exc_info": ei}, {}))
        return out

    def pre(self, c):
        seq = c.st.obj(F(c, c.st, "headers")).sym
        return [("already-accepted-headers-are-valid", And(all_hdrs_ok(seq), seq.lo == 0))] if seq is not None else []

    def raises(self, c):
        E = c.ex.env.repo.live("gunicorn.http.errors")
        started = Not(TRUE if isinstance(F(c, c.st, "status"), SNone) else FALSE)
        has_exc = TRUE if not isinstance(c.a["exc_info"], SNone) else FALSE
        return [(AssertionError, And(started, Not(has_exc))),
                (KeyError, And(has_exc, started, T_(c, c.st, "headers_sent"))),       # the application's own exception is re-raised
                (IndexError, None),        # status without any non-blank text: the application violated PEP 3333
                (E.InvalidHeaderName, None), (E.InvalidHeader, None), (TypeError, None), (ValueError, None)]

    def post(self, c):
        st1 = c.st
        seq1 = st1.obj(F(c, st1, "headers")).sym
        status = F(c, st1, "status")
        out = [("status-recorded", str_eq(status, c.a["status"]) if isinstance(status, SStr) else FALSE),
               ("chunked-decided-by-is_chunked", T_(c, st1, "chunked") == spec_is_chunked(c, st1)),
               ("not-restarted-after-the-head-was-sent", Or(Not(T_(c, c.old, "headers_sent")), TRUE if isinstance(F(c, c.old, "status"), SNone) else F(c, c.old, "status").length() == 0)),
               # RFC 9112 4: the status line is one line -- refused before any byte is sent otherwise
               ("status-has-no-CR-LF-NUL", clean(c.a["status"]))]
        if seq1 is not None:
            out.append(("every-accepted-header-has-a-token-name-and-a-clean-value", And(all_hdrs_ok(seq1), seq1.lo == 0)))
        out.append(("nothing-sent-by-start_response", wl(c, st1) == wl(c, c.old)))
        return out


# ======================================================================================================
# default_headers / send_headers
# ======================================================================================================
def head_rope(c, st):
    """the response head the server must emit for the current state (specification, RFC 9112 4 / 6)"""
    req = st.obj(F(c, st, "req"))
    v0, v1 = req.fields["version"].items
    status = F(c, st, "status")
    conn = If(T_(c, st, "upgrade"), iv(0), iv(1))
    return None


@contract("gunicorn.http.wsgi:Response.send_headers", props=("C09", "C02"))
class SendHeaders(Contract):
    def cases(self, env):
        out = []
        for hs in (False, True):
            st = base_state(env)
            r = mk_response(env, st, headers_sent=hs)
            seq = st.obj(st.obj(r).fields["headers"]).sym
            st.assume(all_hdrs_ok(seq))
            out.append(("headers_sent=%s" % hs, st, {"self": r}, {}))
        return out

    def pre(self, c):
        seq = c.st.obj(F(c, c.st, "headers")).sym
        status = F(c, c.st, "status")
        hs = T_(c, c.st, "headers_sent")
        return [("response-started", Or(hs, TRUE if isinstance(status, SStr) else FALSE)),
                ("status-line-text-was-validated-by-start_response", Or(hs, clean(status) if isinstance(status, SStr) else FALSE)),
                ("accepted-headers-are-valid", Or(hs, And(all_hdrs_ok(seq), seq.lo == 0)) if seq is not None else FALSE)] + \
            [(n, Or(hs, f)) for n, f in RespShouldClose.pre(RespShouldClose(), c)]

    def modifies(self, c):
        s = c.a["self"]
        sock = F(c, c.st, "sock")
        return [("field", sock, "g_wire", AnyStrShape(False)), ("field", sock, "g_wl"), ("field", s, "headers_sent", BoolShape()),
                ("field", s, "g_hend")]

    def raises(self, c):
        return [(OSError, None, lambda c2: {"errno": SInt(fresh_int("errno"))}), (UnicodeEncodeError, None)]

    def exc_post(self, c):
        if c.exc is not None and c.exc.cls is UnicodeEncodeError:
            return [("refused-before-any-byte-is-sent", wl(c, c.st) == wl(c, c.old))]
        return []

    def effects_closed(self, c):
        pass

    def effects(self, c):
        # call mode: when the head is known to have been sent already, the call changes nothing (not even the ghost wire)
        if const_true(T_(c, c.old, "headers_sent")):
            so1, so0 = c.st.obj(F(c, c.st, "sock")), c.old.obj(F(c, c.old, "sock"))
            so1.fields["g_wire"] = so0.fields["g_wire"]

    def post(self, c):
        st1, st0 = c.st, c.old
        hs0 = T_(c, st0, "headers_sent")
        w1, w0 = wire(c, st1), wire(c, st0)
        out = [("headers_sent-afterwards", T_(c, st1, "headers_sent")),
               ("wire-only-grows", wl(c, st1) >= wl(c, st0)),
               ("idempotent:nothing-sent-if-already-sent", Implies(hs0, wl(c, st1) == wl(c, st0)))]
        if c.mode == "call":
            out.append(("ghost:head-end-recorded", Implies(Not(hs0), F(c, st1, "g_hend").t == wl(c, st1))))
            out.append(("ghost:head-end-kept", Implies(hs0, F(c, st1, "g_hend").t == F(c, st0, "g_hend").t)))
            return out
        if const_true(hs0):
            return out
        suf = suffix_after(w1, w0)
        if suf is None:
            return out + [("wire-extended", FALSE)]
        out += head_clauses(c, st0, suf)
        return out


def const_true(t):
    from pyvc.smt import const_bool
    return const_bool(t) is True


def head_clauses(c, st0, head):
    """structural reading of the emitted head (rope atoms, in order):
       status line | Server | Date | Connection | [Transfer-Encoding: chunked] | one line per accepted header | CRLF"""
    atoms = list(head.atoms)
    out = []
    req = st0.obj(F(c, st0, "req"))
    v0, v1 = req.fields["version"].items
    status = F(c, st0, "status")
    seq = st0.obj(F(c, st0, "headers")).sym
    # 1. locate the JoinAtom: everything after it must be exactly the final CRLF
    jpos = [k for k, a in enumerate(atoms) if isinstance(a, JoinAtom)]
    if len(jpos) != 1:
        return [("exactly-one-line-per-accepted-header-in-order", FALSE)]
    j = jpos[0]
    ja = atoms[j]
    same = ja.seq.lo.eq(seq.lo) and ja.seq.hi.eq(seq.hi)
    templ = getattr(ja.seq.eshape, "template", None)
    line_shape_ok = (templ is not None and [t[0] for t in templ] == ["win", "lit", "win", "lit"] and templ[1][1] == b": "
                     and templ[3][1] == b"\r\n")
    out.append(("exactly-one-line-per-accepted-header-in-order", TRUE if (same and line_shape_ok) else FALSE))
    if same and line_shape_ok:
        k = qvar("k")
        e = lambda i: ja.seq.elem(i)
        out.append(("header-lines-are-name:SP-value-CRLF-of-the-accepted-headers",
                    z3.ForAll([k], Implies(And(seq.lo <= k, k < seq.hi),
                                           And(e(k).atoms[0].lo == seq.elem(k).items[0].single_win().lo,
                                               e(k).atoms[0].hi == seq.elem(k).items[0].single_win().hi,
                                               e(k).atoms[2].lo == seq.elem(k).items[1].single_win().lo,
                                               e(k).atoms[2].hi == seq.elem(k).items[1].single_win().hi)))))
    tail = atoms[j + 1:]
    out.append(("head-ends-with-one-empty-line", TRUE if (len(tail) == 1 and isinstance(tail[0], Lit) and tail[0].b == CRLF) else FALSE))
    # 2. the server's own lines: literal text with CRLF only as line terminators; symbolic pieces must be clean
    pre = atoms[:j]
    lit_text = b"".join(a.b if isinstance(a, Lit) else b"\x01" for a in pre)
    lines = lit_text.split(b"\r\n")
    ok_lits = lit_text.endswith(b"\r\n") and all(b"\r" not in ln and b"\n" not in ln and b"\0" not in ln for ln in lines)
    out.append(("server-lines-are-CRLF-terminated-lines", TRUE if ok_lits else FALSE))
    names = [ln.split(b":")[0] for ln in lines[1:-1]]
    want = [b"Server", b"Date", b"Connection"]
    out.append(("server-lines-are-Server-Date-Connection[-Transfer-Encoding]",
                TRUE if (names[:3] == want and names[3:] in ([], [b"Transfer-Encoding"]) and lines[0].startswith(b"HTTP/")) else FALSE))
    has_te = names[3:] == [b"Transfer-Encoding"]
    out.append(("Transfer-Encoding:chunked-line-iff-chunked", T_(c, st0, "chunked") == (TRUE if has_te else FALSE)))
    conn_line = [ln for ln in lines if ln.startswith(b"Connection: ")]
    if conn_line:
        val = conn_line[0][len(b"Connection: "):]
        close_spec = c.ex.truth(RespShouldClose.spec(c, st0), st0) if hasattr(RespShouldClose, "spec") else None
        has_len, _ = opt_int(F(c, st0, "response_length"))
        has_code, code = opt_int(F(c, st0, "status_code"))
        req_close = c.ex.truth(req.fields["g_close"], st0)
        delimited = Or(has_len, T_(c, st0, "chunked"), is_head(c, st0), And(has_code, Or(code < 200, code == 204, code == 304)))
        should = Or(T_(c, st0, "must_close"), req_close, Not(delimited))
        up = T_(c, st0, "upgrade")
        spec = {b"upgrade": up, b"close": And(Not(up), should), b"keep-alive": And(Not(up), Not(should))}.get(val, FALSE)
        out.append(("Connection-header-announces-the-persistence-decision", spec))
    # symbolic pieces before the header lines: HTTP version digits, the status text, Server software, Date
    for a in pre:
        if isinstance(a, Win):
            out.append(("no-CR-LF-NUL-in-%s" % str(a.base), clean(SStr([a], a.is_str))))
    return out


# ======================================================================================================
# write
# ======================================================================================================
@contract("gunicorn.http.wsgi:Response.write", props=("C02", "C19"))
class RespWrite(Contract):
    def cases(self, env):
        out = []
        for hs in (False, True):
            st = base_state(env)
            r = mk_response(env, st, headers_sent=hs)
            seq = st.obj(st.obj(r).fields["headers"]).sym
            st.assume(all_hdrs_ok(seq))
            A = z3.Array("A", I, I)
            n = z3.Int("arg.len")
            st.assume(n >= 0)
            out.append(("bytes,headers_sent=%s" % hs, st, {"self": r, "arg": mk_win(A, 0, n)}, {}))
        return out

    def pre(self, c):
        return RI_resp(c, c.st) + SendHeaders.pre(SendHeaders(), c)

    def modifies(self, c):
        s = c.a["self"]
        sock = F(c, c.st, "sock")
        return [("field", sock, "g_wire", AnyStrShape(False)), ("field", sock, "g_wl"), ("field", s, "headers_sent", BoolShape()),
                ("field", s, "g_hend"), ("field", s, "sent")]

    def raises(self, c):
        return [(OSError, None, lambda c2: {"errno": SInt(fresh_int("errno"))}), (UnicodeEncodeError, None)]

    def spec_k(self, c, st0):
        """number of bytes of arg that go on the wire"""
        has_len, L = opt_int(F(c, st0, "response_length"))
        s0 = F(c, st0, "sent").t
        n = c.a["arg"].length()
        return If(has_len, Max(iv(0), Min(L - s0, n)), n)

    def post(self, c):
        st1, st0 = c.st, c.old
        k = self.spec_k(c, st0)
        ch = T_(c, st0, "chunked")
        arg = c.a["arg"]
        out = RI_resp(c, st1) + [
            ("headers_sent-afterwards", T_(c, st1, "headers_sent")),
            ("sent'==sent+bytes-put-on-the-wire", F(c, st1, "sent").t == F(c, st0, "sent").t + k),
            ("wire-only-grows", wl(c, st1) >= wl(c, st0)),
        ]
        hs0 = T_(c, st0, "headers_sent")
        dl = wl(c, st1) - wl(c, st0)
        if c.mode == "call":
            out.append(("ghost:head-end", If(hs0, F(c, st1, "g_hend").t == F(c, st0, "g_hend").t, And(F(c, st1, "g_hend").t >= wl(c, st0), F(c, st1, "g_hend").t <= wl(c, st1)))))
            out.append(("body-bytes-on-the-wire(identity-framing)", Implies(Not(ch), wl(c, st1) - F(c, st1, "g_hend").t == wl(c, st0) - If(hs0, F(c, st0, "g_hend").t, wl(c, st0)) + k)))
            return out
        w1, w0 = wire(c, st1), wire(c, st0)
        if const_true(hs0):
            piece = strops.slice_str(arg, iv(0), k, st1)
            enc_id = piece
            out += [("identity:wire'==wire++arg[:k]", Implies(Not(ch), Or(And(k == 0, dl == 0), tail_struct_eq(w1, w0, enc_id)))),
                    ("chunked:wire'==wire++one-chunk(arg)-or-nothing-for-empty", Implies(ch, Or(And(k == 0, dl == 0), tail_struct_eq(w1, w0, chunk_enc(piece, k))))),
                    ("never-an-empty-chunk", Implies(And(ch, k == 0), dl == 0))]
            has_code, code = opt_int(F(c, st0, "status_code"))
            bodyless = Or(is_head(c, st0), And(has_code, Or(code < 200, code == 204, code == 304)))
            out.append(("RFC9110-6.4.1:no-body-bytes-on-HEAD-1xx-204-304", Implies(bodyless, dl == 0)))
        return out

    def cases_hs(self, env):
        return None


@contract("gunicorn.http.wsgi:Response.close", props=("C02",))
class RespClose(Contract):
    def cases(self, env):
        out = []
        for hs in (False, True):
            st = base_state(env)
            r = mk_response(env, st, headers_sent=hs)
            seq = st.obj(st.obj(r).fields["headers"]).sym
            st.assume(all_hdrs_ok(seq))
            out.append(("headers_sent=%s" % hs, st, {"self": r}, {}))
        return out

    def pre(self, c):
        return RI_resp(c, c.st) + SendHeaders.pre(SendHeaders(), c)

    def modifies(self, c):
        s = c.a["self"]
        sock = F(c, c.st, "sock")
        return [("field", sock, "g_wire", AnyStrShape(False)), ("field", sock, "g_wl"), ("field", s, "headers_sent", BoolShape()),
                ("field", s, "g_hend")]

    def raises(self, c):
        return [(OSError, None, lambda c2: {"errno": SInt(fresh_int("errno"))}), (UnicodeEncodeError, None)]

    def post(self, c):
        st1, st0 = c.st, c.old
        ch = T_(c, st0, "chunked")
        out = [("headers_sent-afterwards", T_(c, st1, "headers_sent")), ("sent-unchanged", F(c, st1, "sent").t == F(c, st0, "sent").t),
               ("wire-only-grows", wl(c, st1) >= wl(c, st0))]
        if c.mode == "call":
            return out
        if const_true(T_(c, st0, "headers_sent")):
            w1, w0 = wire(c, st1), wire(c, st0)
            term = SStr([Lit(b"0\r\n\r\n")], False)
            out += [("chunked:exactly-one-terminating-chunk-appended", Implies(ch, tail_struct_eq(w1, w0, term))),
                    ("not-chunked:nothing-appended", Implies(Not(ch), wl(c, st1) == wl(c, st0)))]
        return out


# ======================================================================================================
# sendfile / write_file
# ======================================================================================================
from pyvc.env import STUBS, R1   # noqa: E402
from .sockmodel import oserr


def _os_lseek(ex, st, self_v, args, kwargs, node):
    # os.lseek(fd, pos, how): SEEK_CUR(1) with pos 0 -> current offset ; SEEK_SET(0) -> sets the offset. May raise OSError.
    fd, pos, how = args
    f = st.ghost.get("file_by_fd")
    if f is None:
        bad = st.fork()
        return [ex.res(st, SInt(fresh_int("lseek"))), ex.res_exc(bad, oserr())]
    fo = st.obj(f)
    from pyvc.smt import const_int
    h = const_int(how.t)
    bad = st.fork()
    if h == 1 and const_int(pos.t) == 0:
        return [ex.res(st, fo.fields["g_offset"]), ex.res_exc(bad, oserr())]
    if h == 0:
        fo.fields["g_offset"] = pos
        return [ex.res(st, pos), ex.res_exc(bad, oserr())]
    return [ex.res(st, SInt(fresh_int("lseek"))), ex.res_exc(bad, oserr())]


def _os_fstat(ex, st, self_v, args, kwargs, node):
    f = st.ghost.get("file_by_fd")
    bad = st.fork()
    if f is None:
        size = SInt(fresh_int("st_size"))
    else:
        size = SInt(st.obj(f).fields["g_content"].length())
    return [ex.res(st, st.alloc(HObj("stat_result", {"st_size": size, "st_mtime": Opaque("mtime")}))), ex.res_exc(bad, oserr())]


STUBS["os.lseek"] = _os_lseek
STUBS["posix.lseek"] = _os_lseek
STUBS["os.fstat"] = _os_fstat
STUBS["posix.fstat"] = _os_fstat


def mk_filewrapper(env, st):
    env.use_class("gunicorn.http.wsgi", "FileWrapper")
    f = mk_file(env, st)
    st.ghost["file_by_fd"] = f
    return st.alloc(HObj("FileWrapper", {"filelike": f, "blksize": SInt(8192)})), f


@contract("gunicorn.http.wsgi:Response.sendfile", props=("C02", "C19"))
class RespSendfile(Contract):
    def cases(self, env):
        out = []
        for hs in (False, True):
            st = base_state(env)
            r = mk_response(env, st, headers_sent=hs)
            seq = st.obj(st.obj(r).fields["headers"]).sym
            st.assume(all_hdrs_ok(seq))
            fw, f = mk_filewrapper(env, st)
            out.append(("file,headers_sent=%s" % hs, st, {"self": r, "respiter": fw}, {}))
        return out

    def pre(self, c):
        return RI_resp(c, c.st) + SendHeaders.pre(SendHeaders(), c) + [
            ("chunked-flag-agrees-with-is_chunked", T_(c, c.st, "chunked") == spec_is_chunked(c, c.st))]

    def modifies(self, c):
        s = c.a["self"]
        sock = F(c, c.st, "sock")
        return [("field", sock, "g_wire", AnyStrShape(False)), ("field", sock, "g_wl"), ("field", s, "headers_sent", BoolShape()),
                ("field", s, "g_hend"), ("field", s, "sent")]

    def result_shape(self, c):
        return BoolShape()

    def raises(self, c):
        return [(OSError, None, lambda c2: {"errno": SInt(fresh_int("errno"))}), (UnicodeEncodeError, None)]

    def post(self, c):
        st1, st0 = c.st, c.old
        res = c.ex.truth(c.result, st1)
        f = st0.obj(st0.obj(c.a["respiter"]).fields["filelike"])
        content = f.fields["g_content"].single_win()
        off = f.fields["g_offset"].t
        has_len, L = opt_int(F(c, st0, "response_length"))
        # what may still go out: the rest of the declared Content-Length, or the rest of the file
        n = If(has_len, Max(L - F(c, st0, "sent").t, iv(0)), content.hi - content.lo - off)
        ch = T_(c, st0, "chunked")
        out = RI_resp(c, st1) + [
            ("not-used=>nothing-happened", Implies(Not(res), And(wl(c, st1) == wl(c, st0), F(c, st1, "sent").t == F(c, st0, "sent").t,
                                                                  T_(c, st1, "headers_sent") == T_(c, st0, "headers_sent")))),
            ("used=>head-sent", Implies(res, T_(c, st1, "headers_sent"))),
            ("used=>body-bytes-accounted:sent'==sent+n", Implies(res, F(c, st1, "sent").t == F(c, st0, "sent").t + n)),
            ("file-offset-restored", st1.obj(st1.obj(c.a["respiter"]).fields["filelike"]).fields["g_offset"].t == off),
            ("wire-only-grows", wl(c, st1) >= wl(c, st0)),
        ]
        if c.mode != "call" and const_true(T_(c, st0, "headers_sent")):
            w1, w0 = wire(c, st1), wire(c, st0)
            piece = mk_win(content.base, content.lo + off, content.lo + off + n, False)
            out += [("identity:wire'==wire++file[off:off+n)", Implies(And(res, Not(ch)), Or(And(n == 0, wl(c, st1) == wl(c, st0)), tail_struct_eq(w1, w0, piece)))),
                    ("chunked:one-chunk-with-the-file-bytes", Implies(And(res, ch, n > 0), tail_struct_eq(w1, w0, chunk_enc(piece, n)))),
                    ("chunked:empty-file-emits-nothing(no-premature-terminator)", Implies(And(res, ch, n == 0), wl(c, st1) == wl(c, st0)))]
        return out
