"""Ghost kernel models used by the arbiter / pidfile / credentials contracts (ASSUMED, written from POSIX and the Python docs).

Filesystem (C17): st.ghost['fs'] = {label: (exists: z3 Bool, content: SStr)}; paths are compared by label. A label is
attached to every path string the code can see via st.ghost['path_labels'] (list of (SStr, label)).
  open(p) (read): OSError(ENOENT) iff not exists; read() returns the content
  tempfile.mkstemp(dir=) : creates a NEW empty file under a fresh name (different from every known path)
  os.write(fd, data)     : appends data to the file behind fd (small writes are complete and atomic)
  os.fdopen(fd, 'w')     : BUFFERED writer: data reaches the file when the object is closed / the with-block exits
  os.rename(a, b)        : atomic replace: b gets a's entry, a disappears
  os.unlink(p)           : removes p (ENOENT if absent)
Process table: os.getpid() = ghost 'me'; os.kill(pid, 0): ok iff ghost alive(pid); ESRCH otherwise; EPERM possible when alive.
"""
import errno as _errno

import z3

from pyvc.env import ClassModel, STUBS, R1
from pyvc.smt import And, Or, Not, Implies, If, iv, fresh_int, fresh_bool, I, B, TRUE, FALSE, const_int
from pyvc.values import (SInt, SBool, SReal, SNone, NONE, SStr, STuple, Ref, HObj, HList, HDict, SExc, Opaque, Unsupported,
                         Lit, Num, str_eq)
from pyvc import strops

alive = z3.Function("alive", I, B)       # ghost: process table


def oserror(code):
    return SExc(OSError, (SInt(code),), {"errno": SInt(code), "args": STuple([SInt(code)])})


def path_label(st, p):
    for (s, lab) in st.ghost.get("path_labels", []):
        if s is p or (isinstance(p, SStr) and isinstance(s, SStr) and p.atoms == s.atoms and p.atoms):
            return lab
    raise Unsupported("path %r has no label in the filesystem model" % (p,))


def add_path(st, s, label):
    st.ghost["path_labels"] = list(st.ghost.get("path_labels", [])) + [(s, label)]


def fs_get(st, label):
    return st.ghost["fs"][label]


def fs_set(st, label, exists, content):
    d = dict(st.ghost["fs"])
    d[label] = (exists, content)
    st.ghost["fs"] = d


class FileObj(ClassModel):
    def call(self, ex, st, self_v, meth, args, kwargs, node):
        o = st.obj(self_v)
        if meth == "read":
            return [ex.res(st, o.fields["g_content"])]
        if meth == "write":
            from pyvc.values import concat
            d = args[0]
            o.fields["g_buffer"] = concat(o.fields["g_buffer"], d) if o.fields["g_buffer"].is_str == d.is_str else d
            if const_int(0) == 0 and isinstance(o.fields.get("g_unbuffered"), SBool) and z3.is_true(o.fields["g_unbuffered"].t):
                _flush(st, o)
            return [ex.res(st, SInt(d.length()))]
        if meth in ("close", "flush"):
            _flush(st, o)
            return [ex.res(st, NONE)]
        if meth == "fileno":
            return [ex.res(st, o.fields.get("g_fd", SInt(fresh_int("fd"))))]
        return None


def _flush(st, o):
    lab = o.fields.get("g_label")
    buf = o.fields.get("g_buffer")
    if lab is not None and buf is not None and buf.atoms:
        from pyvc.values import concat
        ex_, cont = fs_get(st, lab)
        c2 = concat(cont, buf.with_str(False) if buf.is_str else buf)
        fs_set(st, lab, ex_, c2)
        o.fields["g_buffer"] = SStr([], buf.is_str)


FILEOBJ = FileObj()


def _file_ctx(kind, ex, st, cmv, outcome):
    if isinstance(cmv, Ref) and isinstance(st.obj(cmv), HObj) and st.obj(cmv).cls == "FileObj":
        if kind == "enter":
            return [ex.res(st, cmv)]
        _flush(st, st.obj(cmv))
        return [(st, outcome)]
    return None


def _open(ex, st, self_v, args, kwargs, node):
    ex.env.class_models["FileObj"] = FILEOBJ
    ex.env.ctx_models["file"] = _file_ctx
    p = args[0]
    mode = args[1].concrete_py() if len(args) > 1 else "r"
    lab = path_label(st, p)
    exists, content = fs_get(st, lab)
    if mode.startswith("r"):
        ok, bad = ex.split(st, exists)
        out = []
        if ok is not None:
            out.append(ex.res(ok, ok.alloc(HObj("FileObj", {"g_content": content.with_str(True), "g_label": lab, "g_buffer": SStr([], True)}))))
        if bad is not None:
            out.append(ex.res_exc(bad, oserror(_errno.ENOENT)))
        return out
    raise Unsupported("open(%s)" % mode)


def _fdopen(ex, st, self_v, args, kwargs, node):
    ex.env.class_models["FileObj"] = FILEOBJ
    ex.env.ctx_models["file"] = _file_ctx
    fd = args[0]
    lab = st.ghost["fd_labels"][const_int(fd.t)] if const_int(fd.t) in st.ghost.get("fd_labels", {}) else None
    if lab is None:
        raise Unsupported("fdopen of an unknown descriptor")
    mode = args[1].concrete_py() if len(args) > 1 else "r"
    buffering = args[2] if len(args) > 2 else kwargs.get("buffering")
    unbuffered = buffering is not None and const_int(buffering.t) == 0
    return [ex.res(st, st.alloc(HObj("FileObj", {"g_content": fs_get(st, lab)[1], "g_label": lab, "g_fd": fd,
                                                 "g_buffer": SStr([], "b" not in mode), "g_unbuffered": SBool(unbuffered)})))]


_fdcount = [100]


def _mkstemp(ex, st, self_v, args, kwargs, node):
    _fdcount[0] += 1
    fd = _fdcount[0]
    lab = "TMP%d" % fd
    name = strops.fresh_str(st, "tmpname%d" % fd, True)
    add_path(st, name, lab)
    fs_set(st, lab, TRUE, SStr([], False))
    fl = dict(st.ghost.get("fd_labels", {}))
    fl[fd] = lab
    st.ghost["fd_labels"] = fl
    bad = st.fork()
    return [ex.res(st, STuple([SInt(fd), name])), ex.res_exc(bad, oserror(_errno.EACCES))]


def _os_write(ex, st, self_v, args, kwargs, node):
    fd, data = args
    lab = st.ghost.get("fd_labels", {}).get(const_int(fd.t))
    if lab is None:
        bad = st.fork()
        return [ex.res(st, SInt(data.length())), ex.res_exc(bad, oserror(_errno.EAGAIN))]
    from pyvc.values import concat
    exists, content = fs_get(st, lab)
    bad = st.fork()
    fs_set(st, lab, exists, concat(content, data))
    return [ex.res(st, SInt(data.length())), ex.res_exc(bad, oserror(_errno.ENOSPC))]


def _os_rename(ex, st, self_v, args, kwargs, node):
    a, b = path_label(st, args[0]), path_label(st, args[1])
    bad = st.fork()
    ea, ca = fs_get(st, a)
    fs_set(st, b, ea, ca)
    fs_set(st, a, FALSE, SStr([], False))
    # descriptors opened on a keep pointing at the same file, which is now b
    fl = {k: (b if v == a else v) for k, v in st.ghost.get("fd_labels", {}).items()}
    st.ghost["fd_labels"] = fl
    for oid, o in st.heap.items():
        if isinstance(o, HObj) and o.cls == "FileObj" and o.fields.get("g_label") == a:
            o.fields["g_label"] = b
    return [ex.res(st, NONE), ex.res_exc(bad, oserror(_errno.EACCES))]


def _os_unlink(ex, st, self_v, args, kwargs, node):
    lab = path_label(st, args[0])
    exists, content = fs_get(st, lab)
    ok, bad = ex.split(st, exists)
    out = []
    if ok is not None:
        fs_set(ok, lab, FALSE, SStr([], False))
        ok.ghost["unlinked"] = list(ok.ghost.get("unlinked", [])) + [lab]
        out.append(ex.res(ok, NONE))
    if bad is not None:
        out.append(ex.res_exc(bad, oserror(_errno.ENOENT)))
    return out


def _noop(ex, st, self_v, args, kwargs, node):
    bad = st.fork()
    return [ex.res(st, NONE), ex.res_exc(bad, oserror(_errno.EPERM))]


def _os_close(ex, st, self_v, args, kwargs, node):
    return [ex.res(st, NONE)]


def _dirname(ex, st, self_v, args, kwargs, node):
    return R1(ex, st, strops.fresh_str(st, "dirname", True))


def _isdir(ex, st, self_v, args, kwargs, node):
    return R1(ex, st, SBool(fresh_bool("isdir")))


def _getpid(ex, st, self_v, args, kwargs, node):
    return R1(ex, st, SInt(z3.Int("me")))


def _getppid(ex, st, self_v, args, kwargs, node):
    return R1(ex, st, SInt(z3.Int("ppid.now")))


def _kill(ex, st, self_v, args, kwargs, node):
    pid, sig = args
    hook = st.ghost.get("kill_hook")
    if hook is not None:
        return hook(ex, st, pid, sig)
    c = const_int(sig.t)
    if c == 0:
        out = []
        a, b = ex.split(st, alive(pid.t))
        if a is not None:
            perm = a.fork()
            out.append(ex.res(a, NONE))
            out.append(ex.res_exc(perm, oserror(_errno.EPERM)))
        if b is not None:
            out.append(ex.res_exc(b, oserror(_errno.ESRCH)))
        return out
    raise Unsupported("os.kill without a process model")


for n, f in {"open": _open, "io.open": _open, "os.fdopen": _fdopen, "tempfile.mkstemp": _mkstemp, "os.write": _os_write,
             "posix.write": _os_write, "os.rename": _os_rename, "posix.rename": _os_rename, "os.unlink": _os_unlink,
             "posix.unlink": _os_unlink, "os.chmod": _noop, "posix.chmod": _noop, "os.close": _os_close, "posix.close": _os_close,
             "os.path.dirname": _dirname, "posixpath.dirname": _dirname, "os.path.isdir": _isdir, "genericpath.isdir": _isdir, "posixpath.isdir": _isdir,
             "os.getpid": _getpid, "posix.getpid": _getpid, "os.getppid": _getppid, "posix.getppid": _getppid,
             "os.kill": _kill, "posix.kill": _kill}.items():
    STUBS[n] = f
