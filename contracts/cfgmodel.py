"""Model of gunicorn.config.Config as seen by the code under verification: attribute reads are pure reads of typed symbolic
values constrained by the ranges the setting validators guarantee (assumption: validators as shipped)."""
import z3

from pyvc.env import ClassModel
from pyvc.smt import And, Or, Not, Implies, iv, fresh_int, fresh_arr, fresh_bool, fresh_name, I, B, TRUE
from pyvc.values import (SInt, SBool, SReal, SNone, NONE, SStr, STuple, Ref, HObj, HList, HDict, mk_win, str_eq, qvar,
                         Opaque, Unsupported, StubV)
from pyvc import strops


def enum_str(st, name, options, canonical=False):
    """a symbolic text string constrained to be one of the literal options"""
    s = strops.fresh_str(st, name, True, canonical=canonical)
    st.assume(Or(*[str_eq(s, SStr.lit(o)) for o in options]))
    return s


# name -> kind ; kinds: ('int', lo, hi) | 'bool' | ('enum', [...]) | 'strset' | 'strmap' | 'str' | 'real' | 'optstr' | 'hook'
CFG = {
    "limit_request_line": ("int", 0, None),
    "limit_request_fields": ("int", 0, None),
    "limit_request_field_size": ("int", 0, None),
    "is_ssl": "bool",
    "strip_header_spaces": "bool",
    "permit_obsolete_folding": "bool",
    "permit_unconventional_http_method": "bool",
    "permit_unconventional_http_version": "bool",
    "casefold_http_method": "bool",
    "header_map": ("enum", ["drop", "refuse", "dangerous"]),
    "forwarded_allow_ips": "strset",
    "proxy_allow_ips": "strset",
    "forwarder_headers": "strset",
    "secure_scheme_headers": "strmap",
    "proxy_protocol": "bool",
    "keepalive": ("int", 0, None),
    "max_requests": ("int", 0, None),
    "max_requests_jitter": ("int", 0, None),
    "sendfile": "optbool",
    "workers": ("int", 1, None),
    "threads": ("int", 1, None),
    "worker_connections": ("int", 1, None),
    "timeout": ("int", 0, None),
    "graceful_timeout": ("int", 0, None),
    "daemon": "bool",
    "reuse_port": "bool",
    "preload_app": "bool",
    "reload": "bool",
    "initgroups": "bool",
    "uid": ("int", 0, None),
    "gid": ("int", 0, None),
    "umask": ("int", 0, None),
    "pidfile": "optstr",
    "errorlog": "str",
    "proc_name": "str",
    "worker_tmp_dir": "optstr",
}

HOOKS = ("pre_request", "post_request", "pre_fork", "post_fork", "child_exit", "worker_exit", "worker_int",
         "worker_abort", "on_starting", "on_reload", "on_exit", "when_ready", "nworkers_changed", "pre_exec",
         "post_worker_init")


class StrSetModel(ClassModel):
    """an abstract collection of strings (config list): membership is an uninterpreted predicate of the member"""

    def contains(self, ex, st, ref, o, item):
        tag = o.fields["tag"]
        if isinstance(item, SStr):
            c = item.concrete_py()
            if c is not None:
                return z3.Bool("in.%s.%r" % (tag, c))
            w = item.single_win()
            if w is not None:
                f = z3.Function("in.%s.%s" % (tag, str(w.base)), I, I, B)
                return f(w.lo, w.hi)
        return fresh_bool("in.%s" % tag)

    def getitem(self, ex, st, ref, o, key):
        tag = o.fields["tag"]
        if o.fields.get("kind") == "map":
            w = key.single_win() if isinstance(key, SStr) else None
            nm = "%s.value" % tag
            # the value stored under a key: one canonical opaque string per map (keys are not distinguished: sound
            # over-approximation for the comparisons the code makes)
            return [ex.res(st, strops.fresh_str(st, nm, True))]
        return None

    def call(self, ex, st, self_v, meth, args, kwargs, node):
        return None


class ConfigModel(ClassModel):
    def get_attr(self, ex, st, ref, o, attr):
        if attr in HOOKS:
            return StubV("cfg.hook")
        kind = CFG.get(attr)
        if kind is None:
            return None
        name = "cfg.%s" % attr
        if isinstance(kind, tuple) and kind[0] == "int":
            t = z3.Int(name)
            if kind[1] is not None:
                st.assume(t >= kind[1])
            if kind[2] is not None:
                st.assume(t <= kind[2])
            v = SInt(t)
        elif kind == "bool":
            v = SBool(z3.Bool(name))
        elif kind == "optbool":
            from pyvc.values import SOpt
            v = SOpt(z3.Bool(name + ".set"), SBool(z3.Bool(name)))
        elif isinstance(kind, tuple) and kind[0] == "enum":
            v = enum_str(st, name, kind[1], canonical=True)
        elif kind in ("strset", "strmap"):
            ex.env.class_models["AbsStrSet"] = STRSET
            v = st.alloc(HObj("AbsStrSet", {"tag": attr, "kind": "map" if kind == "strmap" else "set"}))
        elif kind == "str":
            v = strops.fresh_str(st, name, True, canonical=True)
        elif kind == "optstr":
            from pyvc.values import SOpt
            v = SOpt(z3.Bool(name + ".set"), strops.fresh_str(st, name, True, canonical=True))
        elif kind == "real":
            v = SReal(z3.Real(name))
        else:
            return None
        o.fields[attr] = v
        return v


STRSET = StrSetModel()
CONFIG = ConfigModel()


def mk_cfg(env, st, **fixed):
    """a Config object; `fixed` pins some settings (e.g. the documented-unsafe switches to False)"""
    env.class_models["Config"] = CONFIG
    env.class_models["AbsStrSet"] = STRSET
    f = {}
    for k, v in fixed.items():
        if isinstance(v, bool):
            f[k] = SBool(v)
        elif isinstance(v, int):
            f[k] = SInt(v)
        elif isinstance(v, str):
            f[k] = SStr.lit(v)
        else:
            f[k] = v
    return st.alloc(HObj("Config", f))


from pyvc.env import STUBS, R1


def _hook(ex, st, self_v, args, kwargs, node):
    # server hooks are assumed to be the shipped defaults (no-ops)
    return R1(ex, st, NONE)


STUBS["cfg.hook"] = _hook
