"""Contracts for gunicorn/http/message.py (request head parsing): get_data, read_line, parse, ..."""
import z3

from pyvc.contracts import contract, Contract, inline
from pyvc.smt import And, Or, Not, Implies, If, Min, Max, iv, fresh_int, I, TRUE, FALSE
from pyvc.values import (SInt, SBool, SNone, NONE, SStr, STuple, Ref, HObj, HBio, HList, mk_win, qvar, SExc, Opaque)
from pyvc.shapes import WinShape, IntShape, TupleShape, ListShape
from .pmodel import (T, N, base_state, mk_unreader, u_buf, u_sp, u_pos, RI, RI_and, is_T, twin, t_window, crlf_at,
                     first_crlf, no_crlf)

inline("gunicorn.util:bytes_to_str")

fcrlf = z3.Function("fcrlf", I, I)     # ghost: position of the first CRLF of T at/after p, or -1 (definitional)


def fc_axiom(p):
    """definition of fcrlf at p (instantiated where the specification mentions it)"""
    F = fcrlf(p)
    return Or(And(F == -1, no_crlf(p, N)), first_crlf(F, p))


def errs(c):
    return c.ex.env.repo.live("gunicorn.http.errors")


def mk_request_shell(env, st, u, **fields):
    """a Request object with only the fields the function under verification reads"""
    env.use_class("gunicorn.http.message", "Request")
    env.use_class("gunicorn.http.message", "Message")
    f = {"unreader": u}
    f.update(fields)
    return st.alloc(HObj("Request", f))


def io_adjacent(content, pos):
    """the io buffer holds exactly the bytes just before stream position pos"""
    return Or(content.length() == 0, is_T(content, pos - content.length(), pos))


def oserror(c):
    return (OSError, None, lambda c2: {"errno": SInt(fresh_int("errno"))})


class _GetData(Contract):
    exact_raises = True
    has_stop = True

    def cases(self, env):
        out = []
        for stop in ((False, True) if self.has_stop else (False,)):
            st = base_state(env)
            u = mk_unreader(env, st)
            a = fresh_int("buf.lo")
            pos = u_sp(None, u, st) - u_buf(None, u, st).length()
            st.assume(0 <= a, a <= pos)
            buf = st.alloc(HBio(twin(a, pos)))
            slf = self.mk_self(env, st, u)
            args = {"self": slf, "unreader": u, "buf": buf}
            if self.has_stop:
                args["stop"] = SBool(stop)
            out.append(("stop=%s" % stop, st, args, {}))
        return out

    def pre(self, c):
        u = c.a["unreader"]
        content = c.st.obj(c.a["buf"]).content
        return list(RI(c, u)) + [("buf-holds-bytes-just-before-unreader-position", io_adjacent(content, u_pos(c, u)))]

    def modifies(self, c):
        u = c.a["unreader"]
        return [("field", u, "g_sp"), ("obj", c.st.obj(u).fields["buf"], WinShape(T)), ("obj", c.a["buf"], WinShape(T))]

    def raises(self, c):
        u = c.a["unreader"]
        at_eof = u_pos(c, u) == N
        E = errs(c)
        if self.has_stop:
            stop = c.ex.truth(c.a["stop"], c.st)
            return [(StopIteration, And(at_eof, stop)), (E.NoMoreData, And(at_eof, Not(stop))), oserror(c)]
        return [(E.NoMoreData, at_eof), oserror(c)]

    def exc_post(self, c):
        return list(RI(c, c.a["unreader"]))

    def post(self, c):
        u = c.a["unreader"]
        pos0, pos1 = u_pos(c, u, c.old), u_pos(c, u)
        b0 = c.old.obj(c.a["buf"]).content
        b1 = c.st.obj(c.a["buf"]).content
        return list(RI(c, u)) + [
            ("buf-extended-by-the-next-bytes", is_T(b1, pos0 - b0.length(), pos1)),
            ("progress", pos1 > pos0),
            ("unreader-buffer-empty", pos1 == u_sp(c, u)),
        ]


@contract("gunicorn.http.message:Request.get_data", props=("C01", "C06", "C12"))
class RequestGetData(_GetData):
    def mk_self(self, env, st, u):
        return mk_request_shell(env, st, u)


@contract("gunicorn.http.body:ChunkedReader.get_data", props=("C01", "C06", "C12"))
class ChunkedGetData(_GetData):
    has_stop = False

    def mk_self(self, env, st, u):
        env.use_class("gunicorn.http.body", "ChunkedReader")
        return st.alloc(HObj("ChunkedReader", {}))


# ======================================================================================================
# read_line
# ======================================================================================================

def line_too_long(p, limit):
    """segmentation-independent: the request line starting at p exceeds `limit` (>0):
    its first CRLF lies more than `limit` bytes after p, or there is none and the rest of the stream is longer"""
    F = fcrlf(p)
    return And(limit > 0, Or(And(F >= 0, F - p > limit), And(F == -1, N - p - 2 > limit)))


@contract("gunicorn.http.message:Request.read_line", props=("C01", "C06", "C12"))
class ReadLine(Contract):
    exact_raises = True

    def cases(self, env):
        st = base_state(env)
        u = mk_unreader(env, st, empty_buf=True)
        pos = u_sp(None, u, st)
        a = fresh_int("buf.lo")
        st.assume(0 <= a, a <= pos)
        buf = st.alloc(HBio(twin(a, pos)))
        limit = z3.Int("limit")
        st.assume(limit >= 0)
        slf = mk_request_shell(env, st, u)
        return [("line", st, {"self": slf, "unreader": u, "buf": buf, "limit": SInt(limit)}, {})]

    def p0(self, c, st=None):
        st = st or c.st
        u = c.a["unreader"]
        return u_pos(c, u, st) - st.obj(c.a["buf"]).content.length()

    def pre(self, c):
        u = c.a["unreader"]
        content = c.st.obj(c.a["buf"]).content
        p = self.p0(c)
        return list(RI(c, u)) + [
            ("buf-holds-bytes-just-before-unreader-position", io_adjacent(content, u_pos(c, u))),
            ("unreader-buffer-empty", u_buf(c, u).length() == 0),
            ("limit>=0", c.a["limit"].t >= 0),
            ("ghost:fcrlf-definition", fc_axiom(p))]

    def modifies(self, c):
        u = c.a["unreader"]
        return [("field", u, "g_sp"), ("obj", c.st.obj(u).fields["buf"], WinShape(T)), ("obj", c.a["buf"], WinShape(T))]

    def result_shape(self, c):
        return TupleShape([WinShape(T), WinShape(T)])

    def raises(self, c):
        p = self.p0(c)
        limit = c.a["limit"].t
        E = errs(c)
        F = fcrlf(p)
        return [(E.LimitRequestLine, line_too_long(p, limit)),
                (E.NoMoreData, And(F == -1, Not(line_too_long(p, limit)))),
                oserror(c)]

    def exc_post(self, c):
        return list(RI(c, c.a["unreader"]))

    def post(self, c):
        u = c.a["unreader"]
        p = self.p0(c, c.old)
        pos1 = u_pos(c, u)
        res = c.result
        if not isinstance(res, STuple) or len(res.items) != 2:
            return [("result-is-a-pair", FALSE)]
        line, rest = res.items
        F = fcrlf(p)
        return list(RI(c, u)) + [
            ("line==T[p:F)", And(F >= 0, is_T(line, p, F))),
            ("residue==T[F+2:pos')", is_T(rest, F + 2, pos1)),
            ("residue-ends-at-unreader-position", And(pos1 >= F + 2, pos1 == u_sp(c, u))),
            ("line-within-limit", Not(line_too_long(p, c.a["limit"].t))),
        ]

    loops = {0: dict(anchor="while True", cands=[
        ("RI(unreader)", lambda L: RI_and(_C(L), L.unreader, L.st)),
        ("unreader-buffer-empty", lambda L: u_buf(_C(L), L.unreader, L.st).length() == 0),
        ("data==buf==T[p:pos)", lambda L: And(is_T(L.data, _p(L), u_pos(_C(L), L.unreader, L.st)),
                                              is_T(L.st.obj(L.buf).content, _p(L), u_pos(_C(L), L.unreader, L.st)))),
        ("pos-monotone", lambda L: u_pos(_C(L), L.unreader, L.st) >= u_pos(_C(L), L.unreader, L.fentry)),
    ])}


class _C:
    def __init__(self, L):
        self.st = L.st


def _p(L):
    return u_pos(_C(L), L.unreader, L.fentry) - L.fentry.obj(L.buf).content.length()
