"""Contracts for gunicorn/http/message.py (request head parsing): get_data, read_line, parse, ..."""
import z3

from pyvc.contracts import contract, Contract, inline
from pyvc.smt import And, Or, Not, Implies, If, Min, Max, iv, fresh_int, I, TRUE, FALSE
from pyvc.values import (SInt, SBool, SNone, NONE, SStr, STuple, Ref, HObj, HBio, HList, mk_win, qvar, SExc, Opaque)
from pyvc.shapes import WinShape, IntShape, TupleShape, ListShape
from .pmodel import (T, N, base_state, mk_unreader, u_buf, u_sp, u_pos, RI, RI_and, is_T, twin, t_window, crlf_at,
                     first_crlf, no_crlf)

inline("gunicorn.util:bytes_to_str")

fcrlf = z3.Function("fcrlf", I, I)     # ghost: position of the first CRLF of T at/after p, or -1 (definitional)


def fc_axiom(p):
    """definition of fcrlf at p (instantiated where the specification mentions it)"""
    F = fcrlf(p)
    return Or(And(F == -1, no_crlf(p, N)), first_crlf(F, p))


def fc_def(a, b):
    """definition of the ghost function fcrlf on [a, b] (triggered on occurrences of fcrlf(p))"""
    p = z3.Int("p?fc")
    return z3.ForAll([p], Implies(And(a <= p, p <= b), fc_axiom(p)), patterns=[fcrlf(p)])


def errs(c):
    return c.ex.env.repo.live("gunicorn.http.errors")


def mk_request_shell(env, st, u, **fields):
    """a Request object with only the fields the function under verification reads"""
    env.use_class("gunicorn.http.message", "Request")
    env.use_class("gunicorn.http.message", "Message")
    f = {"unreader": u}
    f.update(fields)
    return st.alloc(HObj("Request", f))


def io_adjacent(content, pos):
    """the io buffer holds exactly the bytes just before stream position pos"""
    return Or(content.length() == 0, is_T(content, pos - content.length(), pos))


def oserror(c):
    return (OSError, None, lambda c2: {"errno": SInt(fresh_int("errno"))})


class _GetData(Contract):
    exact_raises = True
    has_stop = True

    def cases(self, env):
        out = []
        for stop in ((False, True) if self.has_stop else (False,)):
            st = base_state(env)
            u = mk_unreader(env, st)
            a = fresh_int("buf.lo")
            pos = u_sp(None, u, st) - u_buf(None, u, st).length()
            st.assume(0 <= a, a <= pos)
            buf = st.alloc(HBio(twin(a, pos)))
            slf = self.mk_self(env, st, u)
            args = {"self": slf, "unreader": u, "buf": buf}
            if self.has_stop:
                args["stop"] = SBool(stop)
            out.append(("stop=%s" % stop, st, args, {}))
        return out

    def pre(self, c):
        u = c.a["unreader"]
        content = c.st.obj(c.a["buf"]).content
        return list(RI(c, u)) + [("buf-holds-bytes-just-before-unreader-position", io_adjacent(content, u_pos(c, u)))]

    def modifies(self, c):
        u = c.a["unreader"]
        return [("field", u, "g_sp"), ("obj", c.st.obj(u).fields["buf"], WinShape(T)), ("obj", c.a["buf"], WinShape(T))]

    def raises(self, c):
        u = c.a["unreader"]
        at_eof = u_pos(c, u) == N
        E = errs(c)
        if self.has_stop:
            stop = c.ex.truth(c.a["stop"], c.st)
            return [(StopIteration, And(at_eof, stop)), (E.NoMoreData, And(at_eof, Not(stop))), oserror(c)]
        return [(E.NoMoreData, at_eof), oserror(c)]

    def exc_post(self, c):
        u = c.a["unreader"]
        out = list(RI(c, u))
        if c.exc is not None and c.exc.cls.__name__ in ("NoMoreData", "StopIteration"):
            out.append(("at-end-of-stream-nothing-consumed", And(u_pos(c, u) == N, u_pos(c, u, c.old) == N)))
        return out

    def post(self, c):
        u = c.a["unreader"]
        pos0, pos1 = u_pos(c, u, c.old), u_pos(c, u)
        b0 = c.old.obj(c.a["buf"]).content
        b1 = c.st.obj(c.a["buf"]).content
        return list(RI(c, u)) + [
            ("buf-extended-by-the-next-bytes", is_T(b1, pos0 - b0.length(), pos1)),
            ("progress", pos1 > pos0),
            ("unreader-buffer-empty", pos1 == u_sp(c, u)),
        ]


@contract("gunicorn.http.message:Request.get_data", props=("C01", "C06", "C12"))
class RequestGetData(_GetData):
    def mk_self(self, env, st, u):
        return mk_request_shell(env, st, u)


@contract("gunicorn.http.body:ChunkedReader.get_data", props=("C01", "C06", "C12"))
class ChunkedGetData(_GetData):
    has_stop = False

    def mk_self(self, env, st, u):
        env.use_class("gunicorn.http.body", "ChunkedReader")
        return st.alloc(HObj("ChunkedReader", {}))


# ======================================================================================================
# read_line
# ======================================================================================================

def line_too_long(p, limit):
    """segmentation-independent: the request line starting at p exceeds `limit` (>0):
    its first CRLF lies more than `limit` bytes after p, or there is none and the rest of the stream is longer"""
    F = fcrlf(p)
    return And(limit > 0, Or(And(F >= 0, F - p > limit), And(F == -1, N - p - 2 > limit)))


@contract("gunicorn.http.message:Request.read_line", props=("C01", "C06", "C12"))
class ReadLine(Contract):
    exact_raises = True

    def cases(self, env):
        st = base_state(env)
        u = mk_unreader(env, st, empty_buf=True)
        pos = u_sp(None, u, st)
        a = fresh_int("buf.lo")
        st.assume(0 <= a, a <= pos)
        buf = st.alloc(HBio(twin(a, pos)))
        limit = z3.Int("limit")
        st.assume(limit >= 0)
        slf = mk_request_shell(env, st, u)
        return [("line", st, {"self": slf, "unreader": u, "buf": buf, "limit": SInt(limit)}, {})]

    def p0(self, c, st=None):
        st = st or c.st
        u = c.a["unreader"]
        return u_pos(c, u, st) - st.obj(c.a["buf"]).content.length()

    def pre(self, c):
        u = c.a["unreader"]
        content = c.st.obj(c.a["buf"]).content
        p = self.p0(c)
        return list(RI(c, u)) + [
            ("buf-holds-bytes-just-before-unreader-position", io_adjacent(content, u_pos(c, u))),
            ("unreader-buffer-empty", u_buf(c, u).length() == 0),
            ("limit>=0", c.a["limit"].t >= 0)]

    def ghost_axioms(self, c):
        return [fc_axiom(self.p0(c))]

    def modifies(self, c):
        u = c.a["unreader"]
        return [("field", u, "g_sp"), ("obj", c.st.obj(u).fields["buf"], WinShape(T)), ("obj", c.a["buf"], WinShape(T))]

    def result_shape(self, c):
        return TupleShape([WinShape(T), WinShape(T)])

    def raises(self, c):
        p = self.p0(c)
        limit = c.a["limit"].t
        E = errs(c)
        F = fcrlf(p)
        return [(E.LimitRequestLine, line_too_long(p, limit)),
                (E.NoMoreData, And(F == -1, Not(line_too_long(p, limit)))),
                oserror(c)]

    def exc_post(self, c):
        return list(RI(c, c.a["unreader"]))

    def post(self, c):
        u = c.a["unreader"]
        p = self.p0(c, c.old)
        pos1 = u_pos(c, u)
        res = c.result
        if not isinstance(res, STuple) or len(res.items) != 2:
            return [("result-is-a-pair", FALSE)]
        line, rest = res.items
        F = fcrlf(p)
        return list(RI(c, u)) + [
            ("line==T[p:F)", And(F >= 0, is_T(line, p, F))),
            ("residue==T[F+2:pos')", is_T(rest, F + 2, pos1)),
            ("residue-ends-at-unreader-position", And(pos1 >= F + 2, pos1 == u_sp(c, u))),
            ("line-within-limit", Not(line_too_long(p, c.a["limit"].t))),
        ]

    loops = {0: dict(anchor="while True", cands=[
        ("RI(unreader)", lambda L: RI_and(_C(L), L.unreader, L.st)),
        ("unreader-buffer-empty", lambda L: u_buf(_C(L), L.unreader, L.st).length() == 0),
        ("data==buf==T[p:pos)", lambda L: And(is_T(L.data, _p(L), u_pos(_C(L), L.unreader, L.st)),
                                              is_T(L.st.obj(L.buf).content, _p(L), u_pos(_C(L), L.unreader, L.st)))),
        ("pos-monotone", lambda L: u_pos(_C(L), L.unreader, L.st) >= u_pos(_C(L), L.unreader, L.fentry)),
    ])}


class _C:
    def __init__(self, L):
        self.st = L.st


def _p(L):
    return u_pos(_C(L), L.unreader, L.fentry) - L.fentry.obj(L.buf).content.length()


# ======================================================================================================
# parse_headers
# ======================================================================================================
from .cfgmodel import mk_cfg
from pyvc import strops, regex
from pyvc.values import in_class, all_chars, any_char, Win
from pyvc.shapes import ConstShape

TOKEN_CLASS = None


def token_class(env):
    """character class of an HTTP token, compiled from the LIVE gunicorn.http.message.TOKEN_RE"""
    m = env.repo.live("gunicorn.http.message")
    el = regex.compile_pattern(m.TOKEN_RE.pattern)
    assert len(el) == 1 and el[0][0] == "rep" and not el[0][2]
    return el[0][1]


RFC_TOKEN = [(0x21, 0x21), (0x23, 0x27), (0x2a, 0x2b), (0x2d, 0x2e), (0x30, 0x39), (0x41, 0x5a), (0x5e, 0x7a), (0x7c, 0x7c),
             (0x7e, 0x7e)]       # RFC 9110 5.6.2 tchar, written from the RFC (independent of the code's regex)
OWS = [(9, 9), (32, 32)]


def is_tchar(c):
    return in_class(c, RFC_TOKEN)


def Tsel(p):
    return z3.Select(T, p)


def header_fact_list(nlo, nhi, vlo, vhi, a, b):
    """RFC 9112 field-line reading of the line that starts at nlo inside the header block T[a:b) (b is followed by CRLF):
    name = T[nlo:nhi) is a token, T[nhi] == ':', value = T[vlo:vhi) is the rest of the line with OWS trimmed and
    contains no NUL/CR/LF; the line ends at the first CRLF at/after nlo."""
    q = qvar("q")
    le = fcrlf(nlo)
    rng = lambda lo, hi, pred: z3.ForAll([q], Implies(And(lo <= q, q < hi), pred(Tsel(q))))
    return [
        ("bounds", And(a <= nlo, nlo < nhi, nhi < le, le <= b)),
        ("line-end", first_crlf(le, nlo)),
        ("name-is-token", rng(nlo, nhi, is_tchar)),
        ("colon-follows-name", Tsel(nhi) == 58),
        ("value-bounds", And(nhi + 1 <= vlo, vlo <= vhi, vhi <= le)),
        ("only-OWS-trimmed-left", rng(nhi + 1, vlo, lambda c: in_class(c, OWS))),
        ("value-has-no-NUL-CR-LF", rng(vlo, vhi, lambda c: And(c != 0, c != 13, c != 10))),
    ]


def extra_header_facts(nlo, nhi, vlo, vhi, a, b, lrfs):
    """clauses of parse_headers that downstream consumers do not need: right trim, no outer OWS, field size"""
    q = qvar("q")
    le = fcrlf(nlo)
    rng = lambda lo, hi, pred: z3.ForAll([q], Implies(And(lo <= q, q < hi), pred(Tsel(q))))
    return [
        ("only-OWS-trimmed-right", rng(vhi, le, lambda c: in_class(c, OWS))),
        ("value-has-no-outer-OWS", Implies(vlo < vhi, And(Not(in_class(Tsel(vlo), OWS)), Not(in_class(Tsel(vhi - 1), OWS))))),
        ("field-size-within-limit", Implies(lrfs > 0, le - nlo + 2 <= lrfs)),
    ]


def _each_extra(seq, a, b, lrfs, k):
    j = qvar("j")
    return z3.ForAll([j], Implies(And(0 <= j, j < seq.hi), extra_header_facts(*hdr_windows(seq, j), a, b, lrfs)[k][1]))


EXTRA_NAMES = ["only-OWS-trimmed-right", "value-has-no-outer-OWS", "field-size-within-limit"]


def header_facts(nlo, nhi, vlo, vhi, a, b):
    return And(*[f for _, f in header_fact_list(nlo, nhi, vlo, vhi, a, b)])


HDR_SHAPE = TupleShape([WinShape(T, True, ("upper",)), WinShape(T, True)])


def hdr_windows(seq, j):
    e = seq.elem(j)
    n, v = e.items[0].single_win(), e.items[1].single_win()
    return n.lo, n.hi, v.lo, v.hi


def headers_wf(seq, a, b):
    """all entries of the header list are RFC field-lines of the block, in stream order"""
    j = qvar("j")
    nlo = lambda k: hdr_windows(seq, k)[0]
    return And(seq.lo == 0, seq.hi >= 0,
               z3.ForAll([j], Implies(And(0 <= j, j < seq.hi), header_facts(*hdr_windows(seq, j), a, b))),
               z3.ForAll([j], Implies(And(0 <= j, j < seq.hi - 1), nlo(j) < nlo(j + 1))))


def mk_peer(st, kind):
    if kind == "tcp":
        return STuple([strops.fresh_str(st, "peer.host", True), SInt(fresh_int("peer.port"))])
    return strops.fresh_str(st, "peer.unix", True)


def allowed(c, st, cfg_field, peer):
    """peer is in the allow list `cfg_field` ('*' wildcard, or not a TCP peer, or listed)"""
    cfg = c.get("self.cfg", st)
    lst = c.field(cfg, cfg_field, st)
    ex = c.ex
    star = ex.contains(lst, SStr.lit("*"), st)
    if not isinstance(peer, STuple):
        return TRUE
    return Or(star, ex.contains(lst, peer.items[0], st))


@contract("gunicorn.http.message:Message.parse_headers", props=("C01", "C06", "C08", "C12", "C15"))
class ParseHeaders(Contract):
    """preconditions exclude the documented-unsafe modes strip_header_spaces / permit_obsolete_folding"""
    # cases: 0 tcp/headers 1 tcp/trailers 2 unix/headers 3 unix/trailers, one task each (the header cases take ~3 min of
    # solver time each since the discharge works on the goal's cone of influence)
    parallel_cases = 4
    weight = 10

    def cases(self, env):
        out = []
        for peer_kind in ("tcp", "unix"):
            for trailer in (False, True):
                st = base_state(env)
                u = mk_unreader(env, st)
                cfg = mk_cfg(env, st, strip_header_spaces=False, permit_obsolete_folding=False)
                a, b = z3.Int("blk.lo"), z3.Int("blk.hi")
                st.assume(0 <= a, a <= b, b + 2 <= N, crlf_at(b))
                lrf, lrfs = z3.Int("self.limit_request_fields"), z3.Int("self.limit_request_field_size")
                st.assume(1 <= lrf, lrf <= 32768, lrfs >= 0)
                slf = mk_request_shell(env, st, u, cfg=cfg, peer_addr=mk_peer(st, peer_kind),
                                       limit_request_fields=SInt(lrf), limit_request_field_size=SInt(lrfs),
                                       scheme=enum_scheme(st))
                out.append(("peer=%s,trailer=%s" % (peer_kind, trailer), st,
                            {"self": slf, "data": twin(a, b), "from_trailer": SBool(trailer)}, {}))
        return out

    def blk(self, c):
        tw = t_window(c.a["data"])
        if tw is None:
            return None
        if tw[0] == "empty":
            return None
        return tw[1], tw[2]

    def pre(self, c):
        bl = self.blk(c)
        if bl is None:
            return [("data-is-a-positioned-stream-window", FALSE)]
        a, b = bl
        cfg = c.get("self.cfg")
        o = c.st.obj(c.a["self"])
        ex = c.ex
        return [("block-is-followed-by-CRLF", And(0 <= a, a <= b, b + 2 <= N, crlf_at(b))),
                ("unsafe:strip_header_spaces-off", Not(ex.truth(c.field(cfg, "strip_header_spaces"), c.st))),
                ("unsafe:permit_obsolete_folding-off", Not(ex.truth(c.field(cfg, "permit_obsolete_folding"), c.st))),
                ("limits-clamped", And(o.fields["limit_request_fields"].t >= 1, o.fields["limit_request_field_size"].t >= 0))]

    def ghost_axioms(self, c):
        bl = self.blk(c)
        return [fc_def(bl[0], bl[1])] if bl is not None else []

    def modifies(self, c):
        return [("field", c.a["self"], "scheme")]

    def result_shape(self, c):
        return ListShape(HDR_SHAPE)

    def raises(self, c):
        E = errs(c)
        return [(E.LimitRequestHeaders, None), (E.InvalidHeader, None), (E.InvalidHeaderName, None),
                (E.ObsoleteFolding, None), (E.InvalidSchemeHeaders, None)]

    def post(self, c):
        a, b = self.blk(c)
        res = c.st.obj(c.result)
        o1, o0 = c.st.obj(c.a["self"]), c.old.obj(c.a["self"])
        ex = c.ex
        peer = o0.fields["peer_addr"]
        scheme_changed = Not(ex.equal(o1.fields["scheme"], o0.fields["scheme"], c.st))
        trust = And(Not(ex.truth(c.a["from_trailer"], c.st)), allowed(c, c.old, "forwarded_allow_ips", peer))
        out = [("scheme-changes-only-for-trusted-peer", Implies(scheme_changed, trust)),
               ("scheme-is-http-or-https", Or(ex.equal(o1.fields["scheme"], SStr.lit("http"), c.st),
                                              ex.equal(o1.fields["scheme"], SStr.lit("https"), c.st)))]
        if res.items is not None:
            if res.items:
                return out + [("result-shape", FALSE)]
            return out
        seq = res.sym
        lrf = o0.fields["limit_request_fields"].t
        lrfs = o0.fields["limit_request_field_size"].t
        j = qvar("j")
        nlo = lambda k: hdr_windows(seq, k)[0]
        le = lambda k: fcrlf(nlo(k))
        cfg = c.get("self.cfg", c.old)
        hm = c.field(cfg, "header_map", c.old)
        fwd = c.field(cfg, "forwarder_headers", c.old)
        star = ex.contains(fwd, SStr.lit("*"), c.old)
        und = lambda k: z3.Exists([j], And(nlo(k) <= j, j < hdr_windows(seq, k)[1], Tsel(j) == 95))
        k = qvar("k")
        return out + [("hdr:" + nm, _each(seq, a, b, i)) for i, (nm, _f) in enumerate(
            header_fact_list(iv(0), iv(0), iv(0), iv(0), a, b))] + [
            ("hdr:" + nm, _each_extra(seq, a, b, lrfs, i)) for i, nm in enumerate(EXTRA_NAMES)] + [
            ("headers-in-stream-order", And(seq.lo == 0, seq.hi >= 0, _ordered(seq))),
            ("field-count-within-limit", seq.hi <= lrf),
            ("underscore-names-only-when-privileged-or-dangerous",
             z3.ForAll([k], Implies(And(0 <= k, k < seq.hi, _has_underscore(seq, k)),
                                    Or(ex.equal(hm, SStr.lit("dangerous"), c.old),
                                       And(trust, Or(star, ex.contains(fwd, seq.elem(k).items[0], c.old))))))),
        ]

    loops = {0: dict(anchor="while lines", types={"headers": ListShape(HDR_SHAPE)}, cands=[
        ("lines-view-fixed", lambda L: _lines_fixed(L)),
        ("headers.lo==0", lambda L: _hdrs(L, lambda seq, a, b: And(seq.lo == 0, seq.hi >= 0))),
        ("headers-in-order", lambda L: _hdrs(L, lambda seq, a, b: _ordered(seq))),
        ("count<=limit", lambda L: _hdrs(L, lambda seq, a, b: seq.hi <= L.fentry.obj(L.self).fields["limit_request_fields"].t)),
        ("underscore-names-privileged", lambda L: _und_inv(L)),
        ("count<=fields-seen", lambda L: _hdrs(L, lambda seq, a, b: seq.hi <= L.nfields.t)),
        ("fields-seen<=limit", lambda L: L.nfields.t <= L.fentry.obj(L.self).fields["limit_request_fields"].t),
    ] + [("hdr:" + nm, (lambda k: (lambda L: _hdrs(L, lambda seq, a, b: _each(seq, a, b, k))))(k))
         for k, nm in enumerate(["bounds", "line-end", "name-is-token", "colon-follows-name", "value-bounds",
                                 "only-OWS-trimmed-left", "value-has-no-NUL-CR-LF"])] + [
    ] + [("hdr:" + nm, (lambda k: (lambda L: _hdrs(L, lambda seq, a, b: _each_extra(seq, a, b, L.fentry.obj(L.self).fields["limit_request_field_size"].t, k))))(k))
         for k, nm in enumerate(EXTRA_NAMES)] + [
        ("headers-before-current-line", lambda L: _hdrs(L, lambda seq, a, b: _before(L, seq))),
        ("count<=consumed", lambda L: _hdrs(L, lambda seq, a, b: seq.hi <= _lines(L).lo)),
        ("underscore-policy", lambda L: _hdrs(L, lambda seq, a, b: _upolicy(L, seq))),
        ("scheme-trusted", lambda L: _scheme_inv(L)),
        ("scheme-http(s)", lambda L: Or(L.ex.equal(L.st.obj(L.self).fields["scheme"], SStr.lit("http"), L.st),
                                        L.ex.equal(L.st.obj(L.self).fields["scheme"], SStr.lit("https"), L.st))),
    ])}


def _ordered(seq):
    j = qvar("j")
    return z3.ForAll([j], Implies(And(0 <= j, j < seq.hi - 1), hdr_windows(seq, j)[0] < hdr_windows(seq, j + 1)[0]))


def _each(seq, a, b, k):
    j = qvar("j")
    return z3.ForAll([j], Implies(And(0 <= j, j < seq.hi), header_fact_list(*hdr_windows(seq, j), a, b)[k][1]))


def enum_scheme(st):
    from .cfgmodel import enum_str
    return enum_str(st, "self.scheme", ["http", "https"])


def _has_underscore(seq, k):
    q = qvar("q")
    nlo, nhi = hdr_windows(seq, k)[0], hdr_windows(seq, k)[1]
    return z3.Exists([q], And(nlo <= q, q < nhi, Tsel(q) == 95))


def _und_inv(L):
    """every collected header whose name has an underscore was let through by forwarder_headers of a trusted peer or by
    header_map == dangerous (same formula as the postcondition, over the loop-head list)"""
    from .cfgmodel import STRSET, CONFIG
    ex, st0 = L.ex, L.fentry
    o = L.st.obj(L.headers)
    if o.sym is None:
        if o.items:
            raise KeyError("concrete non-empty")
        return TRUE
    seq = o.sym
    me = st0.obj(L.self)
    peer = me.fields["peer_addr"]
    fwd = HObj("AbsStrSet", {"tag": "forwarder_headers", "kind": "set"})
    allow = HObj("AbsStrSet", {"tag": "forwarded_allow_ips", "kind": "set"})
    star = STRSET.contains(ex, st0, None, fwd, SStr.lit("*"))
    trusted = TRUE if not isinstance(peer, STuple) else Or(STRSET.contains(ex, st0, None, allow, SStr.lit("*")),
                                                           STRSET.contains(ex, st0, None, allow, peer.items[0]))
    trust = And(Not(ex.truth(st0.locals["from_trailer"], st0)), trusted)
    cfgo = L.st.obj(me.fields["cfg"])
    hm = cfgo.fields.get("header_map") or CONFIG.get_attr(ex, L.st, me.fields["cfg"], cfgo, "header_map")
    k = qvar("k")
    return z3.ForAll([k], Implies(And(0 <= k, k < seq.hi, _has_underscore(seq, k)),
                                  Or(ex.equal(hm, SStr.lit("dangerous"), L.st),
                                     And(trust, Or(star, STRSET.contains(ex, st0, None, fwd, seq.elem(k).items[0]))))))


def _lines(L):
    o = L.st.obj(L.lines)
    if o.sym is None:
        raise KeyError("lines is concrete")
    return o.sym


def _lines_fixed(L):
    cur, ent = _lines(L), L.entry.obj(L.lines).sym
    return And(cur.hi == ent.hi, cur.lo >= ent.lo, cur.lo <= cur.hi, *[x == y for x, y in zip(cur.arrays, ent.arrays)])


def _blk(L):
    tw = t_window(L.fentry.locals["data"])
    return tw[1], tw[2]


def _hdrs(L, f):
    o = L.st.obj(L.headers)
    a, b = _blk(L)
    if o.sym is None:
        if o.items:
            raise KeyError("concrete non-empty")
        return TRUE
    return f(o.sym, a, b)


def _before(L, seq):
    """every collected header starts before the next unread line"""
    lines = _lines(L)
    j = qvar("j")
    nxt = If(lines.lo < lines.hi, lines.elem(lines.lo).single_win().lo, _blk(L)[1] + 2)
    return z3.ForAll([j], Implies(And(0 <= j, j < seq.hi), fcrlf(hdr_windows(seq, j)[0]) + 2 <= nxt))


def _sizes(L, seq):
    lrfs = L.fentry.obj(L.self).fields["limit_request_field_size"].t
    k = qvar("k")
    return Implies(lrfs > 0, z3.ForAll([k], Implies(And(0 <= k, k < seq.hi),
                                                   fcrlf(hdr_windows(seq, k)[0]) + 2 - hdr_windows(seq, k)[0] <= lrfs)))


def _trust(L):
    ex = L.ex
    o0 = L.fentry.obj(L.self)
    peer = o0.fields["peer_addr"]
    cfg = o0.fields["cfg"]
    lst = L.fentry.obj(cfg).fields.get("forwarded_allow_ips")
    if lst is None:
        raise KeyError("cfg.forwarded_allow_ips not read yet")
    star = ex.contains(lst, SStr.lit("*"), L.st)
    listed = TRUE if not isinstance(peer, STuple) else Or(star, ex.contains(lst, peer.items[0], L.st))
    return And(Not(ex.truth(L.fentry.locals["from_trailer"], L.st)), listed)


def _scheme_inv(L):
    ex = L.ex
    changed = Not(ex.equal(L.st.obj(L.self).fields["scheme"], L.fentry.obj(L.self).fields["scheme"], L.st))
    return Implies(changed, _trust(L))


def _upolicy(L, seq):
    ex = L.ex
    cfg = L.st.obj(L.st.obj(L.self).fields["cfg"])
    hm = cfg.fields.get("header_map")
    fwd = cfg.fields.get("forwarder_headers")
    k = qvar("k")
    if hm is None:
        # header_map not read so far: no underscore header can have been kept unprivileged
        dangerous = FALSE
    else:
        dangerous = ex.equal(hm, SStr.lit("dangerous"), L.st)
    if fwd is None:
        priv = lambda k: FALSE
    else:
        star = ex.contains(fwd, SStr.lit("*"), L.st)
        priv = lambda k: And(_trust(L), Or(star, ex.contains(fwd, seq.elem(k).items[0], L.st)))
    return z3.ForAll([k], Implies(And(0 <= k, k < seq.hi, _has_underscore(seq, k)), Or(dangerous, priv(k))))


# ======================================================================================================
# set_body_reader
# ======================================================================================================
inline("gunicorn.http.body:Body.__init__", "gunicorn.http.body:LengthReader.__init__",
       "gunicorn.http.body:ChunkedReader.__init__", "gunicorn.http.body:EOFReader.__init__",
       "gunicorn.http.message:Message.force_close")
from pyvc.strops import decval
from pyvc.values import str_eq


def name_is(seq, k, lit):
    return str_eq(seq.elem(k).items[0], SStr.lit(lit))


def mk_headers(st, name="hdrs"):
    seq = ListShape(HDR_SHAPE).fresh_seq(st, name, view=False)
    return st.alloc(HList(sym=seq)), seq


def reader_of(c, st, slf):
    body = st.obj(slf).fields.get("body")
    if not isinstance(body, Ref):
        return None, None
    rd = st.obj(body).fields.get("reader")
    if not isinstance(rd, Ref):
        return None, None
    return rd, st.obj(rd)


@contract("gunicorn.http.message:Message.set_body_reader", props=("C01",))
class SetBodyReader(Contract):
    def cases(self, env):
        for cn in ("ChunkedReader", "LengthReader", "EOFReader", "Body"):
            env.use_class("gunicorn.http.body", cn)
        st = base_state(env)
        u = mk_unreader(env, st)
        hdrs, seq = mk_headers(st)
        v0, v1 = z3.Int("ver.major"), z3.Int("ver.minor")
        st.assume(0 <= v0, v0 <= 9, 0 <= v1, v1 <= 9)
        slf = mk_request_shell(env, st, u, headers=hdrs, version=STuple([SInt(v0), SInt(v1)]), body=NONE,
                               must_close=SBool(False))
        return [("any-headers", st, {"self": slf}, {})]

    def pre(self, c):
        return []

    def modifies(self, c):
        return [("field", c.a["self"], "must_close", BoolShape())]

    def effects(self, c):
        # call mode: a Body whose reader is one of the three kinds (symbolic choice constrained by the postcondition)
        st = c.st
        c.ex.env.class_models["ReaderChoice"] = READER_CHOICE
        c.ex.env.use_class("gunicorn.http.body", "Body")
        kind, n = fresh_int("reader.kind"), fresh_int("reader.length")
        rd = st.alloc(HObj("ReaderChoice", {"kind": SInt(kind), "length": SInt(n), "unreader": st.obj(c.a["self"]).fields["unreader"]}))
        st.obj(c.a["self"]).fields["body"] = st.alloc(HObj("Body", {"reader": rd, "buf": st.alloc(HBio())}))

    def raises(self, c):
        E = errs(c)
        return [(E.InvalidHeader, None), (E.UnsupportedTransferCoding, None)]

    def post(self, c):
        slf = c.a["self"]
        rd, ro = reader_of(c, c.st, slf)
        if rd is None:
            return [("body-reader-installed", FALSE)]
        seq = c.old.obj(c.old.obj(slf).fields["headers"]).sym
        ver = c.old.obj(slf).fields["version"]
        i, j = qvar("i"), qvar("j")
        inr = lambda k: And(seq.lo <= k, k < seq.hi)
        is_cl = lambda k: name_is(seq, k, "CONTENT-LENGTH")
        is_te = lambda k: name_is(seq, k, "TRANSFER-ENCODING")
        no_cl = z3.ForAll([i], Implies(inr(i), Not(is_cl(i))))
        no_te = z3.ForAll([i], Implies(inr(i), Not(is_te(i))))
        out = [("unreader-untouched", And(u_pos(c, c.st.obj(slf).fields["unreader"]) == u_pos(c, c.old.obj(slf).fields["unreader"], c.old)))]
        if ro.cls == "ReaderChoice":
            kind = ro.fields["kind"].t
            is_ch, is_len, is_eof = kind == 0, kind == 1, kind == 2
            n = ro.fields["length"].t
            out.append(("known-reader", And(kind >= 0, kind <= 2)))
        else:
            is_ch = TRUE if ro.cls == "ChunkedReader" else FALSE
            is_len = TRUE if ro.cls == "LengthReader" else FALSE
            is_eof = TRUE if ro.cls == "EOFReader" else FALSE
            n = ro.fields["length"].t if ro.cls == "LengthReader" else iv(0)
            if ro.cls not in ("ChunkedReader", "LengthReader", "EOFReader"):
                out.append(("known-reader", FALSE))
        vw = lambda k: seq.elem(k).items[1].single_win()
        out += [("chunked=>HTTP/1.1+", Implies(is_ch, c.ex.compare(__import__("ast").GtE(), ver, STuple([SInt(1), SInt(1)]), c.st))),
                ("chunked=>no-Content-Length", Implies(is_ch, no_cl)),
                ("chunked=>Transfer-Encoding-present", Implies(is_ch, Not(no_te))),
                ("chunked=>some-Transfer-Encoding-value-contains-the-word-chunked", Implies(is_ch, te_names_chunked(seq, seq.hi))),
                ("length>=0", Implies(is_len, n >= 0)),
                ("length=>exactly-one-Content-Length-with-that-value",
                 Implies(is_len, z3.Exists([i], And(inr(i), is_cl(i),
                                                    z3.ForAll([j], Implies(And(inr(j), is_cl(j)), j == i)),
                                                    vw(i).lo < vw(i).hi,
                                                    z3.ForAll([j], Implies(And(vw(i).lo <= j, j < vw(i).hi), And(Tsel(j) >= 48, Tsel(j) <= 57))),
                                                    n == decval(T, vw(i).lo, vw(i).hi))))),
                ("RFC9112-6.1:length-framing=>no-Transfer-Encoding", Implies(is_len, no_te)),
                ("no-length=>no-Content-Length", Implies(is_eof, no_cl)),
                ("RFC9112-6.1:no-body=>no-Transfer-Encoding", Implies(is_eof, no_te))]
        return out

    loops = {0: dict(anchor="for (name, value) in self.headers", cands=[
        ("cl-none-iff-no-CL-so-far", lambda L: _cl_inv(L)),
        ("chunked=>TE-seen", lambda L: Implies(L.ex.truth(L.chunked, L.st), _seen(L, "TRANSFER-ENCODING"))),
        ("chunked=>TE-value-says-chunked", lambda L: Implies(L.ex.truth(L.chunked, L.st), te_names_chunked(_hseq(L), _hseq(L).lo + L.loop_index))),
        ("body-unset", lambda L: isinstance(L.st.obj(L.self).fields["body"], SNone)),
    ]), 1: dict(anchor="for val in vals", cands=[
        ("chunked=>TE-seen(inner)", lambda L: L.ex.truth(L.chunked, L.st) == L.ex.truth(L.chunked, L.st)),
        ("chunked=>element-says-chunked(inner)", lambda L: _te_inner_inv(L)),
    ])}


from pyvc.env import ClassModel


class ReaderChoiceModel(ClassModel):
    def isinstance(self, ex, st, v, o, pycls):
        k = o.fields["kind"].t
        return {"ChunkedReader": k == 0, "LengthReader": k == 1, "EOFReader": k == 2}.get(pycls.__name__, False)


READER_CHOICE = ReaderChoiceModel()
inline("gunicorn.http.message:Request.set_body_reader")


CHUNKED = b"chunked"


def _lower(ch):
    return If(And(ch >= 65, ch <= 90), ch + 32, ch)


def chunked_at(a):
    """the seven bytes of the stream at a spell 'chunked' case-insensitively"""
    return And(*[_lower(Tsel(a + k)) == CHUNKED[k] for k in range(7)])


def te_names_chunked(seq, upto):
    """some Transfer-Encoding header among the first `upto` entries has the word 'chunked' inside its value"""
    j, a = qvar("j"), qvar("a")
    vw = lambda k: seq.elem(k).items[1].single_win()
    return z3.Exists([j, a], And(seq.lo <= j, j < upto, name_is(seq, j, "TRANSFER-ENCODING"), vw(j).lo <= a, a + 7 <= vw(j).hi, chunked_at(a)))


def _te_inner_inv(L):
    """inner loop over the elements of ONE Transfer-Encoding value: chunked now => it was already set, or one of the
    elements seen so far is the word 'chunked' inside this header's value"""
    vals = L.ex.sym_seq(L.entry, L.iter)
    val_w = L.fentry_value_window if False else None
    k, = (qvar("k"),)
    value = L.st.locals["value"].single_win()
    w = lambda x: vals.elem(x).single_win()
    here = z3.Exists([k], And(vals.lo <= k, k < vals.lo + L.loop_index, value.lo <= w(k).lo, w(k).lo + 7 <= value.hi, chunked_at(w(k).lo)))
    return Implies(L.ex.truth(L.chunked, L.st), Or(L.ex.truth(L.entry.locals["chunked"], L.entry), here))


def _any_body(*a):
    raise Unsupported("set_body_reader call-mode havoc is provided by effects()")


def _hseq(L):
    return L.fentry.obj(L.fentry.obj(L.self).fields["headers"]).sym


def _seen(L, lit):
    seq = _hseq(L)
    i = qvar("i")
    return z3.Exists([i], And(seq.lo <= i, i < seq.lo + L.loop_index, name_is(seq, i, lit)))


def _cl_inv(L):
    seq = _hseq(L)
    i, j = qvar("i"), qvar("j")
    cl = L.content_length
    rng = lambda k: And(seq.lo <= k, k < seq.lo + L.loop_index)
    none_so_far = z3.ForAll([i], Implies(rng(i), Not(name_is(seq, i, "CONTENT-LENGTH"))))
    if isinstance(cl, SNone):
        return none_so_far
    vw = lambda k: seq.elem(k).items[1].single_win()
    one = lambda w: z3.Exists([i], And(rng(i), name_is(seq, i, "CONTENT-LENGTH"),
                                       z3.ForAll([j], Implies(And(rng(j), name_is(seq, j, "CONTENT-LENGTH")), j == i)),
                                       vw(i).lo == w.lo, vw(i).hi == w.hi))
    from pyvc.values import SOpt
    if isinstance(cl, SOpt):
        w = cl.inner.single_win()
        return If(cl.some, one(w), none_so_far)
    return one(cl.single_win())


# ======================================================================================================
# request line, PROXY line, parse, __init__, should_close
# ======================================================================================================
from pyvc.shapes import AnyStrShape, BoolShape, OptionShape
from pyvc.values import StubV, HDict
from pyvc.env import STUBS, R1
from pyvc import strops as _strops


@contract("gunicorn.util:split_request_uri", props=("C15",))
class SplitRequestUri(Contract):
    """TRUSTED / bounded: thin wrapper over urllib.parse.urlsplit (library code outside the subset). Returns an object with
    text fields path / query / fragment; may raise ValueError. Its input/output relation is checked by harness/uri_diff."""
    trusted = True

    def raises(self, c):
        return [(ValueError, None)]

    def result_shape(self, c):
        st = c.st
        return st.alloc(HObj("SplitResult", {"path": _strops.fresh_str(st, "uri.path", True), "query": _strops.fresh_str(st, "uri.query", True),
                                             "fragment": _strops.fresh_str(st, "uri.fragment", True)}))


SP = 32


def sp_free(lo, hi):
    q = qvar("q")
    return z3.ForAll([q], Implies(And(lo <= q, q < hi), Tsel(q) != SP))


@contract("gunicorn.http.message:Request.parse_request_line", props=("C01", "C15"))
class ParseRequestLine(Contract):
    """preconditions exclude the documented-unsafe switches permit_unconventional_http_method/version, casefold_http_method"""

    def cases(self, env):
        st = base_state(env)
        u = mk_unreader(env, st)
        cfg = mk_cfg(env, st, permit_unconventional_http_method=False, permit_unconventional_http_version=False,
                     casefold_http_method=False)
        a, b = z3.Int("line.lo"), z3.Int("line.hi")
        st.assume(0 <= a, a <= b, b <= N)
        slf = mk_request_shell(env, st, u, cfg=cfg, method=NONE, uri=NONE, path=NONE, query=NONE, fragment=NONE, version=NONE)
        return [("line", st, {"self": slf, "line_bytes": twin(a, b)}, {})]

    def pre(self, c):
        cfg = c.get("self.cfg")
        t = lambda n: c.ex.truth(c.field(cfg, n), c.st)
        return [("unsafe:permit_unconventional_http_method-off", Not(t("permit_unconventional_http_method"))),
                ("unsafe:permit_unconventional_http_version-off", Not(t("permit_unconventional_http_version"))),
                ("unsafe:casefold_http_method-off", Not(t("casefold_http_method"))),
                ("line-is-a-stream-window", TRUE if t_window(c.a["line_bytes"]) is not None else FALSE)]

    def modifies(self, c):
        s = c.a["self"]
        return [("field", s, "method", WinShape(T, True)), ("field", s, "uri", WinShape(T, True)),
                ("field", s, "path", AnyStrShape(True)), ("field", s, "query", AnyStrShape(True)),
                ("field", s, "fragment", AnyStrShape(True)),
                ("field", s, "version", TupleShape([IntShape(), IntShape()]))]

    def raises(self, c):
        E = errs(c)
        return [(E.InvalidRequestLine, None), (E.InvalidRequestMethod, None), (E.InvalidHTTPVersion, None)]

    def post(self, c):
        o = c.st.obj(c.a["self"])
        tw = t_window(c.a["line_bytes"])
        if tw is None or tw[0] == "empty":
            return [("line-window", FALSE)]
        a, b = tw[1], tw[2]
        m, ur, ver = o.fields["method"], o.fields["uri"], o.fields["version"]
        mw = m.single_win() if isinstance(m, SStr) else None
        uw = ur.single_win() if isinstance(ur, SStr) else None
        if mw is None or uw is None or not isinstance(ver, STuple) or len(ver.items) != 2:
            return [("fields-set-from-the-line", FALSE)]
        q = qvar("q")
        v0, v1 = ver.items[0].t, ver.items[1].t
        vs = uw.hi + 1
        lit = b"HTTP/"
        return [
            ("method==T[a:first-SP)", And(mw.lo == a, mw.lo < mw.hi, Tsel(mw.hi) == SP, sp_free(a, mw.hi), mw.hi < b)),
            ("method-is-token", z3.ForAll([q], Implies(And(mw.lo <= q, q < mw.hi), is_tchar(Tsel(q))))),
            ("method-conventional", And(mw.hi - mw.lo >= 3, mw.hi - mw.lo <= 20,
                                        z3.ForAll([q], Implies(And(mw.lo <= q, q < mw.hi), And(Not(And(Tsel(q) >= 97, Tsel(q) <= 122)), Tsel(q) != 35))))),
            ("target==T[after-method:next-SP) non-empty", And(uw.lo == mw.hi + 1, uw.lo < uw.hi, Tsel(uw.hi) == SP, sp_free(uw.lo, uw.hi), uw.hi < b)),
            ("version-text-is-HTTP/d.d", And(b - vs == 8, *([Tsel(vs + k) == lit[k] for k in range(5)] + [
                Tsel(vs + 5) >= 48, Tsel(vs + 5) <= 57, Tsel(vs + 6) == 46, Tsel(vs + 7) >= 48, Tsel(vs + 7) <= 57]))),
            ("version-value", And(v0 == Tsel(vs + 5) - 48, v1 == Tsel(vs + 7) - 48)),
            ("version-is-1.x", v0 == 1),
        ]


# ---- PROXY protocol ------------------------------------------------------------------------------------
def _inet_pton(ex, st, self_v, args, kwargs, node):
    # TRUSTED: address syntax check of the C library; either returns (opaque) or raises OSError
    s2 = st.fork()
    return [ex.res(st, Opaque("packed-addr")), ex.res_exc(s2, SExc(OSError, (), {"errno": SInt(fresh_int("errno"))}))]


STUBS["socket.inet_pton"] = _inet_pton
STUBS["_socket.inet_pton"] = _inet_pton


@contract("gunicorn.http.message:Request.proxy_protocol_access_check", props=("C08",))
class ProxyAccessCheck(Contract):
    exact_raises = True

    def cases(self, env):
        out = []
        for pk in ("tcp", "unix"):
            st = base_state(env)
            u = mk_unreader(env, st)
            cfg = mk_cfg(env, st)
            slf = mk_request_shell(env, st, u, cfg=cfg, peer_addr=mk_peer(st, pk))
            out.append(("peer=" + pk, st, {"self": slf}, {}))
        return out

    def raises(self, c):
        E = errs(c)
        peer = c.st.obj(c.a["self"]).fields["peer_addr"]
        return [(E.ForbiddenProxyRequest, Not(allowed(c, c.st, "proxy_allow_ips", peer)))]


@contract("gunicorn.http.message:Request.parse_proxy_protocol", props=("C08",))
class ParseProxyProtocol(Contract):
    def cases(self, env):
        st = base_state(env)
        u = mk_unreader(env, st)
        cfg = mk_cfg(env, st)
        a, b = z3.Int("pl.lo"), z3.Int("pl.hi")
        st.assume(0 <= a, a <= b, b <= N)
        slf = mk_request_shell(env, st, u, cfg=cfg, proxy_protocol_info=NONE)
        return [("line", st, {"self": slf, "line": twin(a, b, True)}, {})]

    def modifies(self, c):
        return [("field", c.a["self"], "proxy_protocol_info", _PPI)]

    def raises(self, c):
        return [(errs(c).InvalidProxyLine, None)]

    def post(self, c):
        info = c.st.obj(c.a["self"]).fields["proxy_protocol_info"]
        if not isinstance(info, Ref) or not isinstance(c.st.obj(info), HDict):
            return [("info-is-a-dict", FALSE)]
        d = c.st.obj(info).items
        need = {"proxy_protocol", "client_addr", "client_port", "proxy_addr", "proxy_port"}
        if set(d) != need:
            return [("info-has-the-five-fields", FALSE)]
        tw = t_window(c.a["line"])
        a, b = tw[1], tw[2]
        ca, pa = d["client_addr"], d["proxy_addr"]
        wca, wpa = ca.single_win(), pa.single_win()
        ok = wca is not None and wpa is not None and wca.base.eq(T) and wpa.base.eq(T)
        out = [("addresses-are-parts-of-the-line", And(a <= wca.lo, wca.lo <= wca.hi, wca.hi < wpa.lo, wpa.hi <= b) if ok else FALSE),
               ("ports-in-range", And(d["client_port"].t >= 0, d["client_port"].t <= 65535, d["proxy_port"].t >= 0, d["proxy_port"].t <= 65535))]
        return out


class _PPIShape:
    pass


def _mk_ppi(st):
    return st.alloc(HDict({"proxy_protocol": _strops.fresh_str(st, "ppi.proto", True), "client_addr": _strops.fresh_str(st, "ppi.caddr", True),
                           "client_port": SInt(fresh_int("ppi.cport")), "proxy_addr": _strops.fresh_str(st, "ppi.paddr", True),
                           "proxy_port": SInt(fresh_int("ppi.pport"))}))


from pyvc.shapes import Shape as _Shape


class PPIShape(_Shape):
    sorts = ()

    def fresh(self, st, name):
        return _mk_ppi(st)


_PPI = PPIShape()


@contract("gunicorn.http.message:Request.proxy_protocol", props=("C08",))
class ProxyProtocol(Contract):
    def cases(self, env):
        out = []
        for pk in ("tcp", "unix"):
            st = base_state(env)
            u = mk_unreader(env, st)
            cfg = mk_cfg(env, st)
            a, b = z3.Int("pl.lo"), z3.Int("pl.hi")
            st.assume(0 <= a, a <= b, b <= N)
            slf = mk_request_shell(env, st, u, cfg=cfg, peer_addr=mk_peer(st, pk), proxy_protocol_info=NONE,
                                   req_number=SInt(z3.Int("req_number")))
            out.append(("peer=" + pk, st, {"self": slf, "line": twin(a, b, True)}, {}))
        return out

    def modifies(self, c):
        return [("field", c.a["self"], "proxy_protocol_info", OptionShape(_PPI))]

    def result_shape(self, c):
        return BoolShape()

    def raises(self, c):
        E = errs(c)
        return [(E.ForbiddenProxyRequest, None), (E.InvalidProxyLine, None)]

    def post(self, c):
        o1, o0 = c.st.obj(c.a["self"]), c.old.obj(c.a["self"])
        cfg = c.get("self.cfg", c.old)
        res = c.ex.truth(c.result, c.st)
        peer = o0.fields["peer_addr"]
        info1, info0 = o1.fields["proxy_protocol_info"], o0.fields["proxy_protocol_info"]
        changed = Not(c.ex.identical(info1, info0, c.st)) if not isinstance(info1, SOpt_) else info1.some
        line = c.a["line"]
        return [
            ("PROXY-line-accepted-only-when-enabled-first-request-trusted-peer",
             Implies(res, And(c.ex.truth(c.field(cfg, "proxy_protocol", c.old), c.old), o0.fields["req_number"].t == 1,
                              _strops.prefix_holds(line, b"PROXY"), allowed(c, c.old, "proxy_allow_ips", peer)))),
            ("client-address-info-set-only-by-an-accepted-PROXY-line", Implies(changed, res)),
            ("accepted-PROXY-line-sets-the-client-address-info", Implies(res, TRUE if isinstance(info1, Ref) else (info1.some if isinstance(info1, SOpt_) else FALSE))),
        ]


from pyvc.values import SOpt as SOpt_   # noqa: E402


# ======================================================================================================
# Request.parse / Message.__init__ / Request.__init__
# ======================================================================================================
f2crlf_h = z3.Function("f2crlf", I, I)     # same ghost function as in http_chunked (first CRLFCRLF at/after d, or -1)


def crlf2_at(p):
    return And(crlf_at(p), crlf_at(p + 2))


def f2_axiom(d):
    X = f2crlf_h(d)
    p = qvar("p")
    return Or(And(X == -1, z3.ForAll([p], Implies(And(d <= p, p + 4 <= N), Not(crlf2_at(p))))),
              And(d <= X, X + 4 <= N, crlf2_at(X), z3.ForAll([p], Implies(And(d <= p, p < X), Not(crlf2_at(p))))))


def head_end_from(h):
    """stream position right after the header block that starts at h (spec): h+2 if the block is empty, else 4 past the
    first CRLFCRLF"""
    return If(And(h + 2 <= N, crlf_at(h)), h + 2, f2crlf_h(h) + 4)


def mk_parse_self(env, st, u, peer_kind="tcp", with_proxy=True):
    cfg = mk_cfg(env, st, strip_header_spaces=False, permit_obsolete_folding=False, permit_unconventional_http_method=False,
                 permit_unconventional_http_version=False, casefold_http_method=False)
    lrl, lrf, lrfs, mbh = (z3.Int("self.limit_request_line"), z3.Int("self.limit_request_fields"),
                           z3.Int("self.limit_request_field_size"), z3.Int("self.max_buffer_headers"))
    st.assume(0 <= lrl, lrl <= 8190, 1 <= lrf, lrf <= 32768, lrfs >= 0, mbh >= lrf * 2 + 4)
    hdrs = st.alloc(HList([]))
    return mk_request_shell(env, st, u, cfg=cfg, peer_addr=mk_peer(st, peer_kind), limit_request_line=SInt(lrl),
                            limit_request_fields=SInt(lrf), limit_request_field_size=SInt(lrfs), max_buffer_headers=SInt(mbh),
                            req_number=SInt(z3.Int("req_number")), proxy_protocol_info=NONE, scheme=enum_scheme(st),
                            headers=hdrs, method=NONE, uri=NONE, path=NONE, query=NONE, fragment=NONE, version=NONE,
                            trailers=st.alloc(HList([])), body=NONE, must_close=SBool(False))


@contract("gunicorn.http.message:Request.parse", props=("C01", "C06", "C12"))
class RequestParse(Contract):
    weight = 5

    def cases(self, env):
        st = base_state(env)
        u = mk_unreader(env, st)
        slf = mk_parse_self(env, st, u)
        return [("request", st, {"self": slf, "unreader": u}, {})]

    def pre(self, c):
        u = c.a["unreader"]
        o = c.st.obj(c.a["self"])
        cfg = c.get("self.cfg")
        t = lambda n: c.ex.truth(c.field(cfg, n), c.st)
        return list(RI(c, u)) + [
            ("self.unreader-is-the-unreader", TRUE if o.fields["unreader"].oid == u.oid else FALSE),
            ("limits-clamped", And(o.fields["limit_request_line"].t >= 0, o.fields["limit_request_fields"].t >= 1,
                                   o.fields["limit_request_field_size"].t >= 0)),
            ("unsafe-switches-off", Not(Or(t("strip_header_spaces"), t("permit_obsolete_folding"), t("permit_unconventional_http_method"),
                                           t("permit_unconventional_http_version"), t("casefold_http_method"))))]

    def ghost_axioms(self, c):
        p0 = u_pos(c, c.a["unreader"])
        F1 = fcrlf(p0)
        return [fc_axiom(p0), fc_axiom(F1 + 2), f2_axiom(F1 + 2), f2_axiom(fcrlf(F1 + 2) + 2), fc_def(p0, N)]

    def modifies(self, c):
        u = c.a["unreader"]
        s = c.a["self"]
        return [("field", u, "g_sp"), ("obj", c.st.obj(u).fields["buf"], WinShape(T)),
                ("field", s, "headers", ListShape(HDR_SHAPE)), ("field", s, "scheme", AnyStrShape(True)),
                ("field", s, "method", WinShape(T, True)), ("field", s, "uri", WinShape(T, True)),
                ("field", s, "path", AnyStrShape(True)), ("field", s, "query", AnyStrShape(True)),
                ("field", s, "fragment", AnyStrShape(True)), ("field", s, "version", TupleShape([IntShape(), IntShape()])),
                ("field", s, "proxy_protocol_info", OptionShape(_PPI))]

    def result_shape(self, c):
        return WinShape(T)

    def raises(self, c):
        E = errs(c)
        u = c.a["unreader"]
        names = ["NoMoreData", "LimitRequestLine", "LimitRequestHeaders", "InvalidRequestLine", "InvalidRequestMethod",
                 "InvalidHTTPVersion", "InvalidHeader", "InvalidHeaderName", "ObsoleteFolding", "InvalidSchemeHeaders",
                 "ForbiddenProxyRequest", "InvalidProxyLine"]
        return [(StopIteration, u_pos(c, u) == N)] + [(getattr(E, n), None) for n in names] + [oserror(c)]

    def exc_post(self, c):
        return list(RI(c, c.a["unreader"]))

    def post(self, c):
        u = c.a["unreader"]
        s1, s0 = c.st.obj(c.a["self"]), c.old.obj(c.a["self"])
        p0 = u_pos(c, u, c.old)
        pos1 = u_pos(c, u)
        F1 = fcrlf(p0)
        F2 = fcrlf(F1 + 2)
        cfg = c.get("self.cfg", c.old)
        peer = s0.fields["peer_addr"]
        proxy_ok = And(c.ex.truth(c.field(cfg, "proxy_protocol", c.old), c.old), s0.fields["req_number"].t == 1,
                       allowed(c, c.old, "proxy_allow_ips", peer))
        mbh = s0.fields["max_buffer_headers"].t
        ret = c.result
        hdrs = c.st.obj(s1.fields["headers"])
        m = s1.fields["method"]
        mw = m.single_win() if isinstance(m, SStr) else None

        info = s1.fields["proxy_protocol_info"]
        if isinstance(info, SOpt_):
            took_proxy = info.some
        elif isinstance(info, SNone):
            took_proxy = FALSE
        else:
            took_proxy = TRUE
        rl = If(took_proxy, F1 + 2, p0)          # where the request line starts
        h = If(took_proxy, F2 + 2, F1 + 2)       # where the header block starts
        done = And(h + 2 <= N, crlf_at(h))
        X = f2crlf_h(h)
        out = list(RI(c, u)) + [
            ("request-line-found", F1 >= 0),
            ("PROXY-line-only-when-enabled-first-request-trusted-peer", Implies(took_proxy, And(proxy_ok, F2 >= 0))),
            ("method-starts-at-the-request-line", mw.lo == rl if mw is not None else FALSE),
            ("empty-header-block:position-after-CRLF", Implies(done, And(pos1 == h + 2, ret.length() == 0))),
            ("header-block-ends-at-first-CRLFCRLF", Implies(Not(done), X >= 0)),
            ("residue==T[head-end:pos')", Implies(Not(done), And(is_T(ret, X + 4, pos1), pos1 == u_sp(c, u)))),
            ("header-block-within-buffer-limit", Implies(Not(done), X + 3 - h <= mbh)),
        ]
        if hdrs.sym is not None:
            out.append(("headers-are-the-field-lines-of-the-block", Implies(Not(done), headers_wf(hdrs.sym, h, X))))
            out.append(("no-headers-when-block-empty", Implies(done, hdrs.sym.length() == 0)))
        elif hdrs.items:
            out.append(("headers-shape", FALSE))
        return out

    loops = {0: dict(anchor="while True", cands=[
        ("RI(unreader)", lambda L: RI_and(_C(L), L.unreader, L.st)),
        ("unreader-buffer-empty", lambda L: u_buf(_C(L), L.unreader, L.st).length() == 0),
        ("data==buf==T[h:pos)", lambda L: And(is_T(L.data, _h(L), u_pos(_C(L), L.unreader, L.st)),
                                              is_T(L.st.obj(L.buf).content, _h(L), u_pos(_C(L), L.unreader, L.st)))),
        ("pos>=h", lambda L: u_pos(_C(L), L.unreader, L.st) >= _h(L)),
    ])}


def _h(L):
    """start of the header block = start of the buffer at loop entry"""
    pos = u_pos(_C(L), L.unreader, L.entry)
    return pos - L.entry.obj(L.entry.locals["buf"]).content.length()


# ======================================================================================================
# Message.__init__ (limit clamping, parse -> unread -> set_body_reader), Request.__init__, should_close
# ======================================================================================================
inline("gunicorn.http.message:Request.__init__")    # Request.__init__ only sets fields and calls Message.__init__


def mk_fresh_request(env, st, u, peer_kind="tcp"):
    env.use_class("gunicorn.http.message", "Request")
    cfg = mk_cfg(env, st, strip_header_spaces=False, permit_obsolete_folding=False, permit_unconventional_http_method=False,
                 permit_unconventional_http_version=False, casefold_http_method=False)
    lrl = z3.Int("self.limit_request_line")
    st.assume(0 <= lrl, lrl <= 8190)
    slf = st.alloc(HObj("Request", {"method": NONE, "uri": NONE, "path": NONE, "query": NONE, "fragment": NONE,
                                    "limit_request_line": SInt(lrl), "req_number": SInt(z3.Int("req_number")),
                                    "proxy_protocol_info": NONE}))
    return slf, cfg


@contract("gunicorn.http.message:Message.__init__", props=("C01", "C06", "C12"))
class MessageInit(Contract):
    """order parse -> unread(unused) -> set_body_reader; header limits clamped; after it the unreader stands exactly at the
    end of the head (first body byte)"""

    def cases(self, env):
        st = base_state(env)
        u = mk_unreader(env, st)
        slf, cfg = mk_fresh_request(env, st, u)
        return [("init", st, {"self": slf, "cfg": cfg, "unreader": u, "peer_addr": mk_peer(st, "tcp")}, {})]

    def pre(self, c):
        cfg = c.a["cfg"]
        t = lambda n: c.ex.truth(c.field(cfg, n), c.st)
        return list(RI(c, c.a["unreader"])) + [
            ("unsafe-switches-off", Not(Or(t("strip_header_spaces"), t("permit_obsolete_folding"), t("permit_unconventional_http_method"),
                                           t("permit_unconventional_http_version"), t("casefold_http_method")))),
            ("request-line-limit-clamped", And(c.st.obj(c.a["self"]).fields["limit_request_line"].t >= 0))]

    def ghost_axioms(self, c):
        p0 = u_pos(c, c.a["unreader"])
        F1 = fcrlf(p0)
        return [fc_axiom(p0), fc_axiom(F1 + 2), f2_axiom(F1 + 2), f2_axiom(fcrlf(F1 + 2) + 2)]

    def raises(self, c):
        return RequestParse.raises(RequestParse(), Ctx_unreader(c)) + [(errs(c).UnsupportedTransferCoding, None)]

    def exc_post(self, c):
        return list(RI(c, c.a["unreader"]))

    def post(self, c):
        u = c.a["unreader"]
        o = c.st.obj(c.a["self"])
        p0 = u_pos(c, u, c.old)
        pos1 = u_pos(c, u)
        F1 = fcrlf(p0)
        F2 = fcrlf(F1 + 2)
        info = o.fields.get("proxy_protocol_info", NONE)
        took_proxy = info.some if isinstance(info, SOpt_) else (FALSE if isinstance(info, SNone) else TRUE)
        h = If(took_proxy, F2 + 2, F1 + 2)
        lrf, lrfs, mbh = o.fields["limit_request_fields"].t, o.fields["limit_request_field_size"].t, o.fields["max_buffer_headers"].t
        rd, ro = reader_of(c, c.st, c.a["self"])
        return list(RI(c, u)) + [
            ("unreader-stands-at-the-end-of-the-head", pos1 == head_end_from(h)),
            ("field-count-limit-clamped-to-1..32768", And(lrf >= 1, lrf <= 32768)),
            ("field-size-limit>=0", lrfs >= 0),
            ("buffer-limit-covers-every-head-within-the-limits", mbh == lrf * (If(lrfs == 0, iv(8190), lrfs) + 2) + 4),
            ("body-reader-installed", TRUE if rd is not None else FALSE),
        ]


def Ctx_unreader(c):
    return c


@contract("gunicorn.http.message:Message.should_close", props=("C02",))
class ShouldClose(Contract):
    def cases(self, env):
        st = base_state(env)
        u = mk_unreader(env, st)
        hdrs, seq = mk_headers(st)
        v0, v1 = z3.Int("ver.major"), z3.Int("ver.minor")
        st.assume(0 <= v0, v0 <= 9, 0 <= v1, v1 <= 9)
        slf = mk_request_shell(env, st, u, headers=hdrs, version=STuple([SInt(v0), SInt(v1)]), must_close=SBool(z3.Bool("must_close")))
        return [("any", st, {"self": slf}, {})]

    def result_shape(self, c):
        return BoolShape()

    def post(self, c):
        o = c.st.obj(c.a["self"])
        seq = c.st.obj(o.fields["headers"]).sym
        ver = o.fields["version"]
        res = c.ex.truth(c.result, c.st)
        i, j = qvar("i"), qvar("j")
        inr = lambda k: And(seq.lo <= k, k < seq.hi)
        is_conn = lambda k: name_is(seq, k, "CONNECTION")
        none = z3.ForAll([i], Implies(inr(i), Not(is_conn(i))))
        old10 = Or(ver.items[0].t < 1, And(ver.items[0].t == 1, ver.items[1].t <= 0))

        def val_is(k, lit):
            v = seq.elem(k).items[1]
            rs = _strops.m_lower(c.ex, c.st, v, [])
            lv = rs[0].v
            stripped = _strops.strip_generic(c.ex, c.st, lv, [(9, 9), (32, 32)], True, True)
            return str_eq(stripped, SStr.lit(lit))
        k = z3.Int("k!first_connection")
        first = And(inr(k), is_conn(k), z3.ForAll([j], Implies(And(inr(j), j < k), Not(is_conn(j)))))
        mc = c.ex.truth(o.fields["must_close"], c.st)
        return [("must_close=>close", Implies(mc, res)),
                ("no-Connection-header=>HTTP/1.0-closes-1.1-persists", Implies(And(Not(mc), none), res == old10)),
                ("first-Connection-header-decides", Implies(And(Not(mc), first),
                                                            If(val_is(k, "close"), res, If(val_is(k, "keep-alive"), Not(res), res == old10))))]

    loops = {0: dict(anchor="for (h, v) in self.headers", cands=[
        ("no-Connection-before", lambda L: _no_conn_before(L)),
    ])}


def _no_conn_before(L):
    seq = L.fentry.obj(L.fentry.obj(L.self).fields["headers"]).sym
    i = qvar("i")
    return z3.ForAll([i], Implies(And(seq.lo <= i, i < seq.lo + L.loop_index), Not(name_is(seq, i, "CONNECTION"))))
