"""Worker life-cycle contracts: Worker.init_process (C20 ordering, C03 boot flag), Worker.handle_exit / handle_quit /
handle_abort (C04), Worker.notify (C11)."""
import z3

from pyvc.contracts import contract, Contract, inline
from pyvc.env import STUBS, R1, ClassModel
from pyvc.smt import And, Or, Not, Implies, If, iv, fresh_int, fresh_bool, I, B, TRUE, FALSE
from pyvc.values import SInt, SBool, SNone, NONE, SStr, STuple, Ref, HObj, HList, HDict, SExc, Opaque, Unsupported, StubV
from pyvc.state import State
from pyvc import strops
from .creds import mk_creds, IDS, groups_of
from .workers import mk_worker, AppError

inline("gunicorn.workers.base:Worker.load_wsgi")


def ev(st, *e):
    st.ghost["events"] = list(st.ghost.get("events", [])) + [e]


class WApp(ClassModel):
    """the application object of a worker: wsgi() IS the first application code the worker runs (import of the app module);
    it may raise anything. Ghost: the credentials the process has at that moment."""

    def call(self, ex, st, self_v, meth, args, kwargs, node):
        if meth == "wsgi":
            ev(st, "load", {n: st.ghost[n] for n in IDS + ("groups",)})
            bad, syn = st.fork(), st.fork()
            return [ex.res(st, Opaque("wsgi-callable")), ex.res_exc(bad, SExc(AppError)), ex.res_exc(syn, SExc(SyntaxError))]
        return None


def _hook_may_raise(name):
    def f(ex, st, self_v, args, kwargs, node):
        ev(st, name, None)
        bad = st.fork()
        return [ex.res(st, NONE), ex.res_exc(bad, SExc(AppError))]
    return f


def _noop(ex, st, self_v, args, kwargs, node):
    return R1(ex, st, NONE)


def _pipe(ex, st, self_v, args, kwargs, node):
    bad = st.fork()
    return [ex.res(st, STuple([SInt(fresh_int("pipe.r")), SInt(fresh_int("pipe.w"))])), ex.res_exc(bad, SExc(OSError, (), {"errno": SInt(24)}))]


class TmpModel(ClassModel):
    def call(self, ex, st, self_v, meth, args, kwargs, node):
        if meth == "fileno":
            return [ex.res(st, SInt(z3.Int("tmp.fd")))]
        if meth == "notify":
            st.ghost["notifies"] = st.ghost.get("notifies", iv(0)) + 1
            return [ex.res(st, NONE)]
        if meth == "close":
            return [ex.res(st, NONE)]
        return None


@contract("abstract:WorkerRun.__call__", props=("C03", "C20"))
class WorkerRun(Contract):
    """self.run(): the worker main loop of the concrete class (its pieces are verified separately)"""
    trusted = True
    params = ["self"]

    def raises(self, c):
        return [(AppError, None), (SystemExit, None)]


def _run_stub(ex, st, self_v, args, kwargs, node):
    o = st.obj(self_v)
    ev(st, "run", o.fields.get("booted"))
    bad = st.fork()
    return [ex.res(st, NONE), ex.res_exc(bad, SExc(SystemExit, (SInt(0),), {"code": SInt(0)}))]


@contract("gunicorn.workers.base:Worker.init_process", props=("C20", "C03"))
class InitProcess(Contract):
    """(C20) the application is loaded only after the process has exactly the configured ids;
    (C03) `booted` becomes true only after the application is loaded AND post_worker_init returned, right before run():
    any failure earlier leaves booted false, which is what makes spawn_worker exit with WORKER_BOOT_ERROR"""

    def cases(self, env):
        out = []
        for ig in (False, True):
            st = State()
            mk_creds(st, privileged=True)
            env.class_models["WApp"] = WApp()
            env.class_models["WorkerTmpModel"] = TmpModel()
            for n in ("gunicorn.util.seed", "gunicorn.util.set_non_blocking", "gunicorn.util.close_on_exec"):
                STUBS[n] = _noop
            STUBS["os.pipe"] = _pipe
            STUBS["posix.pipe"] = _pipe
            STUBS["Worker.run"] = _run_stub
            w, log = mk_worker(env, st, "Worker", "gunicorn.workers.base",
                               app=st.alloc(HObj("WApp", {})), tmp=st.alloc(HObj("WorkerTmpModel", {})),
                               sockets=st.alloc(HList([Opaque("lsock0"), Opaque("lsock1")])), booted=SBool(False), reloader=NONE,
                               PIPE=st.alloc(HList([])))
            o = st.obj(w)
            o.fields["run"] = StubV("Worker.run", w)
            cfg = st.obj(o.fields["cfg"])
            cfg.fields.update({"env": st.alloc(HDict({})), "reload": SBool(False), "initgroups": SBool(ig),
                               "post_worker_init": StubV("hook.post_worker_init")})
            STUBS["hook.post_worker_init"] = _hook_may_raise("post_worker_init")
            st.ghost["events"] = []
            out.append(("initgroups=%s" % ig, st, {"self": w}, {"ig": ig}))
        return out

    def pre(self, c):
        g = c.st.ghost
        return [("fresh-fork-of-a-privileged-master", And(g["euid"] == 0, g["suid"] == g["ruid"], g["sgid"] == g["rgid"]))]

    def raises(self, c):
        return [(Exception, None), (SystemExit, None)]

    def _order(self, c):
        st = c.st
        evs = st.ghost.get("events", [])
        names = [e[0] for e in evs]
        out = []
        uid, gid = z3.Int("cfg.uid"), z3.Int("cfg.gid")
        loads = [e for e in evs if e[0] == "load"]
        if loads:
            cr = loads[0][1]
            out.append(("application-code-first-runs-with-exactly-the-configured-ids",
                        And(cr["ruid"] == uid, cr["euid"] == uid, cr["suid"] == uid, cr["rgid"] == gid, cr["egid"] == gid, cr["sgid"] == gid)))
        out.append(("application-loaded-at-most-once", TRUE if len(loads) <= 1 else FALSE))
        runs = [e for e in evs if e[0] == "run"]
        out.append(("run-entered-at-most-once", TRUE if len(runs) <= 1 else FALSE))
        if runs:
            b = runs[0][1]
            out.append(("run-is-entered-with-booted-true", b.t if isinstance(b, SBool) else FALSE))
            out.append(("run-only-after-load-and-post_worker_init", TRUE if ("load" in names and "post_worker_init" in names and
                        names.index("load") < names.index("post_worker_init") < names.index("run")) else FALSE))
            out.append(("signal-handlers-installed-before-the-application-loads", TRUE if ("init_signals" in names and names.index("init_signals") < names.index("load")) else FALSE))
        else:
            b = st.obj(c.a["self"]).fields.get("booted")
            out.append(("never-booted-unless-run-was-entered", Not(b.t) if isinstance(b, SBool) else FALSE))
        return out

    def exc_post(self, c):
        if c.mode == "call":
            return []
        return self._order(c)

    def post(self, c):
        if c.mode == "call":
            return []
        evs = [e[0] for e in c.st.ghost.get("events", [])]
        return self._order(c) + [("returns-only-after-run", TRUE if "run" in evs else FALSE)]

    loops = {0: dict(anchor="for k, v in self.cfg.env.items()", cands=[]),
             1: dict(anchor="for p in self.PIPE", cands=[]),
             2: dict(anchor="for s in self.sockets", cands=[])}


# ======================================================================================================
# worker signal handlers (C04)
# ======================================================================================================
def _sleep(ex, st, self_v, args, kwargs, node):
    return R1(ex, st, NONE)


STUBS["time.sleep"] = _sleep


class _WorkerSig(Contract):
    hook = None
    code = None

    def cases(self, env):
        st = State()
        w, log = mk_worker(env, st, "Worker", "gunicorn.workers.base")
        cfg = st.obj(st.obj(w).fields["cfg"])
        for h in ("worker_int", "worker_abort"):
            cfg.fields[h] = StubV("hook." + h)
            STUBS["hook." + h] = _hook_may_raise(h)
        st.ghost["events"] = []
        return [("sig", st, {"self": w, "sig": SInt(z3.Int("signo")), "frame": Opaque("frame")}, {})]

    def raises(self, c):
        return [(SystemExit, None), (AppError, None)]

    def exc_post(self, c):
        o = c.st.obj(c.a["self"])
        out = [("worker-marked-not-alive", Not(c.ex.truth(o.fields["alive"], c.st)))]
        if c.exc.cls is SystemExit:
            code = c.exc.fields.get("code")
            out.append(("exit-status", code.t == self.code if isinstance(code, SInt) else FALSE))
            out.append(("server-hook-ran-first", TRUE if [e[0] for e in c.st.ghost["events"]] == [self.hook] else FALSE))
        return out

    def post(self, c):
        return [("never-returns", FALSE)]


@contract("gunicorn.workers.base:Worker.handle_exit", props=("C04", "C10"))
class WHandleExit(Contract):
    """TERM in a worker: only clears `alive`; raises nothing, so whatever the worker was doing (a request) continues"""

    def cases(self, env):
        st = State()
        w, log = mk_worker(env, st, "Worker", "gunicorn.workers.base")
        return [("term", st, {"self": w, "sig": SInt(z3.Int("signo")), "frame": Opaque("frame")}, {})]

    def raises(self, c):
        return []

    def modifies(self, c):
        return [("field", c.a["self"], "alive")]

    def post(self, c):
        return [("alive-cleared", Not(c.ex.truth(c.st.obj(c.a["self"]).fields["alive"], c.st)))]


@contract("gunicorn.workers.base:Worker.handle_quit", props=("C04",))
class WHandleQuit(_WorkerSig):
    hook, code = "worker_int", 0


@contract("gunicorn.workers.base:Worker.handle_abort", props=("C11",))
class WHandleAbort(_WorkerSig):
    hook, code = "worker_abort", 1


# ======================================================================================================
# sync worker loops (C11 heartbeat discipline, C04/C10 loop exit)
# ======================================================================================================
inline("gunicorn.workers.base:Worker.notify", "gunicorn.workers.sync:SyncWorker.is_parent_alive")


class HBTmp(TmpModel):
    def call(self, ex, st, self_v, meth, args, kwargs, node):
        if meth == "notify":
            st.ghost["hb_fresh"] = TRUE
            st.ghost["notifies"] = st.ghost["notifies"] + 1
            return [ex.res(st, NONE)]
        return TmpModel.call(self, ex, st, self_v, meth, args, kwargs, node)


def _blocking_point(st, what):
    """a call that may take arbitrarily long (accept+handle of a request, select): record whether a heartbeat was written
    since the previous one, then mark the heartbeat stale"""
    st.ghost["hb_ok"] = And(st.ghost["hb_ok"], st.ghost["hb_fresh"])
    st.ghost["blocks"] = st.ghost["blocks"] + 1
    st.ghost["hb_fresh"] = FALSE


def errno_exc(code):
    return SExc(OSError, (SInt(code),), {"errno": SInt(code), "args": STuple([SInt(code)])})


class ListenerModel(ClassModel):
    def call(self, ex, st, self_v, meth, args, kwargs, node):
        o = st.obj(self_v)
        if meth == "accept":
            bad = st.fork()
            e = z3.Int("accept.errno")
            client = st.alloc(HObj("ClientSock", {"g_blocking": NONE, "g_id": SInt(fresh_int("client"))}))
            st.ghost["accepted"] = list(st.ghost.get("accepted", [])) + [client]
            return [ex.res(st, STuple([client, Opaque("peer-address")])),
                    ex.res_exc(bad, SExc(OSError, (SInt(e),), {"errno": SInt(e), "args": STuple([SInt(e)])}))]
        if meth == "setblocking":
            o.fields["g_blocking"] = args[0]
            return [ex.res(st, NONE)]
        return None


def _handle_stub(ex, st, self_v, args, kwargs, node):
    o = st.obj(self_v)
    st.ghost["handled"] = list(st.ghost.get("handled", [])) + [args[1]]
    o.fields["alive"] = SBool(fresh_bool("alive.after.handle"))
    o.fields["nr"] = SInt(fresh_int("nr.after.handle"))
    return R1(ex, st, NONE)          # SyncWorker.handle raises nothing (its own contract, C05)


def mk_sync(env, st, nsock=1):
    env.class_models["WorkerTmpModel"] = HBTmp()
    env.class_models["ListenerSock"] = ListenerModel()
    env.class_models["ClientSock"] = ListenerModel()
    STUBS["gunicorn.util.close_on_exec"] = _noop
    STUBS["SyncWorker.handle"] = _handle_stub
    socks = [st.alloc(HObj("ListenerSock", {"g_blocking": NONE, "g_id": SInt(k)})) for k in range(nsock)]
    w, log = mk_worker(env, st, "SyncWorker", "gunicorn.workers.sync", tmp=st.alloc(HObj("WorkerTmpModel", {})),
                       sockets=st.alloc(HList(socks)), PIPE=st.alloc(HList([SInt(z3.Int("pipe.r")), SInt(z3.Int("pipe.w"))])),
                       ppid=SInt(z3.Int("self.ppid")), timeout=SInt(z3.Int("self.timeout")))
    o = st.obj(w)
    o.fields["wait_fds"] = st.alloc(HList(socks + [SInt(z3.Int("pipe.r"))]))
    o.fields["handle"] = StubV("SyncWorker.handle", w)
    st.ghost["hb_fresh"] = z3.Bool("hb_fresh0")
    st.ghost["notifies"] = z3.Int("notifies0")
    st.ghost["hb_ok"] = TRUE
    st.ghost["blocks"] = z3.Int("blocks0")
    st.ghost["accepted"] = []
    st.ghost["handled"] = []
    return w, socks


@contract("gunicorn.workers.sync:SyncWorker.accept", props=("C10", "C11", "C04"))
class SyncAccept(Contract):
    """an accepted connection is made blocking and handed to handle() exactly once; accept errors propagate untouched.
    Ghost: accept+handle is a blocking point for the heartbeat discipline (call.pre in the loops: heartbeat fresh)"""

    def cases(self, env):
        st = State()
        w, socks = mk_sync(env, st)
        return [("accept", st, {"self": w, "listener": socks[0]}, {})]

    def pre(self, c):
        return [("heartbeat-written-since-the-previous-blocking-point", c.st.ghost["hb_fresh"])]

    def modifies(self, c):
        return [("field", c.a["self"], "alive"), ("field", c.a["self"], "nr"), ("ghost", "notifies")]

    def effects(self, c):
        _blocking_point(c.st, "accept")

    def raises(self, c):
        return [(OSError, None, lambda c2: {"errno": SInt(fresh_int("errno"))})]

    def exc_post(self, c):
        if c.mode == "call":
            return []
        return [("nothing-handled-when-accept-fails", TRUE if not c.st.ghost["handled"] else FALSE)]

    def post(self, c):
        if c.mode == "call":
            return [("heartbeat-count-only-grows", c.st.ghost["notifies"] >= c.old.ghost["notifies"])]
        acc, hnd = c.st.ghost["accepted"], c.st.ghost["handled"]
        ok = len(acc) == 1 and len(hnd) == 1 and isinstance(hnd[0], Ref) and hnd[0].oid == acc[0].oid
        blk = c.st.obj(acc[0]).fields["g_blocking"] if acc else NONE
        return [("the-accepted-connection-is-handled-exactly-once", TRUE if ok else FALSE),
                ("client-socket-made-blocking", (blk.t == 1) if isinstance(blk, SInt) else FALSE)]


def _select(ex, st, self_v, args, kwargs, node):
    """select.select(rlist, [], [], timeout): blocks up to `timeout`; returns (ready, [], []) with ready a sub-list of rlist
    (possibly empty), or fails with EINTR / EBADF / another errno"""
    _blocking_point(st, "select")
    if "select_timeouts" in st.ghost:
        st.ghost["select_timeouts"] = list(st.ghost["select_timeouts"]) + [args[3]]
    rl = ex.concrete_items(st, args[0])
    outs = []
    empty = st.fork()
    outs.append(ex.res(empty, STuple([empty.alloc(HList([])), empty.alloc(HList([])), empty.alloc(HList([]))])))
    for sub in ([rl[0]], [rl[-1]], list(rl)):
        s2 = st.fork()
        outs.append(ex.res(s2, STuple([s2.alloc(HList(list(sub))), s2.alloc(HList([])), s2.alloc(HList([]))])))
    e = z3.Int("select.errno")
    outs.append(ex.res_exc(st, SExc(OSError, (SInt(e),), {"errno": SInt(e), "args": STuple([SInt(e)])})))
    return outs


def _os_read(ex, st, self_v, args, kwargs, node):
    return R1(ex, st, SStr.lit(b"1"))


@contract("gunicorn.workers.sync:SyncWorker.wait", props=("C11",))
class SyncWait(Contract):
    """every wait writes the heartbeat BEFORE it blocks in select, and blocks for at most the timeout it was given"""

    def cases(self, env):
        STUBS["select.select"] = _select
        STUBS["os.read"] = _os_read
        STUBS["posix.read"] = _os_read
        st = State()
        w, socks = mk_sync(env, st, nsock=2)
        st.ghost["select_timeouts"] = []
        return [("wait", st, {"self": w, "timeout": SInt(z3.Int("timeout"))}, {})]

    def modifies(self, c):
        return [("ghost", "notifies")]

    def effects(self, c):
        _blocking_point(c.st, "select")
        c.st.ghost["hb_fresh"] = FALSE

    def raises(self, c):
        live = c.ex.env.repo.live("gunicorn.workers.sync")
        return [(live.StopWaiting, None), (OSError, None, lambda c2: {"errno": SInt(fresh_int("errno")), "args": STuple([SInt(fresh_int("errno"))])})]

    def result_shape(self, c):
        from pyvc.shapes import OptionShape, ListShape, IntShape
        return Opaque("ready-list-or-None")

    def _hb(self, c):
        to = c.st.ghost.get("select_timeouts", [])
        return [("heartbeat-written-before-blocking-in-select", And(c.st.ghost["hb_ok"], c.st.ghost["blocks"] == c.old.ghost["blocks"] + 1)),
                ("exactly-one-heartbeat", c.st.ghost["notifies"] == c.old.ghost["notifies"] + 1),
                ("blocks-at-most-the-given-timeout", TRUE if (len(to) == 1 and isinstance(to[0], SInt) and to[0].t.eq(z3.Int("timeout"))) else FALSE)]

    def exc_post(self, c):
        return [] if c.mode == "call" else self._hb(c)

    def post(self, c):
        if c.mode == "call":
            return [("one-heartbeat", c.st.ghost["notifies"] == c.old.ghost["notifies"] + 1)]
        return self._hb(c)


class _SyncLoop(Contract):
    """C11: between any two blocking points (accept+handle of a connection, select) the heartbeat file is touched, so a worker
    that keeps making progress - however busy - is never older than one request/one wait;  C04/C10: the loop is left as soon
    as `alive` is false at the top of an iteration (no further accept)"""
    inline_callees = ("gunicorn.workers.sync:SyncWorker.wait",)
    nsock = 1

    def cases(self, env):
        STUBS["select.select"] = _select
        STUBS["os.read"] = _os_read
        STUBS["posix.read"] = _os_read
        st = State()
        w, socks = mk_sync(env, st, nsock=self.nsock)
        st.ghost["os.environ"] = None
        return [("loop", st, {"self": w, "timeout": SInt(z3.Int("timeout"))}, {})]

    def raises(self, c):
        return [(OSError, None)]

    def exc_post(self, c):
        return [("heartbeat-before-every-blocking-point", c.st.ghost["hb_ok"])]

    def post(self, c):
        return [("heartbeat-before-every-blocking-point", c.st.ghost["hb_ok"])]


@contract("gunicorn.workers.sync:SyncWorker.run_for_one", props=("C11", "C04", "C10"))
class RunForOne(_SyncLoop):
    loops = {0: dict(anchor="while self.alive", cands=[
        ("hb_ok", lambda L: L.st.ghost["hb_ok"]),
    ])}


@contract("gunicorn.workers.sync:SyncWorker.run_for_multiple", props=("C11", "C04", "C10"))
class RunForMultiple(_SyncLoop):
    nsock = 2
    loops = {0: dict(anchor="while self.alive", cands=[("hb_ok", lambda L: L.st.ghost["hb_ok"])]),
             1: dict(anchor="for listener in ready", cands=[("hb_ok", lambda L: L.st.ghost["hb_ok"])])}


def _getppid_stub(ex, st, self_v, args, kwargs, node):
    return R1(ex, st, SInt(z3.Int("ppid.now")))


# ======================================================================================================
# Worker.init_signals (C04 mechanism: TERM only clears `alive` and does not interrupt system calls)
# ======================================================================================================
import signal as _sig


def _signal_signal(ex, st, self_v, args, kwargs, node):
    sig, handler = args
    from pyvc.smt import const_int
    k = const_int(sig.t)
    if k is None:
        raise Unsupported("signal.signal with a symbolic signal number")
    d = dict(st.ghost.get("handlers", {}))
    d[k] = handler
    st.ghost["handlers"] = d
    return R1(ex, st, NONE)


def _siginterrupt(ex, st, self_v, args, kwargs, node):
    from pyvc.smt import const_int
    d = dict(st.ghost.get("siginterrupt", {}))
    d[const_int(args[0].t)] = args[1]
    st.ghost["siginterrupt"] = d
    return R1(ex, st, NONE)


def _set_wakeup_fd(ex, st, self_v, args, kwargs, node):
    st.ghost["wakeup_fd"] = args[0]
    return R1(ex, st, SInt(-1))


def _handler_name(h):
    from pyvc.values import FuncV
    if isinstance(h, FuncV):
        return h.qual.split(".")[-1]
    if isinstance(h, StubV):
        return h.name
    return repr(h)


class _WorkerInitSignalsReal(Contract):
    pass


@contract("gunicorn.workers.base:Worker.init_signals", props=("C04", "C10", "C11"))
class WInitSignals(Contract):
    """TERM -> handle_exit (only clears `alive`), QUIT / INT -> handle_quit, ABRT -> handle_abort, USR1 -> handle_usr1,
    WINCH -> handle_winch; TERM and USR1 do NOT interrupt system calls (a request being read / written is not cut short);
    every other signal of Worker.SIGNALS is reset to its default; the wake-up descriptor is the write end of the pipe"""

    def cases(self, env):
        st = State()
        w, log = mk_worker(env, st, "Worker", "gunicorn.workers.base", PIPE=st.alloc(HList([SInt(z3.Int("pipe.r")), SInt(z3.Int("pipe.w"))])))
        STUBS.update({"signal.signal": _signal_signal, "signal.siginterrupt": _siginterrupt, "signal.set_wakeup_fd": _set_wakeup_fd})
        st.ghost.update({"handlers": {}, "siginterrupt": {}, "wakeup_fd": None})
        return [("init", st, {"self": w}, {})]

    def effects(self, c):
        if "events" in c.st.ghost:
            ev(c.st, "init_signals", None)

    def raises(self, c):
        return []

    def post(self, c):
        if c.mode == "call":
            return []
        g = c.st.ghost
        h = {k: _handler_name(v) for k, v in g["handlers"].items()}
        want = {int(_sig.SIGTERM): "handle_exit", int(_sig.SIGQUIT): "handle_quit", int(_sig.SIGINT): "handle_quit",
                int(_sig.SIGABRT): "handle_abort", int(_sig.SIGUSR1): "handle_usr1", int(_sig.SIGWINCH): "handle_winch"}
        si = g["siginterrupt"]
        noint = lambda s: s in si and isinstance(si[s], SBool) and z3.is_false(si[s].t)
        wf = g["wakeup_fd"]
        return [("handlers-installed-as-documented", TRUE if all(h.get(s) == n for s, n in want.items()) else FALSE),
                ("TERM-and-USR1-do-not-interrupt-system-calls", TRUE if (noint(int(_sig.SIGTERM)) and noint(int(_sig.SIGUSR1))) else FALSE),
                ("no-other-signal-is-made-non-interrupting", TRUE if set(si) == {int(_sig.SIGTERM), int(_sig.SIGUSR1)} else FALSE),
                ("wake-up-descriptor-is-the-pipe's-write-end", TRUE if (isinstance(wf, SInt) and wf.t.eq(z3.Int("pipe.w"))) else FALSE)]

    loops = {0: dict(anchor="for s in self.SIGNALS", cands=[])}
