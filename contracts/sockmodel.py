"""Ghost model of a connected socket (byte sink) and of files handed to sendfile.

sock.g_wire : SStr (bytes) -- everything put on the connection so far, in order (path-local rope)
sock.g_wl   : SInt        -- its length (kept separately so that callers with loops can reason about counts)
sock.g_closed / g_shutdown : SBool
Assumed (trusted) semantics: sendall appends exactly the given bytes or raises OSError (then an unspecified prefix may have
been sent and the connection is unusable: g_broken); sendfile(f, offset, count) appends f[offset:offset+count).
"""
import z3

from pyvc.env import ClassModel, STUBS, R1
from pyvc.smt import And, Or, Not, Implies, If, iv, fresh_int, fresh_arr, I, TRUE, FALSE
from pyvc.values import (SInt, SBool, SReal, SNone, NONE, SStr, STuple, Ref, HObj, HList, mk_win, concat, SExc, Opaque,
                         Unsupported, Lit, Win, Num, JoinAtom)
from pyvc import strops


def mk_sock(env, st, name="sock"):
    env.class_models["socket"] = SOCK
    return st.alloc(HObj("socket", {"g_wire": SStr([], False), "g_wl": SInt(z3.Int(name + ".wl0")), "g_closed": SBool(False),
                                    "g_shutdown": SBool(False), "g_broken": SBool(False), "g_blocking": SBool(True)}))


def oserr():
    return SExc(OSError, (), {"errno": SInt(fresh_int("errno"))})


class SockModel(ClassModel):
    def hasattr(self, ex, st, v, o, name):
        return name in ("recv", "sendall", "send", "close", "sendfile", "shutdown", "getsockname", "setblocking")

    def call(self, ex, st, self_v, meth, args, kwargs, node):
        o = st.obj(self_v)
        if meth in ("sendall", "send"):
            d = args[0]
            if not isinstance(d, SStr) or d.is_str:
                return [ex.res_exc(st, SExc(TypeError))]
            bad = st.fork()
            o.fields["g_wire"] = concat(o.fields["g_wire"], d)
            o.fields["g_wl"] = SInt(o.fields["g_wl"].t + d.length())
            st.assume(*d.axioms())
            ob = bad.obj(self_v)
            k = fresh_int("sent.prefix")
            bad.assume(0 <= k, k <= d.length())
            ob.fields["g_wire"] = concat(ob.fields["g_wire"], strops.fresh_str(bad, "partial", False))
            ob.fields["g_wl"] = SInt(ob.fields["g_wl"].t + k)
            ob.fields["g_broken"] = SBool(True)
            return [ex.res(st, NONE if meth == "sendall" else SInt(d.length())), ex.res_exc(bad, oserr())]
        if meth == "sendfile":
            f = args[0]
            off = kwargs.get("offset", args[1] if len(args) > 1 else SInt(0))
            cnt = kwargs.get("count", args[2] if len(args) > 2 else NONE)
            fo = st.obj(f)
            content = fo.fields["g_content"].single_win()
            if isinstance(cnt, SNone):
                raise Unsupported("sendfile without count")
            piece = mk_win(content.base, content.lo + off.t, content.lo + off.t + cnt.t, False)
            bad = st.fork()
            o.fields["g_wire"] = concat(o.fields["g_wire"], piece)
            o.fields["g_wl"] = SInt(o.fields["g_wl"].t + cnt.t)
            bad.obj(self_v).fields["g_broken"] = SBool(True)
            return [ex.res(st, SInt(cnt.t)), ex.res_exc(bad, oserr())]
        if meth == "close":
            bad = st.fork()
            o.fields["g_closed"] = SBool(True)
            bad.obj(self_v).fields["g_closed"] = SBool(True)
            return [ex.res(st, NONE), ex.res_exc(bad, oserr())]
        if meth == "shutdown":
            bad = st.fork()
            o.fields["g_shutdown"] = SBool(True)
            return [ex.res(st, NONE), ex.res_exc(bad, oserr())]
        if meth == "setblocking":
            o.fields["g_blocking"] = SBool(ex.truth(args[0], st))
            return [ex.res(st, NONE)]
        if meth == "gettimeout":
            bl = ex.truth(o.fields["g_blocking"], st)
            a, b = ex.split(st, bl)
            out = []
            if a is not None:
                out.append(ex.res(a, NONE))
            if b is not None:
                out.append(ex.res(b, SReal(0)))
            return out
        if meth == "getsockname":
            return [ex.res(st, Opaque("sockname"))]
        if meth == "fileno":
            return [ex.res(st, SInt(fresh_int("fd")))]
        return None


SOCK = SockModel()


# ---- structural comparison of ropes ------------------------------------------------------------------------------
def rope_struct_eq(a, b):
    """z3 Bool that IMPLIES the two byte ropes are equal: same atom structure, pairwise equal parameters.
    (sound, incomplete: a different but equivalent decomposition yields FALSE)"""
    xa, xb = _norm(a), _norm(b)
    if len(xa) != len(xb):
        return FALSE
    conj = []
    for p, q in zip(xa, xb):
        if type(p) is not type(q):
            return FALSE
        if isinstance(p, Lit):
            if p.b != q.b:
                return FALSE
        elif isinstance(p, Win):
            if not p.base.eq(q.base) or p.xf != q.xf:
                return FALSE
            conj.append(Or(And(p.lo == q.lo, p.hi == q.hi), And(p.lo == p.hi, q.lo == q.hi)))
        elif isinstance(p, Num):
            if p.kind != q.kind:
                return FALSE
            conj.append(p.t == q.t)
        elif isinstance(p, JoinAtom):
            if p.jid != q.jid and not _same_seq(p.seq, q.seq):
                return FALSE
    return And(*conj)


def _same_seq(s, t):
    return s.lo.eq(t.lo) and s.hi.eq(t.hi) and len(s.arrays) == len(t.arrays) and all(x.eq(y) for x, y in zip(s.arrays, t.arrays)) \
        and s.eshape == t.eshape


def _norm(s):
    out = []
    for a in s.atoms:
        if isinstance(a, Lit) and out and isinstance(out[-1], Lit):
            out[-1] = Lit(out[-1].b + a.b)
        else:
            out.append(a)
    return out


def suffix_after(whole, prefix):
    """atoms of `whole` after the atoms of `prefix` (prefix must be a syntactic prefix), else None"""
    w, p = _norm(whole), _norm(prefix)
    if len(p) > len(w):
        return None
    k = 0
    for x, y in zip(w, p):
        if type(x) is not type(y):
            return None
        if isinstance(x, Lit):
            if x.b != y.b:
                if k == len(p) - 1 and x.b.startswith(y.b):
                    rest = [Lit(x.b[len(y.b):])] + w[k + 1:]
                    return SStr(rest, False)
                return None
        elif isinstance(x, Win):
            if not (x.base.eq(y.base) and x.lo.eq(y.lo) and x.hi.eq(y.hi)):
                return None
        elif isinstance(x, Num):
            if not (x.kind == y.kind and x.t.eq(y.t)):
                return None
        elif isinstance(x, JoinAtom):
            if x.jid != y.jid:
                return None
        k += 1
    return SStr(w[len(p):], False)


def mk_file(env, st, name="file"):
    env.class_models["file"] = FILE
    F = z3.Array(name + ".bytes", I, I)
    size = z3.Int(name + ".size")
    off = z3.Int(name + ".offset")
    st.assume(size >= 0, off >= 0, off <= size)
    return st.alloc(HObj("file", {"g_content": mk_win(F, 0, size), "g_offset": SInt(off), "g_fd": SInt(z3.Int(name + ".fd"))}))


class FileModel(ClassModel):
    def hasattr(self, ex, st, v, o, name):
        return name in ("fileno", "read", "close")

    def call(self, ex, st, self_v, meth, args, kwargs, node):
        o = st.obj(self_v)
        if meth == "fileno":
            return [ex.res(st, o.fields["g_fd"])]
        if meth == "close":
            return [ex.res(st, NONE)]
        return None


FILE = FileModel()
