"""Contracts for gunicorn/http/unreader.py"""
import z3

from pyvc.contracts import contract, Contract, inline
from pyvc.smt import And, Or, Not, Implies, If, Min, Max, iv, fresh_int
from pyvc.values import SInt, SNone, NONE, SStr, Ref, HBio
from pyvc.shapes import WinShape, IntShape
from .pmodel import T, N, MAXCHUNK, base_state, mk_unreader, u_buf, u_sp, u_pos, RI, RI_and, is_T, twin

PARSER_PROPS = ("C01", "C06", "C07", "C12")


@contract("gunicorn.http.unreader:Unreader.chunk", props=PARSER_PROPS)
class UnreaderChunk(Contract):
    """TRUSTED byte-source model: the next k bytes of T in order, 1 <= k <= 8192, or b'' exactly at end of stream.
    All obligations of callers are for ALL choices of k: that is the segmentation quantifier of C06."""
    trusted = True

    def modifies(self, c):
        return [("field", c.a["self"], "g_sp")]

    def result_shape(self, c):
        return WinShape(T)

    def raises(self, c):
        return [(OSError, None, lambda c2: {"errno": SInt(fresh_int("errno"))})]

    def exc_post(self, c):
        u = c.a["self"]
        return [("chunk.error-consumes-nothing", u_sp(c, u) == u_sp(c, u, c.old))]

    def post(self, c):
        u = c.a["self"]
        sp0, sp1 = u_sp(c, u, c.old), u_sp(c, u)
        return [("chunk.next-bytes", is_T(c.result, sp0, sp1)),
                ("chunk.bounds", And(sp0 <= sp1, sp1 <= N, sp1 - sp0 <= MAXCHUNK)),
                ("chunk.empty-iff-eof", (sp1 == sp0) == (sp0 == N))]


class _UnreaderCases:
    def mk(self, env, **kw):
        st = base_state(env)
        u = mk_unreader(env, st)
        return st, u


@contract("gunicorn.http.unreader:Unreader.read", props=PARSER_PROPS)
class UnreaderRead(Contract, _UnreaderCases):
    def cases(self, env):
        out = []
        st, u = self.mk(env)
        out.append(("size=None", st, {"self": u, "size": NONE}, {}))
        st, u = self.mk(env)
        size = z3.Int("size")
        out.append(("size=int", st, {"self": u, "size": SInt(size)}, {}))
        return out

    def pre(self, c):
        return RI(c, c.a["self"])

    def modifies(self, c):
        u = c.a["self"]
        return [("field", u, "g_sp"), ("obj", c.st.obj(u).fields["buf"], WinShape(T))]

    def result_shape(self, c):
        return WinShape(T)

    def raises(self, c):
        return [(OSError, None, lambda c2: {"errno": SInt(fresh_int("errno"))})]

    def exc_post(self, c):
        return RI(c, c.a["self"])

    def post(self, c):
        u = c.a["self"]
        size = c.a["size"]
        pos0, sp0 = u_pos(c, u, c.old), u_sp(c, u, c.old)
        pos1, sp1 = u_pos(c, u), u_sp(c, u)
        out = list(RI(c, u))
        out.append(("source-position-monotone", sp1 >= sp0))
        if isinstance(size, SNone):
            out += [("result==T[pos0:pos1)", is_T(c.result, pos0, pos1)),
                    ("buffer-empty-after", pos1 == sp1),
                    ("progress-unless-eof", (pos1 == pos0) == (pos0 == N)),
                    ("no-read-when-buffered", Implies(pos0 < sp0, sp1 == sp0))]
        else:
            n = size.t
            want = If(n > 0, Min(pos0 + n, N), If(n == 0, pos0, pos1))
            out += [("result==T[pos0:pos1)", is_T(c.result, pos0, pos1)),
                    ("pos1==min(pos0+size,N)", Implies(n > 0, pos1 == Min(pos0 + n, N))),
                    ("size==0:nothing-changes", Implies(n == 0, And(pos1 == pos0, sp1 == sp0))),
                    ("size<0:like-None", Implies(n < 0, And(pos1 == sp1, (pos1 == pos0) == (pos0 == N))))]
        return out

    loops = {0: dict(anchor="while self.buf.tell() < size", cands=[
        ("buf==T[pos0:sp)", lambda L: And(*[f for _, f in RI(_C(L), L.self, L.st)])),
        ("pos-fixed", lambda L: u_pos(_C(L), L.self, L.st) == u_pos(_C(L), L.self, L.entry)),
        ("sp-monotone", lambda L: u_sp(_C(L), L.self, L.st) >= u_sp(_C(L), L.self, L.entry)),
    ], variant=None)}


class _C:
    """minimal ctx-like adaptor for helper functions inside loop candidates"""

    def __init__(self, L):
        self.st = L.st


@contract("gunicorn.http.unreader:Unreader.unread", props=PARSER_PROPS)
class UnreaderUnread(Contract, _UnreaderCases):
    """only the bytes just consumed may be pushed back, and only onto an empty buffer (the code APPENDS)"""

    def cases(self, env):
        st = base_state(env)
        u = mk_unreader(env, st)
        a, b = z3.Int("d.lo"), z3.Int("d.hi")
        st.assume(0 <= a, a <= b, b <= N)
        return [("data=T[a:b)", st, {"self": u, "data": twin(a, b)}, {})]

    def pre(self, c):
        u, d = c.a["self"], c.a["data"]
        pos, sp = u_pos(c, u), u_sp(c, u)
        return list(RI(c, u)) + [
            ("buffer-empty-or-noop", Or(u_buf(c, u).length() == 0, d.length() == 0)),
            ("pushes-back-just-consumed-bytes", Or(d.length() == 0, And(pos - d.length() >= 0, is_T(d, pos - d.length(), pos))))]

    def modifies(self, c):
        u = c.a["self"]
        return [("obj", c.st.obj(u).fields["buf"], WinShape(T))]

    def post(self, c):
        u, d = c.a["self"], c.a["data"]
        return list(RI(c, u)) + [
            ("pos'==pos-len(data)", u_pos(c, u) == u_pos(c, u, c.old) - d.length()),
            ("source-position-unchanged", u_sp(c, u) == u_sp(c, u, c.old))]
