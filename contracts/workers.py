"""Contracts for the worker glue: util.write_error / write_nonblock / close, Worker.handle_error, and the per-connection
handlers of the sync, gthread and base_async workers (C02 glue, C05, C18, C19)."""
import ast as _ast
import html as _html
import textwrap as _textwrap

import z3

from pyvc.contracts import contract, Contract, inline, Ctx
from pyvc.env import ClassModel, STUBS, R1
from pyvc.smt import And, Or, Not, Implies, If, Min, Max, iv, fresh_int, fresh_bool, I, TRUE, FALSE, const_int
from pyvc.values import (SInt, SBool, SReal, SNone, NONE, SStr, STuple, Ref, HObj, HBio, HList, HDict, mk_win, qvar, SExc,
                         Opaque, SOpt, Lit, Win, Num, JoinAtom, ClassV, FuncV, StubV, str_eq, concat, Unsupported)
from pyvc.shapes import (WinShape, IntShape, BoolShape, TupleShape, ListShape, OptionShape, AnyStrShape, ConstShape)
from pyvc import strops
from pyvc.state import State
from .cfgmodel import mk_cfg
from .sockmodel import mk_sock, mk_file, rope_struct_eq, suffix_after, SOCK, oserr
from . import http_wsgi as W

inline("gunicorn.util:write_nonblock", "gunicorn.util:close", "gunicorn.workers.sync:SyncWorker.accept",
       "gunicorn.http.wsgi:Response.__init__", "gunicorn.workers.base_async:AsyncWorker.is_already_handled")


# ---- small external models ----------------------------------------------------------------------------------------
def _dedent(ex, st, self_v, args, kwargs, node):
    c = args[0].concrete_py() if isinstance(args[0], SStr) else None
    if c is None:
        return R1(ex, st, strops.fresh_str(st, "dedent", True))
    return R1(ex, st, SStr.lit(_textwrap.dedent(c)))


def _escape(ex, st, self_v, args, kwargs, node):
    s = args[0]
    c = s.concrete_py() if isinstance(s, SStr) else None
    if c is not None:
        return R1(ex, st, SStr.lit(_html.escape(c)))
    # TRUSTED: html.escape is total on str and returns text (length / content not modelled)
    if not isinstance(s, SStr):
        return [ex.res_exc(st, SExc(AttributeError))]
    return R1(ex, st, strops.fresh_str(st, "escaped", True))


def _now(ex, st, self_v, args, kwargs, node):
    return R1(ex, st, Opaque("datetime"))


def _exc_info(ex, st, self_v, args, kwargs, node):
    cur = st.locals.get("__current_exc__")
    if cur is None:
        return R1(ex, st, STuple([NONE, NONE, NONE]))
    return R1(ex, st, STuple([ClassV(cur.cls), cur, Opaque("traceback")]))


STUBS["textwrap.dedent"] = _dedent
STUBS["html.escape"] = _escape
STUBS["datetime.now"] = _now
STUBS["datetime.datetime.now"] = _now
STUBS["sys.exc_info"] = _exc_info


class LoggerModel(ClassModel):
    """self.log: access() appends one record (ghost counter + snapshot of what it carries); the other levels are skipped"""

    def call(self, ex, st, self_v, meth, args, kwargs, node):
        o = st.obj(self_v)
        if meth == "access":
            resp = args[0]
            o.fields["g_access"] = SInt(o.fields["g_access"].t + 1)
            if isinstance(resp, Ref):
                ro = st.obj(resp)
                o.fields["g_last_resp"] = resp
                o.fields["g_last_sent"] = ro.fields.get("sent", NONE)
                o.fields["g_last_status"] = ro.fields.get("status", NONE)
            bad = st.fork()
            return [ex.res(st, NONE)]
        if meth in ("debug", "info", "warning", "error", "critical", "exception", "log", "close_on_exec"):
            return [ex.res(st, NONE)]
        if meth == "reopen_files":
            o.fields["g_reopened"] = SInt(o.fields["g_reopened"].t + 1) if "g_reopened" in o.fields else SInt(1)
            return [ex.res(st, NONE)]
        return None


LOGGER = LoggerModel()


def mk_logger(env, st):
    env.class_models["Logger"] = LOGGER
    return st.alloc(HObj("Logger", {"g_access": SInt(z3.Int("log.access0"))}))


class AppError(Exception):
    """synthetic: 'some exception raised by application code' (any Exception that is not an OSError / StopIteration)"""


class AppBaseError(BaseException):
    """synthetic: a BaseException that is not an Exception (e.g. SystemExit / KeyboardInterrupt raised by the application)"""


# ======================================================================================================
# util.write_error
# ======================================================================================================
def error_page_clauses(suf, status_int, reason):
    """structural reading of the bytes write_error put on the wire"""
    atoms = list(suf.atoms)
    out = []
    lits = [a for a in atoms if isinstance(a, Lit)]
    text = b"".join(a.b if isinstance(a, Lit) else b"\x01" for a in atoms)
    head_end = text.find(b"\r\n\r\n")
    out.append(("error-page:has-a-head", TRUE if (text.startswith(b"HTTP/1.1 ") and head_end > 0) else FALSE))
    if head_end < 0:
        return out
    head = text[:head_end]
    lines = head.split(b"\r\n")
    names = [ln.split(b":")[0] for ln in lines[1:]]
    out.append(("error-page:Connection-close+Content-Type+Content-Length",
                TRUE if names == [b"Connection", b"Content-Type", b"Content-Length"] and lines[1] == b"Connection: close" else FALSE))
    # Content-Length value = the Num atom following the literal that ends with 'Content-Length: '
    k = None
    for i, a in enumerate(atoms):
        if isinstance(a, Lit) and a.b.endswith(b"Content-Length: ") and i + 1 < len(atoms):
            k = i + 1
    if k is None or not isinstance(atoms[k], (Num, Lit)):
        out.append(("error-page:Content-Length-is-the-body-length", FALSE))
        return out
    # body = everything after the literal that contains CRLFCRLF
    body_len = iv(0)
    seen = False
    for a in atoms[k + 1:]:
        if not seen:
            if isinstance(a, Lit) and b"\r\n\r\n" in a.b:
                seen = True
                body_len = body_len + len(a.b.split(b"\r\n\r\n", 1)[1])
            continue
        body_len = body_len + a.length()
    declared = atoms[k].t if isinstance(atoms[k], Num) else iv(int(atoms[k].b))
    out.append(("error-page:Content-Length-is-the-body-length", And(TRUE if seen else FALSE, declared == body_len)))
    # status line: 'HTTP/1.1 <code> <reason>' single line
    for a in atoms[:k]:
        if isinstance(a, Win):
            out.append(("error-page:no-CR-LF-in-head-text(%s)" % a.base, W.clean(SStr([a], a.is_str))))
    return out


@contract("gunicorn.util:write_error", props=("C05",))
class WriteError(Contract):
    def cases(self, env):
        st = W.base_state(env)
        sock = mk_sock(env, st)
        code = z3.Int("status_int")
        st.assume(code >= 400, code <= 599)
        reason = strops.fresh_str(st, "reason", True, canonical=True)
        st.assume(W.clean(reason))
        return [("page", st, {"sock": sock, "status_int": SInt(code), "reason": reason,
                              "mesg": strops.fresh_str(st, "mesg", True, canonical=True)}, {})]

    def pre(self, c):
        return [("status-is-4xx/5xx", And(c.a["status_int"].t >= 400, c.a["status_int"].t <= 599)),
                ("reason-is-one-line", W.clean(c.a["reason"]))]

    def modifies(self, c):
        s = c.a["sock"]
        return [("field", s, "g_wire", AnyStrShape(False)), ("field", s, "g_wl"), ("field", s, "g_blocking", BoolShape()),
                ("field", s, "g_broken", BoolShape())]

    def raises(self, c):
        return [(OSError, None, lambda c2: {"errno": SInt(fresh_int("errno"))}), (UnicodeEncodeError, None)]

    def exc_post(self, c):
        if c.exc is not None and c.exc.cls is UnicodeEncodeError:
            return [("nothing-sent-when-the-page-cannot-be-encoded", c.st.obj(c.a["sock"]).fields["g_wl"].t == c.old.obj(c.a["sock"]).fields["g_wl"].t)]
        return []

    def effects(self, c):
        so = c.st.obj(c.a["sock"])
        so.fields["g_errors"] = SInt(so.fields.get("g_errors", SInt(0)).t + 1)

    def post(self, c):
        s1, s0 = c.st.obj(c.a["sock"]), c.old.obj(c.a["sock"])
        out = [("socket-blocking-mode-restored", c.ex.truth(s1.fields["g_blocking"], c.st) == Or(c.ex.truth(s0.fields["g_blocking"], c.old), TRUE))]
        if c.mode == "call":
            return out + [("something-was-sent", s1.fields["g_wl"].t > s0.fields["g_wl"].t)]
        suf = suffix_after(s1.fields["g_wire"], s0.fields["g_wire"])
        if suf is None:
            return out + [("wire-extended", FALSE)]
        return out + error_page_clauses(suf, c.a["status_int"], c.a["reason"])


# ======================================================================================================
# Worker.handle_error
# ======================================================================================================
def http_errs(env):
    return env.repo.live("gunicorn.http.errors")


def mk_worker(env, st, cls, module, **extra):
    env.use_class("gunicorn.workers.base", "Worker")
    env.use_class(module, cls)
    cfg = mk_cfg(env, st, is_ssl=False)
    log = mk_logger(env, st)
    nr, mx = z3.Int("self.nr"), z3.Int("self.max_requests")
    st.assume(nr >= 0, mx >= 1)
    f = {"cfg": cfg, "log": log, "nr": SInt(nr), "max_requests": SInt(mx), "alive": SBool(z3.Bool("self.alive"))}
    f.update(extra)
    return st.alloc(HObj(cls, f)), log


def mk_reqobj(env, st):
    r = W.mk_reqview(env, st)
    st.obj(r).fields.update({"uri": strops.fresh_str(st, "req.uri", True, canonical=True), "proxy_protocol_info": NONE,
                             "query": strops.fresh_str(st, "req.query", True, canonical=True), "body": Opaque("body"),
                             "headers": st.alloc(HList([]))})
    return r


def exc_cases(env):
    E = http_errs(env)
    import ssl
    names = ["InvalidRequestLine", "InvalidRequestMethod", "InvalidHTTPVersion", "InvalidHeader", "InvalidHeaderName", "LimitRequestLine",
             "LimitRequestHeaders", "InvalidProxyLine", "ForbiddenProxyRequest", "InvalidSchemeHeaders", "UnsupportedTransferCoding",
             "ConfigurationProblem", "ObsoleteFolding"]
    return [getattr(E, n) for n in names] + [ssl.SSLError, AppError, AppBaseError, E.NoMoreData]


@contract("gunicorn.workers.base:Worker.handle_error", props=("C05", "C19"))
class HandleError(Contract):
    def cases(self, env):
        out = []
        for ecls in exc_cases(env):
            for has_req in (False, True):
                for addr_kind in ("tcp", "unix"):
                    st = W.base_state(env)
                    slf, log = mk_worker(env, st, "Worker", "gunicorn.workers.base")
                    client = mk_sock(env, st, "client")
                    req = mk_reqobj(env, st) if has_req else NONE
                    addr = STuple([strops.fresh_str(st, "addr.host", True), SInt(fresh_int("addr.port"))]) if addr_kind == "tcp" else SStr.lit("")
                    fields = {}
                    if ecls.__name__ == "InvalidHeader":
                        fields = {"req": mk_reqobj(env, st)}
                    exc = SExc(ecls, (), fields)
                    out.append(("%s,req=%s,addr=%s" % (ecls.__name__, has_req, addr_kind), st,
                                {"self": slf, "req": req, "client": client, "addr": addr, "exc": exc}, {}))
        return out

    def modifies(self, c):
        s = c.a["client"]
        log = c.st.obj(c.a["self"]).fields["log"]
        return [("field", s, "g_wire", AnyStrShape(False)), ("field", s, "g_wl"), ("field", s, "g_blocking", BoolShape()),
                ("field", s, "g_broken", BoolShape()), ("field", log, "g_access")]

    def effects(self, c):
        so = c.st.obj(c.a["client"])
        so.fields["g_errors"] = SInt(so.fields.get("g_errors", SInt(0)).t + 1)

    def raises(self, c):
        return []          # nothing escapes: the worker must survive any request

    def post(self, c):
        log1 = c.st.obj(c.st.obj(c.a["self"]).fields["log"])
        log0 = c.old.obj(c.old.obj(c.a["self"]).fields["log"])
        s1, s0 = c.st.obj(c.a["client"]), c.old.obj(c.a["client"])
        d = log1.fields["g_access"].t - log0.fields["g_access"].t
        has_req = not isinstance(c.a["req"], SNone)
        exc = c.a["exc"]
        out = [("at-most-one-access-record", And(d >= 0, d <= 1)),
               ("no-record-without-a-request", Implies(TRUE if (not has_req and "req" not in exc.fields) else FALSE, d == 0))]
        if c.mode == "call":
            return out + [("wire-only-grows", s1.fields["g_wl"].t >= s0.fields["g_wl"].t)]
        errs = s1.fields.get("g_errors", SInt(0)).t - s0.fields.get("g_errors", SInt(0)).t
        out.append(("at-most-one-error-page", And(errs >= 0, errs <= 1)))
        return out


# ======================================================================================================
# models for the request handlers: wsgi.create, the application, its iterable
# ======================================================================================================
class EnvironModel(ClassModel):
    def getitem(self, ex, st, ref, o, key):
        k = key.concrete_py() if isinstance(key, SStr) else None
        if k == "wsgi.file_wrapper":
            return [ex.res(st, ClassV(ex.env.use_class("gunicorn.http.wsgi", "FileWrapper")))]
        return [ex.res(st, Opaque("environ[%s]" % k))]

    def setitem(self, ex, st, ref, o, key, v):
        return [(st, None)]


ENVIRON = EnvironModel()


def fresh_response(env, st, req, sock, cfg):
    """a Response right after wsgi.create(): nothing decided, nothing sent"""
    env.use_class("gunicorn.http.wsgi", "Response")
    hdrs = st.alloc(HList(sym=ListShape(W.APP_HDR).fresh_seq(st, "resp.headers", view=False)))
    st.assume(st.obj(hdrs).sym.hi == 0)
    return st.alloc(HObj("Response", {
        "req": req, "sock": sock, "cfg": cfg, "version": SStr.lit(env.repo.live("gunicorn").SERVER), "status": NONE,
        "status_code": NONE, "chunked": SBool(False), "must_close": SBool(False), "headers": hdrs, "headers_sent": SBool(False),
        "response_length": NONE, "sent": SInt(0), "upgrade": SBool(False), "g_hend": SInt(fresh_int("g_hend")),
        "g_closed": SBool(False)}))


inline("gunicorn.http.wsgi:proxy_environ", "gunicorn.http.wsgi:default_environ", "gunicorn.http.wsgi:base_environ", "gunicorn.http.wsgi:Response.__init__")


def _ctor_errwrap(ex, st, self_v, args, kwargs, node):
    return R1(ex, st, Opaque("wsgi.errors"))


STUBS["ctor:WSGIErrorsWrapper"] = _ctor_errwrap


def _unquote_wsgi(ex, st, self_v, args, kwargs, node):
    """util.unquote_to_wsgi_str (urllib.parse.unquote_to_bytes + latin-1 decode): TRUSTED; ghost record of its argument"""
    st.ghost["unquote_arg"] = args[0]
    return R1(ex, st, strops.fresh_str(st, "PATH_INFO", True, canonical=True))


def _hname_eq(seq, j, lit):
    from pyvc.values import str_eq
    return str_eq(seq.elem(j).items[0], SStr.lit(lit))


def _last_named(seq, upto, lit, val):
    """val is the value of the LAST header named `lit` among the first `upto` entries"""
    j, j2 = qvar("j"), qvar("j2")
    w = val.single_win() if isinstance(val, SStr) else None
    if w is None:
        return FALSE
    vw = lambda k: seq.elem(k).items[1].single_win()
    return z3.Exists([j], And(seq.lo <= j, j < upto, _hname_eq(seq, j, lit), vw(j).lo == w.lo, vw(j).hi == w.hi,
                              z3.ForAll([j2], Implies(And(j < j2, j2 < upto), Not(_hname_eq(seq, j2, lit))))))


def _some_named(seq, upto, lit):
    j = qvar("j")
    return z3.Exists([j], And(seq.lo <= j, j < upto, _hname_eq(seq, j, lit)))


def _slot(d, key):
    """(present, value) of a literal key of an HDict"""
    from pyvc.values import SMaybe
    v = d.items.get(key)
    if v is None:
        return FALSE, None
    if isinstance(v, SMaybe):
        return v.present, v.inner
    return TRUE, v


@contract("gunicorn.http.wsgi:create", props=("C15", "C08"))
class CreateForWorkers(Contract):
    """verify mode (C15/C08): the environ built from an accepted request; call mode (worker handlers): a fresh Response bound
    to the client socket and an environ object; may raise ConfigurationProblem or OSError (100-continue send)"""
    weight = 3

    def cases(self, env):
        from .http_message import mk_headers
        from .arbiter import mk_envdict
        from .cfgmodel import enum_str
        out = []
        for peer in ("tcp", "unix"):
            for proxied in (False, True):
                st = W.base_state(env)
                STUBS["ctor:WSGIErrorsWrapper"] = _ctor_errwrap
                STUBS["gunicorn.util.unquote_to_wsgi_str"] = _unquote_wsgi
                req = W.mk_reqview(env, st)
                hdrs, seq = mk_headers(st, "req.headers")
                info = NONE
                if proxied:
                    info = st.alloc(HDict({"proxy_protocol": strops.fresh_str(st, "pp.proto", True, canonical=True),
                                           "client_addr": strops.fresh_str(st, "pp.client_addr", True, canonical=True),
                                           "client_port": SInt(z3.Int("pp.client_port")),
                                           "proxy_addr": strops.fresh_str(st, "pp.proxy_addr", True, canonical=True),
                                           "proxy_port": SInt(z3.Int("pp.proxy_port"))}))
                st.obj(req).fields.update({
                    "uri": strops.fresh_str(st, "req.uri", True, canonical=True), "query": strops.fresh_str(st, "req.query", True, canonical=True),
                    "path": strops.fresh_str(st, "req.path", True, canonical=True), "body": Opaque("body"), "headers": hdrs,
                    "scheme": enum_str(st, "req.scheme", ["http", "https"], canonical=True), "proxy_protocol_info": info})
                sock = mk_sock(env, st, "client")
                cfg = mk_cfg(env, st)
                client = STuple([strops.fresh_str(st, "peer.host", True, canonical=True), SInt(z3.Int("peer.port"))]) if peer == "tcp" \
                    else strops.fresh_str(st, "peer.path", True, canonical=True)
                server = STuple([strops.fresh_str(st, "srv.host", True, canonical=True), SInt(z3.Int("srv.port"))])
                envd = mk_envdict(env, st)
                st.obj(st.obj(envd).fields["g_set"]).items["SCRIPT_NAME"] = strops.fresh_str(st, "env.SCRIPT_NAME", True, canonical=True)
                st.ghost["os.environ"] = envd
                out.append(("peer=%s,proxy-protocol=%s" % (peer, proxied), st,
                            {"req": req, "sock": sock, "client": client, "server": server, "cfg": cfg},
                            {"seq": seq, "peer": peer, "proxied": proxied, "info": info}))
        return out

    def raises(self, c):
        E = http_errs(c.ex.env)
        return [(E.ConfigurationProblem, None), (OSError, None, lambda c2: {"errno": SInt(fresh_int("errno"))})]

    def result_shape(self, c):
        st = c.st
        c.ex.env.class_models["Environ"] = ENVIRON
        resp = fresh_response(c.ex.env, st, c.a["req"], c.a["sock"], c.a["cfg"])
        st.ghost["resp"] = resp
        return STuple([resp, st.alloc(HObj("Environ", {}))])

    def exc_post(self, c):
        if c.mode == "call" or c.exc is None:
            return []
        E = http_errs(c.ex.env)
        if c.exc.cls is E.ConfigurationProblem:
            return [("ConfigurationProblem-only-for-a-non-empty-script-name", TRUE)]
        return []

    def post(self, c):
        if c.mode == "call":
            return []
        from .sockmodel import rope_struct_eq
        from pyvc.values import str_eq, Lit, Num
        st1, st0 = c.st, c.old
        g = c.g
        seq = g["seq"]
        req = st0.obj(c.a["req"])
        if not (isinstance(c.result, STuple) and len(c.result.items) == 2 and isinstance(c.result.items[1], Ref)):
            return [("returns-(response, environ)", FALSE)]
        resp, envr = c.result.items
        E = st1.obj(envr)
        if not isinstance(E, HDict):
            return [("environ-is-a-dict", FALSE)]
        same = lambda x, y: TRUE if (x is y or (isinstance(x, SStr) and isinstance(y, SStr) and x.atoms == y.atoms)) else FALSE
        item = lambda k: _slot(E, k)
        out = []
        for key, fld in (("REQUEST_METHOD", "method"), ("QUERY_STRING", "query"), ("RAW_URI", "uri"), ("wsgi.url_scheme", "scheme"), ("wsgi.input", "body")):
            pres, v = item(key)
            out.append(("%s-is-the-request's-%s" % (key, fld), And(pres, same(v, req.fields[fld])) if v is not None else FALSE))
        pres, v = item("SERVER_PROTOCOL")
        v0, v1 = req.fields["version"].items
        out.append(("SERVER_PROTOCOL==HTTP/major.minor", rope_struct_eq(v, SStr([Lit(b"HTTP/"), Num("dec", v0.t), Lit(b"."), Num("dec", v1.t)], True)) if isinstance(v, SStr) else FALSE))
        for key, hname in (("CONTENT_TYPE", "CONTENT-TYPE"), ("CONTENT_LENGTH", "CONTENT-LENGTH")):
            pres, v = item(key)
            out.append(("%s-present-iff-the-client-sent-it" % key, pres == _some_named(seq, seq.hi, hname)))
            out.append(("%s-is-the-(last)-value-sent" % key, Implies(pres, _last_named(seq, seq.hi, hname, v)) if v is not None else Not(_some_named(seq, seq.hi, hname))))
        # SCRIPT_NAME / PATH_INFO
        pres, sn = item("SCRIPT_NAME")
        envsn = st0.obj(st0.obj(st0.ghost["os.environ"]).fields["g_set"]).items["SCRIPT_NAME"]
        j = qvar("j")
        from_hdr = z3.Exists([j], And(seq.lo <= j, j < seq.hi, _hname_eq(seq, j, "SCRIPT_NAME"), str_eq(sn, seq.elem(j).items[1]))) if isinstance(sn, SStr) else FALSE
        out.append(("SCRIPT_NAME-comes-from-the-process-environment-or-a-SCRIPT_NAME-header", And(pres, Or(str_eq(sn, envsn), from_hdr)) if isinstance(sn, SStr) else FALSE))
        arg = st1.ghost.get("unquote_arg")
        path = req.fields["path"]
        pw = path.single_win()
        ok = FALSE
        if isinstance(arg, SStr) and isinstance(sn, SStr):
            aw = arg.single_win()
            if aw is not None and aw.base.eq(pw.base):
                ok = And(aw.hi == pw.hi, aw.lo == pw.lo + If(sn.length() > 0, sn.length(), iv(0)))
        out.append(("PATH_INFO-is-the-decoded-request-path-after-exactly-the-SCRIPT_NAME-prefix", ok))
        pres, pi = item("PATH_INFO")
        out.append(("PATH_INFO-set", pres))
        out.append(("script-name-is-a-prefix-of-the-path", Implies(sn.length() > 0, _startswith(path, sn)) if isinstance(sn, SStr) else FALSE))
        # REMOTE_ADDR / REMOTE_PORT: the socket peer, overridden ONLY by PROXY protocol information attached to the request
        pres, ra = item("REMOTE_ADDR")
        presp, rp = item("REMOTE_PORT")
        if g["proxied"]:
            info = st0.obj(g["info"]).items
            out.append(("proxied:REMOTE_ADDR-is-the-PROXY-declared-client", And(pres, same(ra, info["client_addr"]))))
            out.append(("proxied:REMOTE_PORT-is-the-PROXY-declared-port", And(presp, rope_struct_eq(rp, SStr([Num("dec", info["client_port"].t)], True))) if isinstance(rp, SStr) else FALSE))
            out.append(("proxied:PROXY_ADDR-set", And(item("PROXY_ADDR")[0], same(item("PROXY_ADDR")[1], info["proxy_addr"]))))
        elif g["peer"] == "tcp":
            out.append(("REMOTE_ADDR-is-the-socket-peer", And(pres, same(ra, c.a["client"].items[0]))))
            out.append(("REMOTE_PORT-is-the-socket-peer-port", And(presp, rope_struct_eq(rp, SStr([Num("dec", c.a["client"].items[1].t)], True))) if isinstance(rp, SStr) else FALSE))
        else:
            out.append(("REMOTE_ADDR-is-the-socket-peer", And(pres, same(ra, c.a["client"]))))
            out.append(("no-REMOTE_PORT-for-a-unix-peer", Not(presp)))
        pres, sv = item("SERVER_NAME")
        out.append(("SERVER_NAME-is-the-listener-address", And(pres, same(sv, c.a["server"].items[0]))))
        pres, sp = item("SERVER_PORT")
        out.append(("SERVER_PORT-is-the-listener-port", And(pres, rope_struct_eq(sp, SStr([Num("dec", c.a["server"].items[1].t)], True))) if isinstance(sp, SStr) else FALSE))
        # header variables live in a region of keys that cannot collide with any CGI / wsgi.* key
        out.append(("header-variables-are-all-under-the-HTTP_-prefix", TRUE if (E.dyn is None or E.dyn["prefix"].startswith(b"HTTP_")) else FALSE))
        # the response object is fresh and bound to this request / socket; nothing but '100 Continue' was sent
        r = st1.obj(resp) if isinstance(resp, Ref) else None
        out.append(("response-bound-to-the-request-and-socket", TRUE if (r is not None and r.fields.get("req") is not None and r.fields["req"].oid == c.a["req"].oid
                                                                          and r.fields["sock"].oid == c.a["sock"].oid) else FALSE))
        wl1, wl0 = st1.obj(c.a["sock"]).fields["g_wl"].t, st0.obj(c.a["sock"]).fields["g_wl"].t
        out.append(("nothing-sent-unless-the-client-expects-100-continue", Implies(Not(_some_named(seq, seq.hi, "EXPECT")), wl1 == wl0)))
        return out

    loops = {0: dict(anchor="for hdr_name, hdr_value in req.headers", cands=[
        ("CT", lambda L: _create_inv(L, "CONTENT_TYPE", "CONTENT-TYPE")),
        ("CL", lambda L: _create_inv(L, "CONTENT_LENGTH", "CONTENT-LENGTH")),
        ("script_name", lambda L: _create_sn(L)),
        ("wire", lambda L: _create_wire(L)),
    ])}


def _startswith(s, p):
    return strops.sym_prefix(s, p)


def _create_env(L):
    return L.st.obj(L.environ)


def _create_seq(L):
    return L.ex.sym_seq(L.entry, L.iter)


def _create_inv(L, key, hname):
    E = _create_env(L)
    seq = _create_seq(L)
    pres, v = _slot(E, key)
    i = seq.lo + L.loop_index
    if v is None:
        return Not(_some_named(seq, i, hname))
    return And(pres == _some_named(seq, i, hname), Implies(pres, _last_named(seq, i, hname, v)))


def _create_sn(L):
    from pyvc.values import str_eq
    seq = _create_seq(L)
    i = seq.lo + L.loop_index
    sn = L.script_name
    envsn = L.fentry.obj(L.fentry.obj(L.fentry.ghost["os.environ"]).fields["g_set"]).items["SCRIPT_NAME"]
    j = qvar("j")
    return Or(str_eq(sn, envsn), z3.Exists([j], And(seq.lo <= j, j < i, _hname_eq(seq, j, "SCRIPT_NAME"), str_eq(sn, seq.elem(j).items[1]))))


def _create_wire(L):
    seq = _create_seq(L)
    i = seq.lo + L.loop_index
    wl1 = L.st.obj(L.sock).fields["g_wl"].t
    wl0 = L.fentry.obj(L.sock).fields["g_wl"].t
    return Implies(Not(_some_named(seq, i, "EXPECT")), wl1 == wl0)


class AppIterModel(ClassModel):
    """the iterable returned by the application: yields bytes, may raise, may have close()"""

    def hasattr(self, ex, st, v, o, name):
        if name == "close":
            return o.fields["g_has_close"].t
        return False

    def call(self, ex, st, self_v, meth, args, kwargs, node):
        if meth == "close":
            o = st.obj(self_v)
            o.fields["g_closed"] = SBool(True)
            bad = st.fork()
            return [ex.res(st, NONE), ex.res_exc(bad, SExc(AppError))]
        return None


APPITER = AppIterModel()


class AppIterSteps:
    length = None

    def __init__(self, ref):
        self.ref = ref

    def step(self, ex, st, idx):
        A = z3.Array("APPOUT", I, I)
        n = fresh_int("item.len")
        item_st = st
        stop_st = st.fork()
        err_st = st.fork()
        os_st = st.fork()
        item_st.assume(n >= 0)
        lo = fresh_int("item.lo")
        return [(item_st, "item", mk_win(A, lo, lo + n)), (stop_st, "stop", None), (err_st, "raise", SExc(AppError)),
                (os_st, "raise", oserr())]


def _appiter_iter(ex, st, v, as_list=False):
    if isinstance(v, Ref) and isinstance(st.obj(v), HObj) and st.obj(v).cls in ("AppIter",):
        return AppIterSteps(v)
    return None


@contract("abstract:App.__call__", props=("C02", "C05", "C19"))
class AppCall(Contract):
    """ASSUMED behaviour of a PEP 3333 application: calls start_response (validated by its contract) before returning its
    iterable, may have used the write() callable; returns an iterable or a wsgi.file_wrapper instance; may raise.
    Its status / headers / output are arbitrary: that is the quantifier over programs."""
    trusted = True
    params = ["self", "environ", "start_response"]

    def raises(self, c):
        return [(AppError, None), (AppBaseError, None), (OSError, None, lambda c2: {"errno": SInt(fresh_int("errno"))})]

    def _resp(self, c):
        sr = c.a["start_response"]
        return sr.self_v

    def effects(self, c):
        st = c.st
        env = c.ex.env
        resp = self._resp(c)
        ro = st.obj(resp)
        status = strops.fresh_str(st, "app.status", True)
        st.assume(W.clean(status))
        ro.fields["status"] = status
        ro.fields["status_code"] = SOpt(fresh_bool("has_code"), SInt(fresh_int("status_code")))
        hdrs = st.alloc(HList(sym=ListShape(W.APP_HDR).fresh_seq(st, "app.hdrs", view=False)))
        st.assume(W.all_hdrs_ok(st.obj(hdrs).sym))
        ro.fields["headers"] = hdrs
        L = fresh_int("resp.length")
        ro.fields["response_length"] = SOpt(fresh_bool("has_length"), SInt(L))
        ro.fields["upgrade"] = SBool(fresh_bool("upgrade"))
        ro.fields["headers_sent"] = SBool(fresh_bool("hs"))
        ro.fields["sent"] = SInt(fresh_int("sent"))
        ro.fields["g_hend"] = SInt(fresh_int("g_hend"))
        so = st.obj(ro.fields["sock"])
        wl0 = so.fields["g_wl"].t
        so.fields["g_wl"] = SInt(fresh_int("wl"))
        so.fields["g_wire"] = strops.fresh_str(st, "wire", False)
        cc = Ctx(c.ex, st, {"self": resp})
        ro.fields["chunked"] = SBool(W.spec_is_chunked(cc, st))
        st.assume(so.fields["g_wl"].t >= wl0, Implies(ro.fields["response_length"].some, L >= 0))
        for (_n, f) in W.RI_resp(cc, st):
            st.assume(f)
        # PEP 3333: the status string starts with a 3-digit code, so Response.status_code is an int
        st.assume(ro.fields["status_code"].some)
        app = st.obj(c.a["self"])
        app.fields["g_calls"] = SInt(app.fields["g_calls"].t + 1)
        app.fields["g_returned"] = SBool(True)

    def result_shape(self, c):
        st = c.st
        env = c.ex.env
        env.class_models["AppIter"] = APPITER
        if _appiter_iter not in env.iter_models:
            env.iter_models.append(_appiter_iter)
        kind = c.ex.case_ghost.get("respiter", "iter")
        if kind == "file":
            fw, f = W.mk_filewrapper(env, st)
            st.obj(fw).fields["g_has_close"] = SBool(True)
            return fw
        return st.alloc(HObj("AppIter", {"g_has_close": SBool(fresh_bool("has_close")), "g_closed": SBool(False)}))


def mk_app(env, st):
    return st.alloc(HObj("App", {"g_calls": SInt(z3.Int("app.calls0")), "g_returned": SBool(False)}))


# write_file: sendfile or item loop
@contract("gunicorn.http.wsgi:Response.write_file", props=("C02", "C19"))
class RespWriteFile(Contract):
    def cases(self, env):
        st = W.base_state(env)
        r = W.mk_response(env, st)
        seq = st.obj(st.obj(r).fields["headers"]).sym
        st.assume(W.all_hdrs_ok(seq))
        fw, f = W.mk_filewrapper(env, st)
        env.class_models["FileWrapper"] = FILEWRAP
        if _fw_iter not in env.iter_models:
            env.iter_models.append(_fw_iter)
        return [("file", st, {"self": r, "respiter": fw}, {})]

    def pre(self, c):
        return W.RespSendfile.pre(W.RespSendfile(), c)

    def modifies(self, c):
        return W.RespSendfile.modifies(W.RespSendfile(), c)

    def raises(self, c):
        return [(OSError, None, lambda c2: {"errno": SInt(fresh_int("errno"))}), (UnicodeEncodeError, None), (AppError, None)]

    def post(self, c):
        st1, st0 = c.st, c.old
        return W.RI_resp(c, st1) + [("sent-only-grows", W.F(c, st1, "sent").t >= W.F(c, st0, "sent").t),
                                    ("wire-only-grows", W.wl(c, st1) >= W.wl(c, st0))]

    loops = {0: dict(anchor="for item in respiter", cands=[
        ("RI(resp)", lambda L: And(*[f for _, f in W.RI_resp(_CC(L), L.st)])),
        ("sent-monotone", lambda L: L.st.obj(L.self).fields["sent"].t >= L.entry.obj(L.self).fields["sent"].t),
        ("wl-monotone", lambda L: W.wl(_CC(L), L.st) >= W.wl(_CC(L), L.entry)),
        ("send_headers-pre", lambda L: And(*[f for _, f in W.SendHeaders.pre(W.SendHeaders(), _CC(L))])),
        ("chunked-fixed", lambda L: L.ex.truth(L.st.obj(L.self).fields["chunked"], L.st) == L.ex.truth(L.entry.obj(L.self).fields["chunked"], L.entry)),
    ])}


class _CC:
    def __init__(self, L):
        self.st = L.st
        self.ex = L.ex
        self.a = {"self": L.self}
        self.mode = "verify"


class FileWrapModel(ClassModel):
    def hasattr(self, ex, st, v, o, name):
        return name in ("close", "filelike")


FILEWRAP = FileWrapModel()


def _fw_iter(ex, st, v, as_list=False):
    # iteration over a FileWrapper uses __getitem__: blocks of the file until an empty read (IndexError)
    if isinstance(v, Ref) and isinstance(st.obj(v), HObj) and st.obj(v).cls == "FileWrapper":
        return AppIterSteps(v)
    return None


# ======================================================================================================
# handle_request (sync / gthread / base_async)
# ======================================================================================================
def spec_should_close(c, st, resp):
    cc = Ctx(c.ex, st, {"self": resp})
    has_len, _ = W.opt_int(W.F(cc, st, "response_length"))
    has_code, code = W.opt_int(W.F(cc, st, "status_code"))
    req_close = c.ex.truth(st.obj(W.F(cc, st, "req")).fields["g_close"], st)
    delimited = Or(has_len, W.T_(cc, st, "chunked"), W.is_head(cc, st), And(has_code, Or(code < 200, code == 204, code == 304)))
    return Or(W.T_(cc, st, "must_close"), req_close, Not(delimited))


class _HandleRequest(Contract):
    worker_cls = None
    worker_mod = None
    weight = 3

    def mk_args(self, env, st, slf):
        raise NotImplementedError

    def cases(self, env):
        out = []
        for kind in ("iter", "file"):
            st = W.base_state(env)
            app = mk_app(env, st)
            slf, log = mk_worker(env, st, self.worker_cls, self.worker_mod, wsgi=app, **self.extra_fields(env, st))
            args = self.mk_args(env, st, slf)
            env.class_models["FileWrapper"] = FILEWRAP
            if _fw_iter not in env.iter_models:
                env.iter_models.append(_fw_iter)
            out.append(("respiter=" + kind, st, args, {"respiter": kind, "app": app, "log": log}))
        return out

    def extra_fields(self, env, st):
        return {}

    def client(self, c):
        raise NotImplementedError

    def raises(self, c):
        E = http_errs(c.ex.env)
        return [(OSError, None), (StopIteration, None), (AppError, None), (AppBaseError, None), (E.ConfigurationProblem, None), (UnicodeEncodeError, None)]

    def common_post(self, c, exc=None):
        """clauses that hold on EVERY exit (normal or exceptional)"""
        st1, st0 = c.st, c.old
        o1, o0 = st1.obj(c.a["self"]), st0.obj(c.a["self"])
        log1, log0 = st1.obj(o1.fields["log"]), st0.obj(o0.fields["log"])
        app1 = st1.obj(o1.fields["wsgi"])
        d = log1.fields["g_access"].t - log0.fields["g_access"].t
        returned = c.ex.truth(app1.fields["g_returned"], st1)
        resp = st1.ghost.get("resp")
        app0 = st0.obj(o0.fields["wsgi"])
        dc = app1.fields["g_calls"].t - app0.fields["g_calls"].t
        cl1, cl0 = st1.obj(self.client(c)), st0.obj(self.client(c))
        out = [("exactly-one-access-record-iff-the-application-call-returned", d == If(returned, iv(1), iv(0))),
               ("application-called-at-most-once", And(dc >= 0, dc <= 1, Implies(returned, dc == 1))),
               ("no-error-page-written-by-handle_request", cl1.fields.get("g_errors", SInt(0)).t == cl0.fields.get("g_errors", SInt(0)).t)]
        if resp is None and c.mode == "call":
            return out
        if resp is not None:
            ro = st1.obj(resp)
            ls, lst = log1.fields.get("g_last_sent"), log1.fields.get("g_last_status")
            if ls is not None and isinstance(ls, SInt):
                out.append(("record-carries-the-final-byte-count", Implies(returned, ls.t == ro.fields["sent"].t)))
            if lst is not None and isinstance(lst, SStr) and isinstance(ro.fields["status"], SStr):
                out.append(("record-carries-the-status-that-was-sent", Implies(returned, str_eq(lst, ro.fields["status"]))))
            nr1, nr0 = o1.fields["nr"].t, o0.fields["nr"].t
            out += [("request-counter-incremented", nr1 == nr0 + 1),
                    ("worker-stops-accepting-at-max_requests", Implies(nr1 >= o0.fields["max_requests"].t, Not(c.ex.truth(o1.fields["alive"], st1)))),
                    ("alive-untouched-below-max_requests", Implies(nr1 < o0.fields["max_requests"].t,
                                                                   c.ex.truth(o1.fields["alive"], st1) == c.ex.truth(o0.fields["alive"], st0)))]
        return out

    def exc_post(self, c):
        out = self.common_post(c)
        resp = c.st.ghost.get("resp")
        cl = c.st.obj(self.client(c))
        if c.exc is not None and c.exc.cls is StopIteration and resp is not None and not self.stopiter_is_close(c):
            out.append(("StopIteration=>head-was-sent-and-connection-torn-down", And(c.ex.truth(c.st.obj(resp).fields["headers_sent"], c.st))))
        if c.exc is not None and c.exc.cls in (AppError, AppBaseError) and resp is not None:
            out.append(("application-error-propagates-only-before-any-byte-of-the-head", Not(c.ex.truth(c.st.obj(resp).fields["headers_sent"], c.st))))
        return out

    def stopiter_is_close(self, c):
        return False

    def post(self, c):
        out = self.common_post(c)
        resp = c.st.ghost.get("resp")
        if resp is None:
            return out + [("response-created", FALSE)]
        ro = c.st.obj(resp)
        out += [("response-completed:head-sent", c.ex.truth(ro.fields["headers_sent"], c.st)),
                ("response-completed:close()-ran", c.ex.truth(ro.fields.get("g_closed", SBool(False)), c.st))]
        return out


def _rcc(L):
    class C:
        pass
    c = C()
    c.st, c.ex, c.a, c.mode = L.st, L.ex, {"self": L.st.ghost["resp"]}, "verify"
    return c


def _log(L, st):
    return st.obj(st.obj(L.self).fields["log"])


HR_LOOP = {0: dict(anchor="for item in respiter", cands=[
    ("RI(resp)", lambda L: And(*[f for _, f in W.RI_resp(_rcc(L), L.st)])),
    ("send_headers-pre", lambda L: And(*[f for _, f in W.SendHeaders.pre(W.SendHeaders(), _rcc(L))])),
    ("chunked-fixed", lambda L: L.ex.truth(L.st.obj(L.st.ghost["resp"]).fields["chunked"], L.st) == L.ex.truth(L.entry.obj(L.entry.ghost["resp"]).fields["chunked"], L.entry)),
    ("no-record-yet", lambda L: _log(L, L.st).fields["g_access"].t == _log(L, L.entry).fields["g_access"].t),
    ("not-closed-yet", lambda L: Not(L.ex.truth(L.st.obj(L.st.ghost["resp"]).fields["g_closed"], L.st))),
])}
_HandleRequest.loops = HR_LOOP


def _resp_close_effects(self, c):
    c.st.obj(c.a["self"]).fields["g_closed"] = SBool(True)


W.RespClose.effects = _resp_close_effects


@contract("gunicorn.workers.sync:SyncWorker.handle_request", props=("C02", "C18", "C19"))
class SyncHandleRequest(_HandleRequest):
    worker_cls, worker_mod = "SyncWorker", "gunicorn.workers.sync"

    def mk_args(self, env, st, slf):
        return {"self": slf, "listener": mk_sock(env, st, "listener"), "req": mk_reqobj(env, st), "client": mk_sock(env, st, "client"),
                "addr": STuple([strops.fresh_str(st, "addr.host", True), SInt(fresh_int("addr.port"))])}

    def client(self, c):
        return c.a["client"]

    def post(self, c):
        out = _HandleRequest.post(self, c)
        resp = c.st.ghost.get("resp")
        if resp is not None:
            out.append(("sync-worker-never-keeps-the-connection", c.ex.truth(c.st.obj(resp).fields["must_close"], c.st)))
        return out


@contract("gunicorn.workers.gthread:ThreadWorker.handle_request", props=("C02", "C18", "C19"))
class ThreadHandleRequest(_HandleRequest):
    worker_cls, worker_mod = "ThreadWorker", "gunicorn.workers.gthread"

    def extra_fields(self, env, st):
        keep = st.alloc(HList(sym=ListShape(IntShape()).fresh_seq(st, "_keep", view=False)))
        mk = z3.Int("self.max_keepalived")
        return {"_keep": keep, "max_keepalived": SInt(mk)}

    def mk_args(self, env, st, slf):
        env.use_class("gunicorn.workers.gthread", "TConn")
        conn = st.alloc(HObj("TConn", {"sock": mk_sock(env, st, "client"), "client": Opaque("addr"), "server": Opaque("server")}))
        return {"self": slf, "req": mk_reqobj(env, st), "conn": conn}

    def client(self, c):
        return c.st.obj(c.a["conn"]).fields["sock"]

    def result_shape(self, c):
        return BoolShape()

    def post(self, c):
        out = _HandleRequest.post(self, c)
        resp = c.st.ghost.get("resp")
        if resp is not None:
            keep = c.ex.truth(c.result, c.st)
            ro = c.st.obj(resp)
            o0 = c.old.obj(c.a["self"])
            cfg = c.field(o0.fields["cfg"], "keepalive", c.old)
            out += [("keep-alive-only-if-the-response-does-not-require-close", keep == Not(spec_should_close(c, c.st, resp))),
                    ("no-keep-alive-when-stopping-or-disabled", Implies(Or(Not(c.ex.truth(c.st.obj(c.a["self"]).fields["alive"], c.st)), cfg.t == 0), Not(keep)))]
        return out


@contract("gunicorn.workers.base_async:AsyncWorker.handle_request", props=("C02", "C18", "C19"))
class AsyncHandleRequest(_HandleRequest):
    worker_cls, worker_mod = "AsyncWorker", "gunicorn.workers.base_async"

    def mk_args(self, env, st, slf):
        return {"self": slf, "listener_name": Opaque("sockname"), "req": mk_reqobj(env, st), "sock": mk_sock(env, st, "client"),
                "addr": STuple([strops.fresh_str(st, "addr.host", True), SInt(fresh_int("addr.port"))])}

    def client(self, c):
        return c.a["sock"]

    def result_shape(self, c):
        return BoolShape()

    def stopiter_is_close(self, c):
        return True      # base_async signals "close the connection" to its keep-alive loop with StopIteration

    def exc_post(self, c):
        out = _HandleRequest.exc_post(self, c)
        resp = c.st.ghost.get("resp")
        if c.exc is not None and c.exc.cls is StopIteration and resp is not None:
            ro = c.st.obj(resp)
            out.append(("StopIteration=>close-required-or-error-after-the-head", Or(spec_should_close(c, c.st, resp), c.ex.truth(ro.fields["headers_sent"], c.st))))
        return out

    def post(self, c):
        out = _HandleRequest.post(self, c)
        resp = c.st.ghost.get("resp")
        if resp is not None:
            out.append(("returns-normally-only-if-keep-alive-is-safe", Not(spec_should_close(c, c.st, resp))))
        return out


# ======================================================================================================
# handle (per connection): parser model, contracts for sync / gthread / base_async
# ======================================================================================================
def parser_exceptions(env):
    E = http_errs(env)
    import ssl
    names = ["NoMoreData", "InvalidRequestLine", "InvalidRequestMethod", "InvalidHTTPVersion", "InvalidHeader", "InvalidHeaderName",
             "LimitRequestLine", "LimitRequestHeaders", "InvalidProxyLine", "ForbiddenProxyRequest", "InvalidSchemeHeaders",
             "UnsupportedTransferCoding", "ObsoleteFolding", "InvalidChunkSize", "ChunkMissingTerminator"]
    return [getattr(E, n) for n in names] + [StopIteration]       # TLS (ssl.SSLError) is not modelled: is_ssl is False by precondition


class ParserModel(ClassModel):
    """http.RequestParser as seen by the handlers (its own contracts are C01/C06/C07): next() yields the next request of the
    connection or raises one of the parser's exceptions / StopIteration / OSError. PROXY information is only ever attached
    to the FIRST request of a connection (Request.proxy_protocol contract)."""

    def call(self, ex, st, self_v, meth, args, kwargs, node):
        if meth != "__next__":
            return None
        o = st.obj(self_v)
        out = []
        for ecls in parser_exceptions(ex.env):
            s2 = st.fork()
            fields = {"errno": SInt(fresh_int("errno"))} if issubclass(ecls, OSError) else {}
            if ecls.__name__ == "SSLError":
                fields["args"] = STuple([SInt(fresh_int("sslerr"))])
            out.append(ex.res_exc(s2, SExc(ecls, fields.get("args", STuple([])).items if "args" in fields else (), fields)))
        s3 = st.fork()
        out.append(ex.res_exc(s3, oserr()))
        n = o.fields["g_count"].t + 1
        o.fields["g_count"] = SInt(n)
        req = mk_reqobj(ex.env, st)
        first = const_int(n) == 1 if const_int(n) is not None else None
        if first is True or first is None:
            info = SOpt(fresh_bool("ppi.some"), _mk_info(st))
            if first is None:
                st.assume(Implies(info.some, n == 1))
            st.obj(req).fields["proxy_protocol_info"] = info
            if "conn_ppi" not in st.ghost or first is True:
                st.ghost["conn_ppi"] = info
        st.obj(req).fields["g_number"] = SInt(n)
        out.append(ex.res(st, req))
        return out


def _mk_info(st):
    return st.alloc(HDict({"proxy_protocol": SStr.lit("TCP4"), "client_addr": strops.fresh_str(st, "ppi.caddr", True),
                           "client_port": SInt(fresh_int("ppi.cport")), "proxy_addr": strops.fresh_str(st, "ppi.paddr", True),
                           "proxy_port": SInt(fresh_int("ppi.pport"))}))


PARSER = ParserModel()


def mk_parser(env, st):
    env.class_models["ParserModel"] = PARSER
    return st.alloc(HObj("ParserModel", {"g_count": SInt(0)}))


def _ctor_request_parser(ex, st, self_v, args, kwargs, node):
    return R1(ex, st, mk_parser(ex.env, st))


STUBS["ctor:RequestParser"] = _ctor_request_parser


def _handle_request_callmode(cls):
    """call-mode pieces shared by the three handle_request contracts"""
    def modifies(self, c):
        s = c.a["self"]
        cl = self.client(c)
        log = c.st.obj(s).fields["log"]
        app = c.st.obj(s).fields["wsgi"]
        return [("field", s, "nr"), ("field", s, "alive", BoolShape()), ("field", log, "g_access"),
                ("field", cl, "g_wire", AnyStrShape(False)), ("field", cl, "g_wl"), ("field", cl, "g_closed", BoolShape()),
                ("field", cl, "g_shutdown", BoolShape()), ("field", cl, "g_broken", BoolShape()),
                ("field", app, "g_calls"), ("field", app, "g_returned", BoolShape())]
    cls.modifies = modifies
    orig_pre = cls.pre

    def pre(self, c):
        out = list(orig_pre(self, c))
        if c.mode == "call":
            g = c.st.ghost
            req = c.st.obj(c.a["req"])
            info = req.fields.get("proxy_protocol_info", NONE)
            if "conn_ppi" in g:
                conn = g["conn_ppi"]
                ct = c.ex.truth(conn, c.st)
                same = _same_info(c.ex, c.st, info, conn)
                out.append(("PROXY-declared-client-address-applies-to-every-request-of-the-connection",
                            If(ct, same, Not(c.ex.truth(info, c.st)))))
        return out
    cls.pre = pre


for _cls in (SyncHandleRequest, ThreadHandleRequest, AsyncHandleRequest):
    _handle_request_callmode(_cls)


def _opt_parts(v):
    if isinstance(v, SOpt):
        return v.some, v.inner
    if isinstance(v, SNone):
        return FALSE, None
    return TRUE, v


def _same_info(ex, st, a, b):
    sa, ia = _opt_parts(a)
    sb, ib = _opt_parts(b)
    if ia is None or ib is None:
        return And(Not(sa), Not(sb)) if (ia is None and ib is None) else (Not(sb) if ia is None else Not(sa))
    same_obj = TRUE if (isinstance(ia, Ref) and isinstance(ib, Ref) and ia.oid == ib.oid) else FALSE
    return And(sa == sb, Implies(sa, same_obj))


def _hr_call_post(c, self_obj_old, self_obj_new, log0, log1, app0, app1):
    return []


class _Handle(Contract):
    """C05: whatever the parser / application / socket does, nothing escapes the per-connection handler (except what is
    declared), the connection is closed (or handed back for keep-alive), at most one error page is written and only when
    nothing of a normal response was sent."""
    weight = 2

    def raises(self, c):
        return []

    def base_post(self, c, client):
        s1, s0 = c.st.obj(client), c.old.obj(client)
        e1 = s1.fields.get("g_errors", SInt(0)).t
        e0 = s0.fields.get("g_errors", SInt(0)).t
        app1 = c.st.obj(c.st.obj(c.a["self"]).fields["wsgi"])
        app0 = c.old.obj(c.old.obj(c.a["self"]).fields["wsgi"])
        return [("at-most-one-error-page", And(e1 - e0 >= 0, e1 - e0 <= 1)),
                ("application-called-at-most-once-per-parsed-request", app1.fields["g_calls"].t - app0.fields["g_calls"].t >= 0)]


@contract("gunicorn.workers.sync:SyncWorker.handle", props=("C05",))
class SyncHandle(_Handle):
    def cases(self, env):
        st = W.base_state(env)
        app = mk_app(env, st)
        slf, log = mk_worker(env, st, "SyncWorker", "gunicorn.workers.sync", wsgi=app)
        client = mk_sock(env, st, "client")
        st.obj(client).fields["g_errors"] = SInt(0)
        return [("conn", st, {"self": slf, "listener": mk_sock(env, st, "listener"), "client": client,
                              "addr": STuple([strops.fresh_str(st, "addr.host", True), SInt(fresh_int("addr.port"))])},
                 {"app": app, "log": log})]

    def pre(self, c):
        cfg = c.st.obj(c.a["self"]).fields["cfg"]
        return [("TLS-wrapping-not-modelled", Not(c.ex.truth(c.field(cfg, "is_ssl"), c.st)))]

    def post(self, c):
        return self.base_post(c, c.a["client"]) + [("connection-closed", c.ex.truth(c.st.obj(c.a["client"]).fields["g_closed"], c.st))]


@contract("gunicorn.workers.gthread:ThreadWorker.handle", props=("C05", "C08"))
class ThreadHandle(_Handle):
    def cases(self, env):
        out = []
        for first in (True, False):
            st = W.base_state(env)
            app = mk_app(env, st)
            keep = st.alloc(HList(sym=ListShape(IntShape()).fresh_seq(st, "_keep", view=False)))
            slf, log = mk_worker(env, st, "ThreadWorker", "gunicorn.workers.gthread", wsgi=app, _keep=keep,
                                 max_keepalived=SInt(z3.Int("self.max_keepalived")))
            env.use_class("gunicorn.workers.gthread", "TConn")
            client = mk_sock(env, st, "client")
            st.obj(client).fields["g_errors"] = SInt(0)
            parser = mk_parser(env, st)
            fields = {"sock": client, "client": STuple([strops.fresh_str(st, "addr.host", True), SInt(fresh_int("addr.port"))]),
                      "server": Opaque("server"), "parser": parser, "proxy_protocol_info": st.alloc(HDict({}))}
            if not first:
                # a later request on a kept-alive connection whose first request carried PROXY information
                k = z3.Int("parser.count")
                st.assume(k >= 1)
                st.obj(parser).fields["g_count"] = SInt(k)
                info = _mk_info(st)
                st.ghost["conn_ppi"] = info
                fields["proxy_protocol_info"] = info
            conn = st.alloc(HObj("TConn", fields))
            out.append(("first-request=%s" % first, st, {"self": slf, "conn": conn}, {"app": app, "log": log}))
        return out

    def raises(self, c):
        return [(AppBaseError, None)]      # gthread only catches Exception: a BaseException raised by the application reaches the future

    def result_shape(self, c):
        return TupleShape([BoolShape(), ConstShape(c.a["conn"])])

    def post(self, c):
        res = c.result
        ok = isinstance(res, STuple) and len(res.items) == 2 and isinstance(res.items[1], Ref) and res.items[1].oid == c.a["conn"].oid
        client = c.st.obj(c.a["conn"]).fields["sock"]
        return self.base_post(c, client) + [("returns-(keepalive, conn)", TRUE if ok else FALSE)]


class TimeoutCtxModel(ClassModel):
    pass


def _timeout_ctx(kind, ex, st, cmv, outcome):
    if isinstance(cmv, Ref) and isinstance(st.obj(cmv), HObj) and st.obj(cmv).cls == "TimeoutCtx":
        if kind == "enter":
            return [ex.res(st, NONE)]
        return [(st, outcome)]
    return None


@contract("gunicorn.workers.base_async:AsyncWorker.timeout_ctx", props=("C05",))
class TimeoutCtx(Contract):
    """abstract in base_async (gevent / eventlet supply a keep-alive timeout context): modelled as a no-op context"""
    trusted = True

    def result_shape(self, c):
        c.ex.env.ctx_models["timeout"] = _timeout_ctx
        return c.st.alloc(HObj("TimeoutCtx", {}))


@contract("gunicorn.workers.base_async:AsyncWorker.handle", props=("C05", "C08"))
class AsyncHandle(_Handle):
    def cases(self, env):
        st = W.base_state(env)
        app = mk_app(env, st)
        slf, log = mk_worker(env, st, "AsyncWorker", "gunicorn.workers.base_async", wsgi=app)
        client = mk_sock(env, st, "client")
        st.obj(client).fields["g_errors"] = SInt(0)
        return [("conn", st, {"self": slf, "listener": mk_sock(env, st, "listener"), "client": client,
                              "addr": STuple([strops.fresh_str(st, "addr.host", True), SInt(fresh_int("addr.port"))])},
                 {"app": app, "log": log})]

    def post(self, c):
        return self.base_post(c, c.a["client"]) + [("connection-closed", c.ex.truth(c.st.obj(c.a["client"]).fields["g_closed"], c.st))]

    loops = {0: dict(anchor="while True", cands=[
        ("carry-over:local-info-is-the-connection's-PROXY-info", lambda L: _carry_inv(L)),
        ("errors-unchanged", lambda L: L.st.obj(L.client).fields["g_errors"].t == L.entry.obj(L.client).fields["g_errors"].t),
        ("calls-monotone", lambda L: L.st.obj(L.st.obj(L.self).fields["wsgi"]).fields["g_calls"].t >= L.entry.obj(L.entry.obj(L.self).fields["wsgi"]).fields["g_calls"].t),
        ("parser-count>=0", lambda L: L.st.obj(L.parser).fields["g_count"].t >= 0),
    ])}


def _carry_inv(L):
    g = L.st.ghost
    cnt = L.st.obj(L.parser).fields["g_count"].t
    local = L.proxy_protocol_info
    if "conn_ppi" not in g:
        return And(cnt == 0, Not(L.ex.truth(local, L.st)))
    conn = g["conn_ppi"]
    ct = L.ex.truth(conn, L.st)
    inner = conn.inner if isinstance(conn, SOpt) else conn
    return If(cnt == 0, Not(L.ex.truth(local, L.st)),
              If(ct, L.ex.identical(local, inner, L.st), Not(L.ex.truth(local, L.st))))


# ======================================================================================================
# Worker.__init__ : max_requests limit computation (C18)
# ======================================================================================================
def _randint(ex, st, self_v, args, kwargs, node):
    # TRUSTED: random.randint(a, b) returns an int in [a, b] (raises ValueError when a > b)
    a, b = args[0].t, args[1].t
    ok, bad = ex.split(st, a <= b)
    out = []
    if ok is not None:
        r = fresh_int("randint")
        ok.assume(a <= r, r <= b)
        out.append(ex.res(ok, SInt(r)))
    if bad is not None:
        out.append(ex.res_exc(bad, SExc(ValueError)))
    return out


STUBS["random.randint"] = _randint
STUBS["random.Random.randint"] = _randint
STUBS["Random.randint"] = _randint


def _workertmp(ex, st, self_v, args, kwargs, node):
    return R1(ex, st, st.alloc(HObj("WorkerTmpModel", {})))


STUBS["ctor:WorkerTmp"] = _workertmp


@contract("gunicorn.workers.base:Worker.__init__", props=("C18",))
class WorkerInit(Contract):
    def cases(self, env):
        env.use_class("gunicorn.workers.base", "Worker")
        st = W.base_state(env)
        cfg = mk_cfg(env, st)
        slf = st.alloc(HObj("Worker", {}))
        return [("init", st, {"self": slf, "age": SInt(z3.Int("age")), "ppid": SInt(z3.Int("ppid")), "sockets": Opaque("sockets"),
                              "app": Opaque("app"), "timeout": SReal(z3.Real("timeout")), "cfg": cfg, "log": Opaque("log")}, {})]

    def raises(self, c):
        return [(RuntimeError, None), (OSError, None)]

    def post(self, c):
        o = c.st.obj(c.a["self"])
        cfg = c.a["cfg"]
        mr = c.field(cfg, "max_requests", c.old).t
        jit = c.field(cfg, "max_requests_jitter", c.old).t
        import sys
        m = o.fields["max_requests"].t
        return [("limit-within-[max_requests, max_requests+jitter]", Implies(mr > 0, And(m >= mr, m <= mr + jit))),
                ("unset=>never-recycled(limit-is-sys.maxsize)", Implies(mr <= 0, m == sys.maxsize)),
                ("starts-alive-with-zero-requests", And(c.ex.truth(o.fields["alive"], c.st), o.fields["nr"].t == 0)),
                ("age-and-timeout-recorded", And(o.fields["age"].t == c.a["age"].t, o.fields["timeout"].t == c.a["timeout"].t))]
