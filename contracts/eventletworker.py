"""C04 / C10 for the eventlet worker: the shutdown sequence of EventletWorker.run.

eventlet is not installed here: gunicorn/workers/geventlet.py cannot be imported, its module-level names are bound to ABSTRACT
models (ASSUMED from the eventlet documentation):
  eventlet.spawn(fn, ...) : a green thread ("acceptor"); .kill(exc) raises exc inside it (StopServe = finish the connections in
                            flight, then return), .kill() stops it at once; .wait() blocks until it has finished, and is where an
                            active eventlet.Timeout fires
  eventlet.Timeout(secs)  : context manager AND exception; on expiry raises ITSELF inside the block
  eventlet.sleep(s)       : yields to the hub
"""
import functools

import z3

from pyvc.contracts import contract, Contract
from pyvc.env import STUBS, R1, ClassModel
from pyvc.smt import And, Or, Not, Implies, iv, fresh_int, fresh_name, TRUE, FALSE
from pyvc.values import SInt, SBool, SReal, NONE, Ref, HObj, HList, SExc, Opaque, StubV, ModV, ClassV, Unsupported
from pyvc.state import State
from .workers import mk_worker, AppError

MOD = "gunicorn.workers.geventlet"


class ETimeout(Exception):
    """synthetic stand-in for eventlet.Timeout (context manager + exception)"""


class EStopServe(Exception):
    """synthetic stand-in for eventlet.StopServe"""


class Acceptor(ClassModel):
    def call(self, ex, st, self_v, meth, args, kwargs, node):
        o = st.obj(self_v)
        k = o.fields["g_k"]
        g = st.ghost
        if meth == "kill":
            if args and isinstance(args[0], SExc) and args[0].cls is EStopServe:
                g["asked_%d" % k] = TRUE
            elif not args:
                g["killed_%d" % k] = TRUE
            else:
                raise Unsupported("acceptor.kill(%r)" % (args[0],))
            return [ex.res(st, NONE)]
        if meth == "wait":
            outs = []
            ok = st.fork()
            ok.ghost["finished_%d" % k] = TRUE
            outs.append(ex.res(ok, NONE))
            active = g.get("active_timeout")
            if active is not None:
                to = st.fork()
                outs.append(ex.res_exc(to, active))                         # the graceful timeout fires while waiting
            other = st.fork()
            other.ghost["foreign_timeout"] = TRUE
            outs.append(ex.res_exc(other, SExc(ETimeout, (), {})))          # some other Timeout (e.g. from application code)
            bad = st.fork()
            outs.append(ex.res_exc(bad, SExc(AppError)))
            return outs
        return None


def _spawn(ex, st, self_v, args, kwargs, node):
    k = st.ghost["nacc"]
    st.ghost["nacc"] = k + 1
    for n in ("asked", "killed", "finished"):
        st.ghost["%s_%d" % (n, k)] = FALSE
    return R1(ex, st, st.alloc(HObj("Acceptor", {"g_k": k})))


def _esleep(ex, st, self_v, args, kwargs, node):
    hb = st.obj(st.ghost["worker_ref"]).fields["timeout"].t
    a = z3.ToReal(args[0].t) if isinstance(args[0], SInt) else args[0].t
    if st.ghost.get("in_main_loop", True):
        st.ghost["wait_ok"] = And(st.ghost["wait_ok"], Or(hb == 0, a <= hb))
    return R1(ex, st, NONE)


def _timeout_ctx(kind, ex, st, cmv, outcome):
    if isinstance(cmv, SExc) and cmv.cls is ETimeout:
        if kind == "enter":
            st.ghost["active_timeout"] = cmv
            return [ex.res(st, cmv)]
        st.ghost["active_timeout"] = None
        return [(st, outcome)]
    return None


class GreenSock(ClassModel):
    def call(self, ex, st, self_v, meth, args, kwargs, node):
        if meth == "setblocking":
            return [ex.res(st, NONE)]
        return None


def _ctor_greensock(ex, st, self_v, args, kwargs, node):
    return R1(ex, st, st.alloc(HObj("GreenSock", {})))


def _notify(ex, st, self_v, args, kwargs, node):
    return R1(ex, st, NONE)


@contract("gunicorn.workers.geventlet:EventletWorker.run", props=("C04", "C10", "C11"))
class EventletRun(Contract):
    """after the loop ends every acceptor is asked to finish what is in flight (StopServe) and run() returns normally only
    when EVERY acceptor has finished - or when the graceful timeout fired, in which case every acceptor is killed; a
    Timeout that is not the graceful one is not swallowed"""

    def cases(self, env):
        st = State()
        env.class_models.update({"Acceptor": Acceptor(), "GreenSock": GreenSock()})
        env.ctx_models["etimeout"] = _timeout_ctx
        STUBS.update({"eventlet.spawn": _spawn, "eventlet.sleep": _esleep, "ctor:GreenSock": _ctor_greensock, "ew.notify": _notify})
        w, log = mk_worker(env, st, "EventletWorker", "gunicorn.workers.base",
                           sockets=st.alloc(HList([Opaque("lsock0"), Opaque("lsock1")])), worker_connections=SInt(z3.Int("self.worker_connections")))
        o = st.obj(w)
        o.fields["notify"] = StubV("ew.notify", w)
        o.fields["handle"] = Opaque("bound-handle")
        env.global_overrides = {(MOD, "GreenSocket"): StubV("ctor:GreenSock"), (MOD, "eventlet"): ModV("eventlet"),
                                (MOD, "partial"): ClassV(functools.partial), (MOD, "_eventlet_serve"): Opaque("serve-function")}
        env.mod_attr_overrides = {"eventlet.Timeout": ClassV(ETimeout), "eventlet.StopServe": ClassV(EStopServe)}
        st.ghost.update({"nacc": 0, "active_timeout": None, "foreign_timeout": FALSE, "wait_ok": TRUE, "worker_ref": w})
        hbp = z3.Real("self.timeout")
        st.assume(hbp >= 0)
        o.fields["timeout"] = SReal(hbp)
        return [("two-listeners", st, {"self": w}, {})]

    def raises(self, c):
        return [(ETimeout, None), (AppError, None)]

    def exc_post(self, c):
        g = c.st.ghost
        n = g["nacc"]
        return [("every-acceptor-was-asked-to-stop-serving", And(*[g["asked_%d" % k] for k in range(n)]))]

    def post(self, c):
        g = c.st.ghost
        n = g["nacc"]
        return [("one-acceptor-per-listener", TRUE if n == 2 else FALSE),
                ("every-acceptor-was-asked-to-stop-serving", And(*[g["asked_%d" % k] for k in range(n)])),
                ("sleeps-between-heartbeats-are-bounded-by-the-heartbeat-period", g["wait_ok"]),
                ("returns-only-when-every-acceptor-finished-or-(graceful-timeout)-every-acceptor-was-killed",
                 Or(And(*[g["finished_%d" % k] for k in range(n)]), And(*[g["killed_%d" % k] for k in range(n)]))),
                ("a-Timeout-that-is-not-the-graceful-one-is-never-swallowed", Not(g["foreign_timeout"]))]

    loops = {0: dict(anchor="for sock in self.sockets", cands=[]), 1: dict(anchor="while self.alive", cands=[("wait_ok", lambda L: L.st.ghost["wait_ok"])])}
