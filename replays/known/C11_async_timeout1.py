"""C11 replay for the gevent and eventlet workers with --timeout 1 (heartbeat period 0.5): the libraries are not installed in
this sandbox, so minimal stand-in modules are injected (sleep = advance a virtual clock by exactly the requested time + 10 ms of
scheduling delay); the REAL GeventWorker.run / EventletWorker.run main loops are executed. Prints the largest heartbeat age
an idle worker reaches; exit 1 if it exceeds the timeout (murder_workers would kill it)."""
import sys, types
sys.path.insert(0, sys.argv[1] if len(sys.argv) > 1 else "/repo")
T = 1.0
clock = [0.0]
beats = []
worst = [0.0]
state = {"w": None, "n": 0}

def sleep(s=0):
    clock[0] += s + (0.01 if s else 0)
    if beats:
        worst[0] = max(worst[0], clock[0] - beats[-1])
    state["n"] += 1
    if state["n"] >= 4 and state["w"] is not None:
        state["w"].alive = False

def mod(name, **attrs):
    m = types.ModuleType(name)
    m.__dict__.update(attrs)
    sys.modules[name] = m
    return m

class Pool:
    def __init__(self, n): self.size = n
    def free_count(self): return self.size
class StreamServer:
    def __init__(self, s, handle=None, spawn=None, **kw): self.pool = spawn
    def start(self): pass
    def close(self): pass
    def stop(self, timeout=None): pass
mod("packaging"); mod("packaging.version", parse=lambda v: (99,))
g = mod("gevent", __version__="99.0", sleep=sleep, Timeout=type("Timeout", (Exception,), {}), GreenletExit=type("GreenletExit", (BaseException,), {}))
mod("gevent.pool", Pool=Pool); mod("gevent.server", StreamServer=StreamServer)
for n in ("hub", "monkey", "socket", "pywsgi"):
    setattr(g, n, mod("gevent." + n))
sys.modules["gevent.pywsgi"].WSGIHandler = object; sys.modules["gevent.pywsgi"].WSGIServer = object
class GT:
    def kill(self, *a): pass
    def wait(self): pass
e = mod("eventlet", __version__="99.0", sleep=sleep, spawn=lambda *a, **k: GT(), StopServe=type("StopServe", (Exception,), {}))
class Timeout(Exception):
    def __init__(self, s=None): pass
    def __enter__(self): return self
    def __exit__(self, *a): return False
e.Timeout = Timeout
mod("eventlet.hubs"); mod("eventlet.greenthread"); e.hubs = sys.modules["eventlet.hubs"]; e.greenthread = sys.modules["eventlet.greenthread"]
class GreenSocket:
    def __init__(self, s): pass
    def setblocking(self, b): pass
mod("eventlet.greenio", GreenSocket=GreenSocket); mod("eventlet.wsgi"); e.wsgi = sys.modules["eventlet.wsgi"]
mod("greenlet", GreenletExit=type("GreenletExit", (BaseException,), {}))

from gunicorn.config import Config
bad = 0
for modname, cls in (("gunicorn.workers.ggevent", "GeventWorker"), ("gunicorn.workers.geventlet", "EventletWorker")):
    m = __import__(modname, fromlist=[cls])
    W = getattr(m, cls)
    w = W.__new__(W)
    cfg = Config(); cfg.set("timeout", int(T))
    w.cfg = cfg; w.timeout = T / 2; w.alive = True; w.worker_connections = 10; w.server_class = None
    class S:
        def setblocking(self, b): pass
    w.sockets = [S()]; w.wsgi = None; w.log = types.SimpleNamespace(warning=lambda *a: None); w.pid = 1
    clock[0] = 0.0; beats.clear(); worst[0] = 0.0; state["w"] = w; state["n"] = 0
    w.notify = lambda: beats.append(clock[0])
    w.handle = lambda *a: None
    w.run()
    print("%s: timeout=%.0fs, idle worker heartbeat age reaches %.2fs" % (cls, T, worst[0]))
    bad += worst[0] > T
sys.exit(1 if bad else 0)
