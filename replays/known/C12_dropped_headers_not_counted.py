"""C12 replay: limit_request_fields=2, three header fields whose names contain an underscore (dropped by the default
header_map). The request carries MORE fields than the limit and must be rejected (LimitRequestHeaders)."""
import sys
sys.path.insert(0, sys.argv[1] if len(sys.argv) > 1 else "/repo")
from gunicorn.config import Config
from gunicorn.http.parser import RequestParser
from gunicorn.http.errors import LimitRequestHeaders

cfg = Config()
cfg.set("limit_request_fields", 2)
data = b"GET / HTTP/1.1\r\nX_0: a\r\nX_1: b\r\nX_2: c\r\n\r\n"
try:
    req = next(RequestParser(cfg, iter([data]), ("10.0.0.1", 1)))
    print("accepted with headers %r although 3 fields > limit_request_fields=2" % (req.headers,))
    sys.exit(1)
except LimitRequestHeaders as e:
    print("rejected:", e)
    sys.exit(0)
