"""Known finding C02: body bytes handed to write() are put on the wire for responses that must not have a body
(HEAD, 1xx, 204, 304), even on a connection announced keep-alive. Exit 1 while it still happens."""
import sys, io
sys.path.insert(0, "/verif")
from harness.response_diff import Sock, Req
from gunicorn.config import Config
from gunicorn.http import wsgi
sock = Sock()
req = Req((1, 1), "HEAD", None)
resp, environ = wsgi.create(req, sock, ("1.2.3.4", 5), ("127.0.0.1", 80), Config())
resp.start_response("200 OK", [("Content-Length", "3")])
resp.write(b"abc")
resp.close()
head, _, rest = sock.out.partition(b"\r\n\r\n")
print("bytes after the head of a HEAD response:", rest)
sys.exit(1 if rest else 0)
