"""C12 replay (known finding): a chunked request whose chunk-size line / chunk extension / trailer block never ends.
The parser keeps buffering: it pulls the whole 2 MiB offered instead of rejecting after a configuration-determined bound.
usage: C12_unbounded_chunk_line_and_trailers.py [chunk|trailer]   exit 1 while the defect is present"""
import os
import sys
sys.path.insert(0, os.path.dirname(os.path.dirname(os.path.dirname(os.path.abspath(__file__)))))
from harness import buffer_bound as B

which = sys.argv[1] if len(sys.argv) > 1 else "chunk"
head = b"POST / HTTP/1.1\r\nTransfer-Encoding: chunked\r\n\r\n" + (b"" if which == "chunk" else b"0\r\nX: ")
ok, detail = B.run(which, head, b"1" if which == "chunk" else b"v", 300, True, {"limit_request_field_size": 100, "limit_request_fields": 3})
print(detail)
sys.exit(0 if ok else 1)
