"""C13 replay: threaded worker with TWO listeners and worker_connections=1. One poller round reports both listeners readable;
the loop's capacity gate is evaluated once per round, so both connections are accepted: nr_conns (open connections) = 2 > 1."""
import sys, types, selectors
sys.path.insert(0, sys.argv[1] if len(sys.argv) > 1 else "/repo")
from gunicorn.workers import gthread as G
from gunicorn.config import Config

class Client:
    def setblocking(self, b): pass
    def fileno(self): return 50
    def close(self): pass

class Listener:
    def __init__(self, n): self.n = n
    def setblocking(self, b): pass
    def getsockname(self): return ("127.0.0.1", 8000 + self.n)
    def accept(self): return Client(), ("10.0.0.%d" % self.n, 1)
    def close(self): pass
    def fileno(self): return 10 + self.n

class Poller:
    def __init__(self): self.reg = {}; self.rounds = 0
    def register(self, fobj, ev, data): self.reg[id(fobj)] = (fobj, data)
    def unregister(self, fobj): self.reg.pop(id(fobj), None)
    def select(self, timeout):
        self.rounds += 1
        if self.rounds > 1:
            w.alive = False
            return []
        return [(types.SimpleNamespace(fileobj=f, data=d), selectors.EVENT_READ) for (f, d) in list(self.reg.values()) if isinstance(f, Listener)]
    def close(self): pass

class Pool:
    def shutdown(self, wait=True, **kw): pass

cfg = Config(); cfg.set("worker_connections", 1); cfg.set("threads", 1)
w = G.ThreadWorker.__new__(G.ThreadWorker)
w.cfg = cfg; w.worker_connections = 1; w.nr_conns = 0; w.alive = True
from collections import deque
import threading
w.futures = deque(); w._keep = deque(); w._lock = threading.RLock(); w.poller = Poller(); w.tpool = Pool()
w.sockets = [Listener(0), Listener(1)]; w.ppid = 1
w.notify = lambda: None; w.is_parent_alive = lambda: True
peak = [0]
orig_accept = G.ThreadWorker.accept
def accept(self, server, listener):
    orig_accept(self, server, listener)
    peak[0] = max(peak[0], self.nr_conns)
G.ThreadWorker.accept = accept
def fake_wait(fs, timeout=None, return_when=None):
    fake_wait.n += 1
    if fake_wait.n >= 2:
        w.alive = False
    return types.SimpleNamespace(done=[])
fake_wait.n = 0
G.futures.wait = fake_wait
w.run()
print("worker_connections=1, open connections after one poller round: %d" % peak[0])
sys.exit(1 if peak[0] > 1 else 0)
