"""Known finding C09: the hop-by-hop header 'Upgrade: websocket' set by the application is forwarded (deliberate
websocket support in Response.process_headers). Exit 1 while it is still forwarded."""
import sys
sys.path.insert(0, "/verif")
from harness.response_diff import Sock, Req
from gunicorn.config import Config
from gunicorn.http import wsgi
sock = Sock()
resp, environ = wsgi.create(Req((1, 1), "GET", None), sock, ("1.2.3.4", 5), ("127.0.0.1", 80), Config())
resp.start_response("101 Switching Protocols", [("Upgrade", "websocket"), ("Connection", "upgrade")])
resp.close()
print(sock.out)
sys.exit(1 if b"\r\nUpgrade: websocket\r\n" in sock.out else 0)
