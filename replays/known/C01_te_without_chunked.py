"""Known finding C01: a request with Transfer-Encoding that does not end in 'chunked' is handed to the application
(RFC 9112 6.1/6.3: MUST be answered with 400). Exit 1 while the real code still accepts it, 0 once it rejects."""
import sys
from gunicorn.config import Config
from gunicorn.http import RequestParser
for te in (b"gzip", b"identity"):
    data = b"POST /x HTTP/1.1\r\nHost: a\r\nTransfer-Encoding: " + te + b"\r\n\r\nhello"
    try:
        req = next(RequestParser(Config(), iter([data]), ("127.0.0.1", 1)))
        print("accepted:", te, "body reader length =", req.body.reader.length, "must_close =", req.must_close)
        sys.exit(1)
    except StopIteration:
        pass
    except Exception as e:
        print("rejected:", te, type(e).__name__)
sys.exit(0)
