import sys, io, logging
sys.path.insert(0, sys.argv[1] if len(sys.argv) > 1 else "/repo")
from gunicorn.config import Config
from gunicorn.http.parser import RequestParser
from gunicorn.http import wsgi
from gunicorn import glogging
import datetime

class S:
    def send(self, d): return len(d)
    def sendall(self, d): pass

cfg = Config()
cfg.set("accesslog", "-")
out = []
for raw in (b"GET /a\nINJECTED-LINE HTTP/1.1\r\nHost: x\r\n\r\n", b"GET /a\rb HTTP/1.1\r\nHost: x\r\n\r\n",
            b"GET / HTTP/1.1\r\nHost: x\r\nUser-Agent: ua\x0bx\r\nReferer: r\r\n\r\n",
            b"GET / HTTP/1.1\r\nHost: x\r\nAuthorization: Basic " + __import__("base64").b64encode(b"us\ner:pw") + b"\r\n\r\n"):
    try:
        req = next(RequestParser(cfg, iter([raw]), ("10.0.0.1", 1)))
    except Exception as e:
        print("rejected:", type(e).__name__, raw[:30]); continue
    resp, environ = wsgi.create(req, S(), ("10.0.0.1", 1), ("127.0.0.1", 80), cfg)
    resp.status = "200 OK"; resp.status_code = 200; resp.sent = 0; resp.headers = []
    log = glogging.Logger(cfg)
    stream = io.StringIO()
    h = logging.StreamHandler(stream)
    log.access_log.handlers = [h]
    log.access_log.setLevel(logging.INFO)
    log.access(resp, req, environ, datetime.timedelta(seconds=0.01))
    rec = stream.getvalue()
    print(repr(rec))
    out.append(rec.count("\n") + rec.count("\r"))
bad = [n for n in out if n > 1]
print("records with more than the final newline:", bad)
sys.exit(1 if bad else 0)
