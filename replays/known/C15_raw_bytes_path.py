"""C15 replay: a request target with raw non-ASCII bytes. PEP 3333: PATH_INFO carries each byte as one latin-1 character."""
import sys
sys.path.insert(0, sys.argv[1] if len(sys.argv) > 1 else "/repo")
from gunicorn.config import Config
from gunicorn.http.parser import RequestParser
from gunicorn.http import wsgi

class S:
    def send(self, d): return len(d)

cfg = Config()
req = next(RequestParser(cfg, iter([b"GET /caf\xe9/%E9 HTTP/1.1\r\nHost: x\r\n\r\n"]), ("10.0.0.1", 1)))
_, environ = wsgi.create(req, S(), ("10.0.0.1", 1), ("127.0.0.1", 80), cfg)
want = "/caf\xe9/\xe9"
print("PATH_INFO = %r, expected %r" % (environ["PATH_INFO"], want))
sys.exit(0 if environ["PATH_INFO"] == want else 1)
