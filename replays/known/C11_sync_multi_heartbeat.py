"""C11 replay: sync worker with TWO listeners. Virtual clock: select() idles 0.45*T, then one request of 0.6*T (< T) is served.
Heartbeat age seen by the arbiter's murder_workers test (now - last_update > timeout) while that request is being handled."""
import sys, errno, types
sys.path.insert(0, sys.argv[1] if len(sys.argv) > 1 else "/repo")
from gunicorn.workers import sync as S

T = 30.0                      # cfg.timeout ; the worker is given T/2 as its select timeout (arbiter.spawn_worker)
clock = [0.0]
beats = []
worst = [0.0]

class Tmp:
    def notify(self): beats.append(clock[0])
    def fileno(self): return 5

class Listener:
    def __init__(self, n): self.n = n; self.pending = 0
    def accept(self):
        if not self.pending:
            raise BlockingIOError(errno.EAGAIN, "again")
        self.pending -= 1
        return Client(), ("127.0.0.1", 1)
    def setblocking(self, b): pass
    def fileno(self): return 10 + self.n

class Client:
    def setblocking(self, b): pass
    def fileno(self): return 99

w = S.SyncWorker.__new__(S.SyncWorker)
l0, l1 = Listener(0), Listener(1)
w.sockets = [l0, l1]; w.PIPE = (3, 4); w.wait_fds = [l0, l1, 3]
w.tmp = Tmp(); w.alive = True; w.nr = 0; w.ppid = 1
w.is_parent_alive = lambda: True
S.util.close_on_exec = lambda fd: None
rounds = [0]
def fake_select(r, w_, x, timeout):
    rounds[0] += 1
    if rounds[0] > 1:
        w.alive = False
        return [], [], []
    clock[0] += 0.45 * T          # idle, within the T/2 wait bound
    l0.pending = 1                # then a connection arrives
    return [l0], [], []
S.select.select = fake_select
def handle(listener, client, addr):
    start = clock[0]
    clock[0] += 0.6 * T           # a request SHORTER than the timeout
    # what the arbiter computes if it scans right before the request completes:
    worst[0] = max(worst[0], clock[0] - beats[-1])
w.handle = handle
w.run_for_multiple(T / 2)
print("heartbeats at", beats, "worst heartbeat age while serving a %.0fs request: %.1fs (timeout %.0fs)" % (0.6 * T, worst[0], T))
if worst[0] > T:
    print("VIOLATED: healthy worker (idle %.1fs <= T/2, request %.1fs < T) would be killed by murder_workers" % (0.45 * T, 0.6 * T))
    sys.exit(1)
print("ok")
