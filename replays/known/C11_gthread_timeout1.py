"""C11 replay: gthread worker, --timeout 1 (the worker is given timeout/2 = 0.5 as its heartbeat period). Virtual clock: the
poller blocks for exactly the time it is asked to. An IDLE worker's heartbeat age, as murder_workers() computes it."""
import sys, types
sys.path.insert(0, sys.argv[1] if len(sys.argv) > 1 else "/repo")
from gunicorn.workers import gthread as G
from gunicorn.config import Config
from collections import deque
import threading

T = 1.0                        # cfg.timeout
clock = [0.0]
beats = []
worst = [0.0]

class Poller:
    def __init__(self): self.rounds = 0
    def register(self, *a): pass
    def unregister(self, *a): pass
    def close(self): pass
    def select(self, timeout):
        self.rounds += 1
        clock[0] += timeout + 0.01                      # idle: blocks for the whole timeout, plus a little scheduling delay
        worst[0] = max(worst[0], clock[0] - beats[-1])  # what the arbiter sees if it scans now
        if self.rounds >= 3:
            w.alive = False
        return []

class Pool:
    def shutdown(self, *a, **k): pass

cfg = Config(); cfg.set("timeout", int(T))
w = G.ThreadWorker.__new__(G.ThreadWorker)
w.cfg = cfg; w.timeout = T / 2; w.worker_connections = 10; w.nr_conns = 0; w.alive = True
w.futures = deque(); w._keep = deque(); w._lock = threading.RLock(); w.poller = Poller(); w.tpool = Pool()
w.sockets = []; w.ppid = 1
w.notify = lambda: beats.append(clock[0]); w.is_parent_alive = lambda: True
G.futures.wait = lambda fs, timeout=None, return_when=None: types.SimpleNamespace(done=[])
w.run()
print("timeout=%.0fs: idle gthread worker heartbeat age reaches %.2fs" % (T, worst[0]))
sys.exit(1 if worst[0] > T else 0)
