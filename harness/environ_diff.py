"""Bounded stand-in for C15 and C08: the REAL parser (gunicorn.http.RequestParser) + gunicorn.http.wsgi.create against an
independent CGI / PEP 3333 mapping computed from the raw request bytes with specs/rfc9112.py.

Family: methods x request targets (origin form with percent escapes / raw high bytes / '//' prefix, absolute form, '*') x
header sets (duplicates, Content-Type / Content-Length, hyphen / underscore / case variants, secure-scheme headers, conflicting
scheme headers, SCRIPT_NAME as a header, X-Forwarded-* forwarder headers) x peer (listed, unlisted, unix socket) x
configuration (forwarded_allow_ips, forwarder_headers, header_map, secure_scheme_headers, SCRIPT_NAME in the process
environment) x PROXY protocol line (on/off, allowed/not) x position on a keep-alive connection (1st / 2nd request).
Checks (facet c15): REQUEST_METHOD, RAW_URI, SERVER_PROTOCOL, QUERY_STRING, CONTENT_TYPE, CONTENT_LENGTH, every HTTP_* value
 (comma-joined in order), PATH_INFO (percent-decoded, one latin-1 char per byte, after SCRIPT_NAME), no extra HTTP_* key.
Checks (facet c08): two differently spelled names never share a variable under header_map drop/refuse; wsgi.url_scheme,
 SCRIPT_NAME, REMOTE_ADDR differ from their untrusted defaults only for a peer in the corresponding allow list; PROXY-declared
 client address on every request of the connection.
"""
import io
import itertools
import json
import os
import random
import sys

ROOT = os.path.dirname(os.path.dirname(os.path.abspath(__file__)))
sys.path.insert(0, ROOT)
from specs import rfc9112  # noqa: E402

from gunicorn.config import Config  # noqa: E402
from gunicorn.http.parser import RequestParser  # noqa: E402
from gunicorn.http import wsgi  # noqa: E402
from gunicorn.http.errors import ConfigurationProblem  # noqa: E402

TIER = os.environ.get("VERIF_TIER", "quick")
SEED = int(os.environ.get("VERIF_SEED", "0") or 0)


class Sock:
    def __init__(self):
        self.out = b""

    def send(self, d):
        self.out += d
        return len(d)

    def sendall(self, d):
        self.out += d


def pct_decode(b):
    """independent percent-decoding: %XX with two hex digits -> that byte; everything else unchanged"""
    out = bytearray()
    i = 0
    H = b"0123456789abcdefABCDEF"
    while i < len(b):
        if b[i] == 0x25 and i + 2 < len(b) + 0 and i + 2 <= len(b) - 1 + 0 and b[i + 1] in H and b[i + 2] in H:
            out.append(int(b[i + 1:i + 3], 16))
            i += 3
        else:
            out.append(b[i])
            i += 1
    return bytes(out)


def split_target(t):
    """(path, query) of a request target, independent of urllib: origin form, absolute form, '//'-prefixed, '*'"""
    s = t
    if not s.startswith(b"/") and b"://" in s.split(b"?")[0].split(b"#")[0]:
        rest = s.split(b"://", 1)[1]
        k = min([rest.find(c) for c in (b"/", b"?", b"#") if rest.find(c) >= 0] or [len(rest)])
        s = rest[k:]
    s = s.split(b"#", 1)[0]
    path, _, query = s.partition(b"?")
    return path, query


def expected_environ(req_ev, cfgd, peer, script_env, proxy_info):
    """the mapping the property describes, from the reference parser's event"""
    r = req_ev
    exp = {"REQUEST_METHOD": r["method"], "RAW_URI": r["target"], "SERVER_PROTOCOL": "HTTP/%d.%d" % r["version"]}
    path, query = split_target(r["target"].encode("latin-1"))
    exp["QUERY_STRING"] = query.decode("latin-1")
    http = {}
    trusted = (cfgd["forwarded_allow_ips"] == ["*"]) or (not isinstance(peer, tuple)) or (peer[0] in cfgd["forwarded_allow_ips"])
    fwd = [h.upper() for h in cfgd["forwarder_headers"]] if trusted else []
    ssh = {k.upper(): v for k, v in cfgd["secure_scheme_headers"].items()} if trusted else {}
    scheme = "http"
    script_name = script_env
    for (name, value) in r["headers"]:
        n = (name.decode("latin-1") if isinstance(name, bytes) else name).upper()
        v = value.decode("latin-1") if isinstance(value, bytes) else value
        if "_" in n and not (n in fwd or "*" in fwd) and cfgd["header_map"] != "dangerous":
            continue              # dropped (or the request was refused before we get here)
        if n in ssh:
            scheme = "https" if v == ssh[n] else "http"
        if n == "SCRIPT_NAME":
            script_name = v
        if n == "CONTENT-TYPE":
            exp["CONTENT_TYPE"] = v
            continue
        if n == "CONTENT-LENGTH":
            exp["CONTENT_LENGTH"] = v
            continue
        key = "HTTP_" + n.replace("-", "_")
        http[key] = (http[key] + "," + v) if key in http else v
    exp.update(http)
    exp["wsgi.url_scheme"] = scheme
    exp["SCRIPT_NAME"] = script_name
    p = path.decode("latin-1")
    if script_name:
        if not p.startswith(script_name):
            return None          # ConfigurationProblem expected
        p = p[len(script_name):]
    exp["PATH_INFO"] = pct_decode(p.encode("latin-1")).decode("latin-1")
    if proxy_info:
        exp["REMOTE_ADDR"] = proxy_info[0]
        exp["REMOTE_PORT"] = str(proxy_info[1])
    elif isinstance(peer, tuple):
        exp["REMOTE_ADDR"] = peer[0]
        exp["REMOTE_PORT"] = str(peer[1])
    else:
        exp["REMOTE_ADDR"] = peer
    return exp


def mk_cfg(d):
    cfg = Config()
    for k, v in d.items():
        cfg.set(k, v)
    return cfg


TARGETS = [b"/", b"/a/b?x=1&y=2", b"/caf%C3%A9", b"/caf\xc3\xa9", b"/%41%zz%4", b"//dbl/slash?q", b"/a%2Fb/c%20d", b"*", b"http://h.example/p/q?z=1",
           b"/app/inner/x", b"/app", b"/%", b"/a?b?c#frag", b"/\xff\xfe"]
HEADER_SETS = [
    [],
    [(b"Host", b"h.example"), (b"Accept", b"a"), (b"Accept", b"b"), (b"accept", b"c")],
    [(b"Content-Type", b"text/plain"), (b"Content-Length", b"0"), (b"X-A", b"1")],
    [(b"Content-Type", b"a/b"), (b"Content-Type", b"c/d"), (b"Content-Length", b"0")],
    [(b"X-Forwarded-For", b"1.2.3.4"), (b"X_Forwarded_For", b"6.6.6.6")],
    [(b"X-Forwarded-Proto", b"https")],
    [(b"X-Forwarded-Proto", b"https"), (b"X-Forwarded-Ssl", b"off")],
    [(b"X-Forwarded-Proto", b"http"), (b"X-Forwarded-Protocol", b"ssl")],
    [(b"Script-Name", b"/app"), (b"SCRIPT_NAME", b"/app")],
    [(b"SCRIPT_NAME", b"/app")],
    [(b"Script_Name", b"/app/inner")],
    [(b"X-Val", b" padded \t"), (b"X-Val", b"two"), (b"X-Empty", b"")],
    [(b"Foo-Bar", b"1"), (b"Foo_Bar", b"2"), (b"FOO-BAR", b"3")],
    [(b"X-Hi", b"caf\xe9"), (b"Expect", b"100-continue"), (b"Content-Length", b"0")],
    [(b"X-Ws", b"\x0bvt\x0c"), (b"X-Ws2", b"\x1cfs \x85"), (b"X-Nbsp", b"\xa0x\xa0")],
]
PEERS = [("10.0.0.1", 1111), ("192.168.9.9", 2222), "/run/g.sock"]
CFGS = [
    {},
    {"forwarded_allow_ips": "10.0.0.1"},
    {"forwarded_allow_ips": "*", "forwarder_headers": "SCRIPT_NAME,PATH_INFO,X_FORWARDED_FOR"},
    {"forwarded_allow_ips": "10.0.0.1", "forwarder_headers": "*"},
    {"forwarded_allow_ips": "10.0.0.1", "header_map": "refuse"},
    {"forwarded_allow_ips": "192.168.9.9", "header_map": "dangerous"},
    {"forwarded_allow_ips": "10.0.0.1", "secure_scheme_headers": {"X-FORWARDED-PROTO": "https"}},
]


def cfg_view(cfg):
    return {"forwarded_allow_ips": list(cfg.forwarded_allow_ips), "forwarder_headers": list(cfg.forwarder_headers),
            "header_map": cfg.header_map, "secure_scheme_headers": dict(cfg.secure_scheme_headers)}


def build(method, target, headers):
    return method + b" " + target + b" HTTP/1.1\r\n" + b"".join(n + b": " + v + b"\r\n" for n, v in headers) + b"\r\n"


def run_case(method, target, headers, peer, cfgd, script_env, pos2):
    cfg = mk_cfg(cfgd)
    data = build(method, target, headers)
    stream = (build(b"GET", b"/first", [(b"Host", b"x")]) if pos2 else b"") + data
    # the request is built from known pieces: the expected mapping is computed from those pieces (field values with
    # only SP / HTAB trimmed), not from gunicorn's parse
    ev = {"method": method.decode("latin-1"), "target": target.decode("latin-1"), "version": (1, 1),
          "headers": [(n, v.strip(b" \t")) for n, v in headers]}
    os.environ.pop("SCRIPT_NAME", None)
    if script_env:
        os.environ["SCRIPT_NAME"] = script_env
    try:
        parser = RequestParser(cfg, iter([stream]), peer)
        try:
            req = next(parser)
            if pos2:
                req.body.read()
                req = next(parser)
        except Exception as e:
            return None, "refused:%s" % type(e).__name__
        sock = Sock()
        server = ("127.0.0.1", 8000)
        try:
            resp, environ = wsgi.create(req, sock, peer, server, cfg)
        except ConfigurationProblem:
            environ = None
        view = cfg_view(cfg)
        exp = expected_environ(ev, view, peer, script_env, None)
        return (environ, exp, view), "ok"
    finally:
        os.environ.pop("SCRIPT_NAME", None)


def compare(environ, exp):
    """-> list of (facet, class, detail)"""
    out = []
    if exp is None or environ is None:
        if (exp is None) != (environ is None):
            out.append(("c15", "script-name-prefix-check", "expected %s, got %s" % ("ConfigurationProblem" if exp is None else "an environ", "ConfigurationProblem" if environ is None else "an environ")))
        return out
    for k in ("REQUEST_METHOD", "RAW_URI", "SERVER_PROTOCOL", "QUERY_STRING", "PATH_INFO", "CONTENT_TYPE", "CONTENT_LENGTH"):
        if environ.get(k) != exp.get(k):
            out.append(("c15", "environ-mismatch:" + k, "%s: got %r expected %r" % (k, environ.get(k), exp.get(k))))
    got_http = {k: v for k, v in environ.items() if k.startswith("HTTP_")}
    exp_http = {k: v for k, v in exp.items() if k.startswith("HTTP_")}
    if got_http != exp_http:
        out.append(("c15", "environ-mismatch:HTTP_*", "got %r expected %r" % (got_http, exp_http)))
    for k in ("wsgi.url_scheme", "SCRIPT_NAME", "REMOTE_ADDR"):
        if environ.get(k) != exp.get(k):
            out.append(("c08", "trust-mismatch:" + k, "%s: got %r expected %r" % (k, environ.get(k), exp.get(k))))
    return out


def proxy_cases(mism, count):
    """PROXY protocol through the REAL connection handlers (sync: one request per connection; gthread / async: keep-alive):
    the declared client address is used only when the peer is allowed, and on EVERY request of the connection"""
    from harness import conn_diff
    line = b"PROXY TCP4 203.0.113.7 10.9.9.9 4444 80\r\n"
    two = line + build(b"GET", b"/one", [(b"Host", b"x")]) + build(b"GET", b"/two", [(b"Host", b"x")])
    for kind in ("sync", "gthread", "async"):
        for peer in PEERS[:2]:
            for allow in ("10.0.0.1", "*", "192.168.1.1"):
                cfg = mk_cfg({"proxy_protocol": True, "proxy_allow_ips": allow, "keepalive": 5})
                seen = []

                def app(environ, start_response, seen=seen):
                    seen.append(environ.get("REMOTE_ADDR"))
                    start_response("200 OK", [("Content-Length", "2")])
                    return [b"ok"]
                cls = {"sync": conn_diff.SyncWorker, "gthread": conn_diff.ThreadWorker, "async": conn_diff.TestAsync}[kind]
                w = conn_diff.mk_worker(cls, cfg, app)
                sock = conn_diff.FakeSock([two])
                allowed = allow == "*" or peer[0] in allow
                count[0] += 1
                try:
                    if kind == "gthread":
                        conn = conn_diff.TConn(cfg, sock, peer, ("127.0.0.1", 80))
                        conn.init()
                        for _ in range(5):
                            keep, cn = w.handle(conn)
                            if not keep:
                                break
                    else:
                        w.handle(conn_diff.FakeSock([]), sock, peer)
                except BaseException as e:
                    mism.setdefault("proxy-exception", {"class": "exception-escaped-handler", "check": "c08", "detail": "%s %s: %s" % (kind, type(e).__name__, e)})
                    continue
                want = "203.0.113.7" if allowed else None
                if allowed:
                    for k, got in enumerate(seen):
                        if got != want:
                            mism.setdefault("proxy-client-address", {"class": "proxy-client-address:request-%d" % (k + 1), "check": "c08",
                                                                      "detail": "%s worker, peer %r allow %r request #%d: REMOTE_ADDR %r expected %r" % (kind, peer, allow, k + 1, got, want)})
                    if not seen:
                        mism.setdefault("proxy-refused", {"class": "proxy-line-refused-for-allowed-peer", "check": "c08", "detail": "%s worker, peer %r allow %r: application never called" % (kind, peer, allow)})
                elif seen:
                    mism.setdefault("proxy-not-allowed", {"class": "proxy-line-accepted-from-unlisted-peer", "check": "c08",
                                                           "detail": "%s worker, peer %r allow %r: application called with REMOTE_ADDR %r" % (kind, peer, allow, seen)})


def main():
    rnd = random.Random(SEED)
    mism = {}
    evals = [0]
    combos = list(itertools.product(TARGETS, range(len(HEADER_SETS)), range(len(PEERS)), range(len(CFGS)), ("", "/app"), (False, True)))
    if TIER != "thorough":
        combos = rnd.sample(combos, 2500)
    nontrivial = set()
    for (target, hi, pi, ci, script_env, pos2) in combos:
        evals[0] += 1
        r, status = run_case(b"GET", target, HEADER_SETS[hi], PEERS[pi], CFGS[ci], script_env, pos2)
        if status != "ok":
            continue
        environ, exp, view = r
        nontrivial.add((target, hi, pi, ci, script_env))
        for (facet, cls, detail) in compare(environ, exp):
            mism.setdefault(cls, {"class": cls, "check": facet, "detail": detail, "target": target.decode("latin-1"), "headers": [[a.decode("latin-1"), b.decode("latin-1")] for a, b in HEADER_SETS[hi]],
                                  "peer": PEERS[pi], "cfg": CFGS[ci], "script_env": script_env, "second_request": pos2})
        # ambiguity: under drop / refuse two differently spelled names never share a variable
        if environ is not None and view["header_map"] != "dangerous" and not view["forwarder_headers"]:
            src = {}
            for (n, v) in HEADER_SETS[hi]:
                key = "HTTP_" + n.decode().upper().replace("-", "_")
                if key in environ and "_" not in n.decode():
                    src.setdefault(key, set()).add(n.decode().upper())
            for (n, v) in HEADER_SETS[hi]:
                key = "HTTP_" + n.decode().upper().replace("-", "_")
                if "_" in n.decode() and key in environ and v.decode("latin-1") in environ[key].split(","):
                    trusted = (view["forwarded_allow_ips"] == ["*"]) or not isinstance(PEERS[pi], tuple) or PEERS[pi][0] in view["forwarded_allow_ips"]
                    if not (trusted and (n.decode().upper() in [h.upper() for h in view["forwarder_headers"]] or "*" in view["forwarder_headers"])):
                        mism.setdefault("ambiguous-mapping", {"class": "ambiguous-header-mapping", "check": "c08", "detail": "%r reached %s=%r" % (n, key, environ[key])})
    proxy_cases(mism, evals)
    print(json.dumps({"evaluations": evals[0], "distinct": len(nontrivial), "mismatches": list(mism.values()),
                      "bound": "%d sampled of %d target x header-set x peer x configuration x SCRIPT_NAME x position combinations + 18 PROXY-protocol connection cases through the three worker handlers" % (len(combos), len(TARGETS) * len(HEADER_SETS) * len(PEERS) * len(CFGS) * 4)}))


if __name__ == "__main__":
    main()
