"""Bounded stand-in for the 'single line' clause of C19: the REAL parser + wsgi.create + glogging.Logger.access over hostile
requests. Family: request targets / header values / basic-auth user names containing each of the characters
{LF, CR, NUL, VT, FF, ESC, DEL, '"', NEL(0x85), TAB} at the start / middle / end, x access_log_format in {default, one with every
client-derived atom incl. %({x-h}i)s %({wsgi.url_scheme}e)s %(U)s %(q)s %(u)s}, for every request the real parser ACCEPTS.
Check: the emitted record is exactly ONE line (ends with one LF, no other CR / LF), and a double quote inside a client value
is always preceded by a backslash."""
import base64
import datetime
import io
import json
import logging
import os
import sys

ROOT = os.path.dirname(os.path.dirname(os.path.abspath(__file__)))
sys.path.insert(0, ROOT)

from gunicorn.config import Config  # noqa: E402
from gunicorn.http.parser import RequestParser  # noqa: E402
from gunicorn.http import wsgi  # noqa: E402
from gunicorn import glogging  # noqa: E402

CHARS = [b"\n", b"\r", b"\x00", b"\x0b", b"\x0c", b"\x1b", b"\x7f", b'"', b"\x85", b"\t"]
FORMATS = [None, '%(h)s %(u)s "%(r)s" %(s)s %(b)s "%(f)s" "%(a)s" %(U)s %(q)s %(m)s %(H)s "%({x-h}i)s" "%({cookie}i)s" %({wsgi.url_scheme}e)s %({raw_uri}e)s']


class S:
    def send(self, d):
        return len(d)

    def sendall(self, d):
        pass


def requests():
    out = []
    for ch in CHARS:
        for pos in ("start", "mid", "end"):
            v = {"start": ch + b"ab", "mid": b"a" + ch + b"b", "end": b"ab" + ch}[pos]
            out.append(("target", b"GET /" + v + b"?q=" + v + b" HTTP/1.1\r\nHost: x\r\n\r\n"))
            for h in (b"User-Agent", b"Referer", b"X-H", b"Cookie"):
                out.append(("header:" + h.decode(), b"GET / HTTP/1.1\r\nHost: x\r\n" + h + b": v" + v + b"v\r\n\r\n"))
            out.append(("auth-user", b"GET / HTTP/1.1\r\nHost: x\r\nAuthorization: Basic " + base64.b64encode(v + b":pw") + b"\r\n\r\n"))
            out.append(("method", b"GE" + v + b"T / HTTP/1.1\r\nHost: x\r\n\r\n"))
    return out


def main():
    mism = {}
    evals = accepted = 0
    for fmt in FORMATS:
        cfg = Config()
        cfg.set("accesslog", "-")
        if fmt:
            cfg.set("access_log_format", fmt)
        for (what, raw) in requests():
            evals += 1
            try:
                req = next(RequestParser(cfg, iter([raw]), ("10.0.0.1", 1)))
            except Exception:
                continue          # rejected by the parser: no application call, nothing to log here
            accepted += 1
            resp, environ = wsgi.create(req, S(), ("10.0.0.1", 1), ("127.0.0.1", 80), cfg)
            resp.status, resp.status_code, resp.sent, resp.headers = "200 OK", 200, 0, []
            log = glogging.Logger(cfg)
            stream = io.StringIO()
            log.access_log.handlers = [logging.StreamHandler(stream)]
            log.access_log.setLevel(logging.INFO)
            log.access_log.propagate = False
            log.access(resp, req, environ, datetime.timedelta(seconds=0.01))
            rec = stream.getvalue()
            body = rec[:-1] if rec.endswith("\n") else rec
            if not rec.endswith("\n") or "\n" in body or "\r" in body:
                mism.setdefault("multi-line:" + what.split(":")[0], {"class": "access-record-spans-several-lines:" + what.split(":")[0], "check": "c19",
                                                                      "detail": "%s -> %r" % (what, rec), "input": raw.decode("latin-1"), "format": fmt})
    print(json.dumps({"evaluations": evals, "accepted_by_parser": accepted, "mismatches": list(mism.values()),
                      "bound": "%d hostile requests x %d access_log_format values" % (len(requests()), len(FORMATS))}))


if __name__ == "__main__":
    main()
