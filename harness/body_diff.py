"""Bounded stand-in for C07: wsgi.input (gunicorn.http.body.Body over the real LengthReader / ChunkedReader / Unreader) must
behave like a binary file object over exactly the framed body, and the next request must start right after the body.

Family: bodies (7 layouts incl. lines around the 1024-byte block size) x framings (Content-Length, chunked with 3 chunk
layouts) x call programs (all sequences of length <= 2, plus seeded random sequences of length <= 5, over read/readline/readlines/
next with sizes None,-1,0,1,2,7,1023,1024,1025,5000) x segmentations (whole, 1-byte, 7-byte, 1000-byte, seeded random).
Oracle: io.BytesIO over the reference body (specs/rfc9112.py). Never counted as proof.
"""
import io
import itertools
import json
import os
import random
import sys

ROOT = os.path.dirname(os.path.dirname(os.path.abspath(__file__)))
sys.path.insert(0, ROOT)
from specs import rfc9112  # noqa: E402
from gunicorn.config import Config  # noqa: E402
from gunicorn.http import RequestParser  # noqa: E402

TIER = os.environ.get("VERIF_TIER", "quick")
SEED = int(os.environ.get("VERIF_SEED", "0") or 0)
SIZES = [None, -1, 0, 1, 2, 7, 1023, 1024, 1025, 5000]
NEXT = b"GET /next HTTP/1.1\r\nHost: n\r\n\r\n"


def bodies():
    line = b"0123456789abcdef\n"
    return [b"", b"x", b"hello\nworld", b"\n\n\n", line * 70, b"a" * 1023 + b"\n" + b"b" * 1030, (b"z" * 1024 + b"\n") * 3 + b"tail"]


def frame(body, kind):
    if kind == "cl":
        return b"POST /b HTTP/1.1\r\nHost: h\r\nContent-Length: %d\r\n\r\n" % len(body) + body
    sizes = {"ch1": [len(body)], "ch7": None, "chbig": None}[kind]
    out = b"POST /b HTTP/1.1\r\nHost: h\r\nTransfer-Encoding: chunked\r\n\r\n"
    if kind == "ch1":
        parts = [body] if body else []
    elif kind == "ch7":
        parts = [body[i:i + 7] for i in range(0, len(body), 7)]
    else:
        parts = [body[i:i + 1500] for i in range(0, len(body), 1500)]
    for p in parts:
        out += b"%x\r\n" % len(p) + p + b"\r\n"
    return out + b"0\r\n\r\n"


def cut(data, mode, rnd):
    if mode == "whole":
        return [data]
    if mode == "rnd":
        out, i = [], 0
        while i < len(data):
            k = rnd.choice([1, 2, 3, 5, 17, 100, 1024, 3000])
            out.append(data[i:i + k])
            i += k
        return out
    k = int(mode)
    return [data[i:i + k] for i in range(0, len(data), k)]


def apply(f, op, size):
    if op == "read":
        return f.read() if size == "noarg" else f.read(size)
    if op == "readline":
        return f.readline() if size == "noarg" else f.readline(size)
    if op == "readlines":
        return f.readlines()
    if op == "next":
        try:
            return next(f)
        except StopIteration:
            return "StopIteration"


def ref_apply(f, op, size):
    # io.BytesIO semantics; sizes None / negative mean "all"
    if op == "read":
        return f.read() if size in ("noarg", None) or (isinstance(size, int) and size < 0) else f.read(size)
    if op == "readline":
        return f.readline() if size in ("noarg", None) or (isinstance(size, int) and size < 0) else f.readline(size)
    if op == "readlines":
        return f.readlines()
    if op == "next":
        try:
            return next(f)
        except StopIteration:
            return "StopIteration"


def programs(rnd):
    ops = [("read", s) for s in SIZES + ["noarg"]] + [("readline", s) for s in SIZES + ["noarg"]] + [("readlines", None), ("next", None)]
    progs = [[o] for o in ops]
    if TIER == "thorough":
        progs += [list(p) for p in itertools.product(ops, repeat=2)]
    else:
        progs += [list(p) for p in rnd.sample(list(itertools.product(ops, repeat=2)), 120)]
    for _ in range(400 if TIER == "thorough" else 80):
        progs.append([rnd.choice(ops) for _ in range(rnd.randint(3, 5))])
    return progs


def run_case(body, kind, mode, prog, rnd):
    data = frame(body, kind) + NEXT
    ref = rfc9112.parse_stream(data)
    assert ref[0][0] == "request" and ref[0][1]["body"] == body, ref[0]
    chunks = cut(data, mode, rnd)
    p = RequestParser(Config(), iter(chunks), ("127.0.0.1", 1))
    req = next(p)
    f = io.BytesIO(body)
    for (op, size) in prog:
        try:
            got = apply(req.body, op, size)
        except Exception as e:
            return ("exception", "%s(%r) raised %s: %s" % (op, size, type(e).__name__, e))
        want = ref_apply(f, op, size)
        if got != want:
            return ("file-semantics", "%s(%r): got %r want %r" % (op, size, (got[:40] if isinstance(got, bytes) else got), (want[:40] if isinstance(want, bytes) else want)))
    # after EOF: empty forever (only checked when the program drained the body)
    try:
        nxt = next(p)
    except Exception as e:
        return ("next-request", "parsing the pipelined request failed: %s: %s" % (type(e).__name__, e))
    if nxt.uri != "/next" or nxt.method != "GET":
        return ("next-request", "next request parsed as %r %r" % (nxt.method, nxt.uri))
    if req.body.read(10) != b"":
        return ("eof-forever", "read after the body was drained returned data")
    return None


def main():
    rnd = random.Random(SEED)
    replay = os.environ.get("VERIF_REPLAY_CASE")
    mism = {}
    evals = 0
    if replay:
        c = json.loads(replay)
        r = run_case(c["body"].encode("latin-1"), c["kind"], c["mode"], [tuple(x) for x in c["prog"]], random.Random(c.get("rseed", 0)))
        print(json.dumps({"evaluations": 1, "mismatches": [dict(c, **{"class": r[0], "detail": r[1]})] if r else []}))
        return
    progs = programs(rnd)
    modes = ["whole", "1", "7", "1000", "rnd"]
    for body in bodies():
        for kind in ("cl", "ch1", "ch7", "chbig"):
            for prog in progs:
                for mode in (modes if TIER == "thorough" else rnd.sample(modes, 2)):
                    rseed = rnd.randint(0, 1 << 30)
                    r = run_case(body, kind, mode, prog, random.Random(rseed))
                    evals += 1
                    if r is not None and r[0] not in mism:
                        mism[r[0]] = {"class": r[0], "detail": r[1], "body": body.decode("latin-1"), "kind": kind, "mode": mode,
                                      "prog": [list(x) for x in prog], "rseed": rseed}
    print(json.dumps({"evaluations": evals, "mismatches": list(mism.values()),
                      "bound": "7 bodies x 4 framings x %d call programs x segmentations %s" % (len(progs), modes)}))


if __name__ == "__main__":
    main()
