"""Differential test of the engine's string / bytes / int stubs against CPython (runs under python3-vt: needs z3).

For every probe function f (a one-line Python function using ONE string operation the verified code uses) and every concrete
argument from a small domain, the REAL engine (same Executor, same stubs as the checks) symbolically executes f on a symbolic
string constrained to equal the concrete argument; every feasible path must produce exactly CPython's result (value or
exception class). A stub that models a different semantics than CPython shows up as a mismatch; nothing here is a property
check - it is evidence for the trusted base ("stubs model CPython on latin-1 text").
Prints one JSON line {evaluations, mismatches, bound}.
"""
import json
import os
import shutil
import sys
import tempfile

ROOT = os.path.dirname(os.path.dirname(os.path.abspath(__file__)))
sys.path.insert(0, ROOT)

PROBES = [
    # name, source of the function body expression, literal-argument variants, kind of input ('s' str / 'b' bytes)
    ("find", "s.find({0})", ["':'", "'ab'", "' '"], "s"),
    ("findb", "s.find({0})", ["b'\\r\\n'", "b';'"], "b"),
    ("contains", "{0} in s", ["'_'", "'ab'"], "s"),
    ("split1", "s.split({0}, 1)", ["':'"], "s"),
    ("split", "s.split({0})", ["','", "' '"], "s"),
    ("splitb", "s.split({0})", ["b'\\r\\n'"], "b"),
    ("strip", "s.strip({0})", ["' \\t'"], "s"),
    ("strip0", "s.strip()", [""], "s"),
    ("lstrip", "s.lstrip({0})", ["' \\t'"], "s"),
    ("rstrip", "s.rstrip({0})", ["' \\t'"], "s"),
    ("upper", "s.upper()", [""], "s"),
    ("lower", "s.lower()", [""], "s"),
    ("startswith", "s.startswith({0})", ["'ab'", "(' ', '\\t')"], "s"),
    ("endswith", "s.endswith({0})", ["'ab'"], "s"),
    ("slice_a", "s[{0}:]", ["1", "2"], "s"),
    ("slice_b", "s[:{0}]", ["1", "-1"], "s"),
    ("slice_ab", "s[{0}]", ["1:2", "-2:"], "s"),
    ("len", "len(s)", [""], "s"),
    ("int10", "int(s)", [""], "s"),
    ("int16", "int(s, 16)", [""], "s"),
    ("isdigit", "s.isdigit()", [""], "s"),
    ("replace1", "s.replace({0})", ["'-', '_'"], "s"),
    ("eq", "s == {0}", ["'ab'", "''"], "s"),
    ("concat", "{0} + s", ["'HTTP_'"], "s"),
    ("percent", "{0} % s", ["'<%s>'"], "s"),
    ("join", "{0}.join([s, s])", ["','"], "s"),
    ("decode", "s.decode('latin-1')", [""], "b"),
    ("encode", "s.encode('latin-1')", [""], "s"),
]

ALPHA_S = ["a", "b", "A", " ", "\t", ":", ",", "-", "_", "0", "7", "f", "\x0b", "\xe9"]
ALPHA_B = [b"a", b"\r", b"\n", b";", b"0"]


def domain(kind, tier):
    alpha = ALPHA_S if kind == "s" else ALPHA_B
    empty = "" if kind == "s" else b""
    out = [empty] + list(alpha)
    out += [x + y for x in alpha for y in alpha]
    if tier == "thorough":
        out += [x + y + z for x in alpha[:8] for y in alpha[:8] for z in alpha[:8]]
    else:
        pick = alpha[:6]
        out += [x + y + z for x in pick for y in pick for z in pick][::3]
    return out


def main():
    tier = os.environ.get("VERIF_TIER", "quick")
    import z3
    scratch = tempfile.mkdtemp(prefix="stubtest")
    try:
        os.makedirs(os.path.join(scratch, "gunicorn"))
        open(os.path.join(scratch, "gunicorn", "__init__.py"), "w").write("")
        lines = []
        table = []
        for (name, expr, variants, kind) in PROBES:
            for k, v in enumerate(variants):
                fn = "p_%s_%d" % (name, k)
                lines.append("def %s(s):\n    return %s\n" % (fn, expr.format(v)))
                table.append((fn, kind))
        src = "\n".join(lines)
        open(os.path.join(scratch, "gunicorn", "stubprobe.py"), "w").write(src)
        os.environ["PYVC_REPO"] = scratch
        from pyvc import load
        load.REPO = scratch
        from pyvc import env as envm
        from pyvc.exec import Executor
        from pyvc.state import State
        from pyvc.values import SStr, SInt, SBool, SNone, STuple, Ref, HList, Unsupported, str_eq
        from pyvc.smt import check_sat, Not, And
        from pyvc import strops
        repo = load.Repo(scratch)
        native = {}
        exec(src, native)
        evals, unsupported = 0, 0
        inexact = {}
        mism = {}

        def value_matches(ex, st, v, want):
            """z3 Bool: symbolic value v equals the concrete python value `want` (None if shapes differ)"""
            if isinstance(want, bool):
                return (v.t == want) if isinstance(v, SBool) else None
            if isinstance(want, int):
                return (v.t == want) if isinstance(v, SInt) else None
            if isinstance(want, (str, bytes)):
                if not isinstance(v, SStr) or v.is_str != isinstance(want, str):
                    return None
                return str_eq(v, SStr.lit(want))
            if isinstance(want, (list, tuple)):
                items = ex.concrete_items(st, v)
                if items is None:
                    seq = ex.sym_seq(st, v)
                    if seq is None:
                        return None
                    parts = [seq.length() == len(want)]
                    for i, w in enumerate(want):
                        m = value_matches(ex, st, seq.get(i), w)
                        if m is None:
                            return None
                        parts.append(m)
                    return And(*parts)
                if len(items) != len(want):
                    return z3.BoolVal(False)
                ms = [value_matches(ex, st, a, b) for a, b in zip(items, want)]
                return None if any(m is None for m in ms) else And(*ms)
            return None

        for (fn, kind) in table:
            finfo = repo.funcs["gunicorn.stubprobe:" + fn]
            for arg in domain(kind, tier):
                try:
                    want = ("value", native[fn](arg))
                except Exception as e:
                    want = ("raise", type(e))
                e = envm.VerifyEnv(repo)
                st = State()
                s = strops.fresh_str(st, "arg", kind == "s")
                st.assume(str_eq(s, SStr.lit(arg)))
                st.locals = {"s": s}
                ex = Executor(e, finfo, None)
                try:
                    outs = ex.run_block(finfo.body, st)
                except Unsupported:
                    unsupported += 1
                    continue
                except Exception as exn:
                    mism.setdefault("engine-error:" + fn, {"class": "engine-error", "probe": fn, "arg": repr(arg), "detail": "%s: %s" % (type(exn).__name__, exn)})
                    continue
                evals += 1
                # SOUND: CPython's outcome must be one of the outcomes the engine allows (some feasible path agrees with it);
                # EXACT: no feasible path allows anything else. Only unsoundness is a mismatch; inexact = over-approximation.
                sound, exact = False, True
                for (s1, o) in outs:
                    if check_sat(s1.pc, 4000)[0] == "unsat":
                        continue
                    if o is not None and o[0] == "raise":
                        got_cls = o[1].cls
                        if want[0] == "raise" and (issubclass(want[1], got_cls) or issubclass(got_cls, want[1])):
                            sound = True
                        else:
                            exact = False
                        continue
                    if want[0] == "raise":
                        exact = False
                        continue
                    v = o[1] if o is not None else None
                    m = value_matches(ex, s1, v, want[1])
                    if m is None:
                        exact = False
                        continue
                    if check_sat(list(s1.pc) + [m], 8000)[0] != "unsat":
                        sound = True
                    if check_sat(list(s1.pc) + [Not(m)], 8000)[0] != "unsat":
                        exact = False
                if not sound:
                    mism.setdefault("unsound:" + fn, {"class": "UNSOUND-stub-excludes-cpython-behaviour", "probe": fn, "arg": repr(arg),
                                                      "detail": "CPython: %r; no feasible engine path allows it" % (want,)})
                if not exact:
                    inexact[fn] = inexact.get(fn, 0) + 1
        print(json.dumps({"evaluations": evals, "mismatches": list(mism.values()), "unsupported_inputs": unsupported, "over_approximated_inputs_per_probe": inexact,
                          "bound": "%d probe functions x small string domains (alphabet of 14 chars / 5 bytes, length <= 3)" % len(table)}))
    finally:
        shutil.rmtree(scratch, ignore_errors=True)


if __name__ == "__main__":
    main()
