"""Bounded stand-in for the request parser (C01, C06, C12): drives the REAL gunicorn RequestParser over a stated finite
family of byte streams x segmentations and compares with the independent RFC 9112 reference (specs/rfc9112.py).

Checks per stream:
  framing   every request the real parser hands out equals the reference request at that index (method, target, version,
            headers, body bytes, end offset); nothing is handed out at/after a point where the reference rejects;
  segm      all segmentations of the same stream give the same outcome (requests + terminal condition);
Bound: the stream family below (templates x header obfuscations x single-byte mutations), segmentations: whole / bytewise /
every single cut (streams <= 80 bytes) / 3 seeded random cuts. Never counted as proof.
Prints one JSON line: {"evaluations": n, "mismatches": [{"class":..., "input":..., ...}], "bound": "..."}
"""
import json
import os
import random
import sys

ROOT = os.path.dirname(os.path.dirname(os.path.abspath(__file__)))
sys.path.insert(0, ROOT)
from specs import rfc9112  # noqa: E402

from gunicorn.config import Config  # noqa: E402
from gunicorn.http import RequestParser  # noqa: E402

DROP_UNDERSCORE = True      # gunicorn's documented default header_map='drop': underscore names are dropped, not mapped
SENTINEL = b"GET /next HTTP/1.1\r\nHost: s\r\n\r\n"
TIER = os.environ.get("VERIF_TIER", "quick")
SEED = int(os.environ.get("VERIF_SEED", "0") or 0)


def mkcfg(**kw):
    c = Config()
    for k, v in kw.items():
        c.set(k, v)
    return c


def run_real(data, cuts, cfg):
    """-> (list of request dicts, terminal) ; terminal = 'eof' | exception class name"""
    chunks = []
    prev = 0
    for c in cuts:
        if c > prev:
            chunks.append(data[prev:c])
            prev = c
    if prev < len(data):
        chunks.append(data[prev:])
    p = RequestParser(cfg, iter(chunks), ("127.0.0.1", 5000))
    out = []
    try:
        for _ in range(60):
            req = next(p)
            body = b""
            berr = None
            try:
                while True:
                    d = req.body.read(4096)
                    if not d:
                        break
                    body += d
            except Exception as e:  # truncated / malformed body detected while the application reads
                berr = type(e).__name__
            out.append(dict(method=req.method, target=req.uri, version=req.version, headers=list(req.headers), body=body,
                            trailers=list(req.trailers), body_error=berr))
            if berr:
                return out, "body:" + berr
    except StopIteration:
        return out, "eof"
    except Exception as e:
        return out, type(e).__name__
    return out, "limit"


def compare(data, real, terminal, ref):
    """-> None or (class, detail)"""
    k = 0
    for ev in ref:
        if k >= len(real):
            break
        if ev[0] == "request":
            r, q = real[k], ev[1]
            qh = [(n, v) for (n, v) in q["headers"] if "_" not in n] if DROP_UNDERSCORE else q["headers"]
            qt = [(n, v) for (n, v) in q["trailers"] if "_" not in n] if DROP_UNDERSCORE else q["trailers"]
            same = (r["method"] == q["method"] and r["target"] == q["target"] and tuple(r["version"]) == tuple(q["version"])
                    and r["headers"] == qh)
            if q.get("body_reject"):
                if not same:
                    return ("head-differs", "request %d" % k)
                if not r["body_error"]:
                    return ("accepted-malformed-body:" + q["body_reject"], "request %d: body read returned %r without error; reference: %s" % (k, r["body"][:40], q["body_reject"]))
                return None
            if not same:
                return ("head-differs", "request %d: real=%r ref=%r" % (k, (r["method"], r["target"], r["version"], r["headers"]),
                                                                       (q["method"], q["target"], q["version"], q["headers"])))
            if r["body"] != q["body"] and not (r["body_error"] and q["body"].startswith(r["body"])):
                return ("body-differs", "request %d: real body %r, reference body %r" % (k, r["body"][:60], q["body"][:60]))
            if q["complete"] and r["trailers"] != qt and not r["body_error"]:
                return ("trailers-differ", "request %d: %r vs %r" % (k, r["trailers"], q["trailers"]))
            k += 1
        elif ev[0] == "reject":
            return ("accepted-but-reference-rejects:" + ev[1], "request %d handed to the application; reference: %s at offset %d" % (k, ev[1], ev[2]))
        else:
            break
    if k < len(real):
        return ("extra-request", "real parser produced %d requests, reference %d" % (len(real), k))
    return None


def streams():
    """the stated finite family of inputs"""
    S = []
    base = [
        b"GET / HTTP/1.1\r\nHost: a\r\n\r\n",
        b"POST /p HTTP/1.1\r\nHost: a\r\nContent-Length: 5\r\n\r\nhello",
        b"POST /c HTTP/1.1\r\nTransfer-Encoding: chunked\r\n\r\n3\r\nabc\r\n2;x=y\r\nde\r\n0\r\n\r\n",
        b"POST /t HTTP/1.1\r\nTransfer-Encoding: chunked\r\n\r\n1\r\nz\r\n0\r\nX-T: v\r\n\r\n",
        b"GET /o HTTP/1.0\r\nConnection: keep-alive\r\n\r\n",
    ]
    for b in base:
        S.append(b + SENTINEL)
    # framing-header obfuscations (each followed by a 5 byte 'body' and the sentinel)
    hv = [b"Content-Length: 5", b"Content-Length: 5\r\nContent-Length: 5", b"Content-Length: 5\r\nContent-Length: 6",
          b"Content-Length:\r\nContent-Length: 5", b"Content-Length: +5", b"Content-Length: 5 ", b"Content-Length:  5",
          b"Content-Length: 0x5", b"Content-Length: 5,5", b"Content-Length: \xb2", b"Content-Length: -5", b"Content-Length : 5",
          b"Content-Length\t: 5", b"Content_Length: 5", b"content-length: 5", b"Content-Length: 05", b" Content-Length: 5",
          b"X: a\r\n Content-Length: 5", b"Content-Length: 5\r\nTransfer-Encoding: chunked",
          b"Transfer-Encoding: chunked\r\nContent-Length: 5", b"Transfer-Encoding: chunked", b"Transfer-Encoding: Chunked",
          b"Transfer-Encoding:chunked", b"Transfer-Encoding: chunked ", b"Transfer-Encoding: \tchunked",
          b"Transfer-Encoding: \x0bchunked", b"Transfer-Encoding: chunked\x0b", b"Transfer-Encoding: \x0cchunked",
          b"Transfer-Encoding: \xa0chunked", b"Transfer-Encoding: chunked, identity", b"Transfer-Encoding: identity, chunked",
          b"Transfer-Encoding: identity", b"Transfer-Encoding: gzip", b"Transfer-Encoding: gzip, chunked",
          b"Transfer-Encoding: chunked, gzip", b"Transfer-Encoding: chunked, chunked", b"Transfer-Encoding: chunked\r\nTransfer-Encoding: chunked",
          b"Transfer-Encoding: gzip\r\nTransfer-Encoding: chunked", b"Transfer-Encoding: xchunked", b"Transfer-Encoding: chunked;q=1",
          b"Transfer-Encoding: ,chunked", b"Transfer-Encoding: chunked,", b"Transfer-Encoding: \"chunked\"",
          b"Transfer_Encoding: chunked", b"Transfer-Encoding : chunked", b"Transfer-Encoding: chu\x00nked", b"X-A: b\rc", b"X-A: b\nc",
          b"X-A: b\x00c", b"X-A\x00: b", b"X A: b", b": b", b"X-A", b"X-\xe9: b", b"X-A: \xe9\xff"]
    bodies = [b"hello", b"5\r\nhello\r\n0\r\n\r\n"]
    for ver in (b"HTTP/1.1", b"HTTP/1.0"):
        for h in hv:
            for bd in bodies:
                S.append(b"POST /x " + ver + b"\r\nHost: a\r\n" + h + b"\r\n\r\n" + bd + SENTINEL)
    # chunk syntax variants
    cv = [b"5\r\nhello\r\n0\r\n\r\n", b"05\r\nhello\r\n0\r\n\r\n", b"5 \r\nhello\r\n0\r\n\r\n", b"5;a\r\nhello\r\n0\r\n\r\n",
          b"5 ;a=b\r\nhello\r\n0\r\n\r\n", b"5;a\nb\r\nhello\r\n0\r\n\r\n", b"5;a\rb\r\nhello\r\n0\r\n\r\n", b"0x5\r\nhello\r\n0\r\n\r\n",
          b"+5\r\nhello\r\n0\r\n\r\n", b"5\r\nhelloXX0\r\n\r\n", b"5\r\nhello\r\n00\r\n\r\n", b"5\r\nhello\r\n0;x\r\n\r\n",
          b"5\r\nhello\r\n0\r\nA: b\r\nC: d\r\n\r\n", b"5\r\nhello\r\n0\r\nA : b\r\n\r\n", b"5\r\nhello\n0\r\n\r\n", b"\r\n5\r\nhello\r\n0\r\n\r\n",
          b"5\nhello\r\n0\r\n\r\n", b"g\r\nhello\r\n0\r\n\r\n", b"5\r\nhel", b"5\r\nhello", b"5\r\nhello\r", b"5\r\nhello\r\n0\r\n", b"-5\r\nhello\r\n0\r\n\r\n",
          b"5\x00\r\nhello\r\n0\r\n\r\n", b"a\r\n0123456789\r\n0\r\n\r\n", b"A\r\n0123456789\r\n0\r\n\r\n"]
    for c in cv:
        S.append(b"POST /k HTTP/1.1\r\nTransfer-Encoding: chunked\r\n\r\n" + c + SENTINEL)
    # request-line variants
    for rl in [b"GET  / HTTP/1.1", b"GET / HTTP/1.1 ", b"GET /a b HTTP/1.1", b"GET / HTTP/2.0", b"GET / HTTP/1.10", b"GET / http/1.1",
               b"get / HTTP/1.1", b"G\x00T / HTTP/1.1", b"GET /\x00 HTTP/1.1", b"GET /a\rb HTTP/1.1", b"GET /a\nb HTTP/1.1", b"GET HTTP/1.1",
               b" GET / HTTP/1.1", b"GET / HTTP/1.1\r\n", b"", b"GET\t/ HTTP/1.1", b"GE:T / HTTP/1.1", b"GET /\xe9 HTTP/1.1"]:
        S.append(rl + b"\r\nHost: a\r\n\r\n" + SENTINEL)
    # single-byte mutations of the base requests
    alphabet = [13, 10, 0, 32, 9, 58, 95, 59, 0x0b, 0x80, 97, 48, 44]
    rnd = random.Random(SEED)
    for b in base[:4]:
        positions = range(len(b)) if TIER == "thorough" else sorted(rnd.sample(range(len(b)), min(len(b), 28)))
        for i in positions:
            for ch in (alphabet if TIER == "thorough" else rnd.sample(alphabet, 5)):
                if b[i] != ch:
                    S.append(b[:i] + bytes([ch]) + b[i + 1:] + SENTINEL)
            S.append(b[:i] + b[i + 1:] + SENTINEL)                       # deletion
            S.append(b[:i])                                               # truncation at every offset
    seen = set()
    out = []
    for s in S:
        if s not in seen:
            seen.add(s)
            out.append(s)
    return out


def segmentations(data, rnd):
    n = len(data)
    segs = [[], list(range(1, n))]
    if n <= 80:
        segs += [[c] for c in range(1, n)]
    else:
        for c in sorted(set([n // 3, n // 2, n - 1, n - 2, n - 4])):
            if 0 < c < n:
                segs.append([c])
    for _ in range(3):
        k = rnd.randint(1, 4)
        segs.append(sorted(set(rnd.randint(1, max(1, n - 1)) for _ in range(k))))
    return segs


def check_stream(data, cfg, rnd, evals):
    mism = []
    ref = rfc9112.parse_stream(data)
    outcomes = {}
    for cuts in segmentations(data, rnd):
        real, terminal = run_real(data, cuts, cfg)
        evals[0] += 1
        key = json.dumps([[(r["method"], r["target"], list(r["version"]), r["headers"], r["body"].decode("latin-1"), r["trailers"]) for r in real], terminal])
        outcomes.setdefault(key, cuts)
        if len(mism) == 0:
            m = compare(data, real, terminal, ref)
            if m is not None:
                mism.append({"class": m[0], "detail": m[1], "input": data.decode("latin-1"), "cuts": cuts, "check": "framing"})
    if len(outcomes) > 1:
        ks = list(outcomes.items())
        mism.append({"class": "segmentation-dependent", "detail": "cuts %r -> %s ; cuts %r -> %s" % (ks[0][1], ks[0][0][:160], ks[1][1], ks[1][0][:160]),
                     "input": data.decode("latin-1"), "cuts": ks[1][1], "check": "segm"})
    return mism


def limit_streams():
    """C12 / C06: streams at, just under and just over each head limit, for small explicit limits"""
    out = []
    for lim in (1, 8, 20):
        cfg = dict(limit_request_line=lim)
        for n in (lim - 1, lim, lim + 1, lim + 2, lim + 3):
            path = b"/" + b"a" * max(0, n - len(b"GET / HTTP/1.1"))
            rl = b"GET " + path + b" HTTP/1.1"
            out.append((cfg, rl + b"\r\nHost: a\r\n\r\n" + SENTINEL, "line", len(rl), lim))
        out.append((cfg, b"G" * (lim + 40), "line", lim + 40, lim))
        out.append((cfg, b"GET /" + b"\r" * (lim + 40), "line", lim + 45, lim))
    for fields in (1, 2, 3):
        for fsize in (10, 20):
            cfg = dict(limit_request_fields=fields, limit_request_field_size=fsize)
            for nf in (fields - 1, fields, fields + 1):
                for ln in (fsize - 1, fsize, fsize + 1):
                    # plain names, and names with an underscore (dropped by the default header_map but, as the code says,
                    # they "still count against resource limits")
                    for pat in (b"X%d", b"X_%d"):
                        h = b""
                        for i in range(max(0, nf)):
                            name = pat % i
                            val = b"v" * max(0, ln - 2 - len(name) - 2)
                            h += name + b": " + val + b"\r\n"
                        out.append((cfg, b"GET / HTTP/1.1\r\n" + h + b"\r\n" + SENTINEL, "fields", (nf, ln), (fields, fsize)))
    return out


def main():
    rnd = random.Random(SEED)
    evals = [0]
    mismatches = []
    replay = os.environ.get("VERIF_REPLAY_CASE")
    if replay:
        case = json.loads(replay)
        cfg = mkcfg(**case.get("cfg", {}))
        data = case["input"].encode("latin-1")
        mismatches = check_stream(data, cfg, rnd, evals)
        print(json.dumps({"evaluations": evals[0], "mismatches": mismatches}))
        return
    cfg = mkcfg()
    for data in streams():
        mismatches += check_stream(data, cfg, rnd, evals)
    for (ckw, data, what, size, lim) in limit_streams():
        cfg2 = mkcfg(**ckw)
        for m in check_stream(data, cfg2, rnd, evals):
            m["cfg"] = ckw
            mismatches.append(m)
        # size completeness / soundness (C12): within limits => not rejected for size; over => rejected
        real, terminal = run_real(data, [], cfg2)
        evals[0] += 1
        if what == "line":
            over = size > lim
            rejected = terminal in ("LimitRequestLine",)
            if over and real:
                mismatches.append({"class": "over-limit-line-accepted", "detail": "line %d > limit %d" % (size, lim), "input": data.decode("latin-1"), "cfg": ckw, "check": "limits"})
            if not over and rejected:
                mismatches.append({"class": "within-limit-line-rejected", "detail": "line %d <= limit %d: %s" % (size, lim, terminal), "input": data.decode("latin-1"), "cfg": ckw, "check": "limits"})
        else:
            nf, ln = size
            fields, fsize = lim
            over = nf > fields or (nf > 0 and ln > fsize)
            rejected = terminal == "LimitRequestHeaders"
            if over and real:
                mismatches.append({"class": "over-limit-headers-accepted", "detail": "%r vs %r" % (size, lim), "input": data.decode("latin-1"), "cfg": ckw, "check": "limits"})
            if not over and rejected:
                mismatches.append({"class": "within-limit-headers-rejected", "detail": "%r vs %r" % (size, lim), "input": data.decode("latin-1"), "cfg": ckw, "check": "limits"})
    # collapse to one witness per class
    by = {}
    for m in mismatches:
        by.setdefault(m["class"], m)
        by[m["class"]]["count"] = by[m["class"]].get("count", 0) + 1
    print(json.dumps({"evaluations": evals[0], "mismatches": list(by.values()),
                      "bound": "stream family of harness/parser_diff.py (templates x obfuscations x 1-byte mutations x truncations), "
                               "segmentations whole/bytewise/single cuts/3 random; %d streams" % len(streams())}))


if __name__ == "__main__":
    main()
