"""Bounded stand-in for the second half of C12: 'for any client behaviour the amount of not-yet-parsed protocol data the server
holds stays below a bound determined by the configuration: it rejects instead of buffering without limit'.
Endless sources: a client that never sends the delimiter the parser is waiting for, for each of the four places the parser
accumulates protocol data - request line, header block, chunk-size line, trailer block - under small explicit limits.
The source counts how many bytes the parser has PULLED when it gives up; the check is that it gives up (Limit* / Invalid*)
after pulling at most BOUND = 4 * (configured limit for that element) + 2 * 8192 bytes, and never swallows the whole 2 MiB."""
import json
import os
import sys

ROOT = os.path.dirname(os.path.dirname(os.path.abspath(__file__)))
sys.path.insert(0, ROOT)

from gunicorn.config import Config  # noqa: E402
from gunicorn.http.parser import RequestParser  # noqa: E402

TOTAL = 2 * 1024 * 1024


class Source:
    def __init__(self, head, filler):
        self.head = head
        self.filler = filler
        self.pulled = 0

    def __iter__(self):
        return self

    def __next__(self):
        if self.head:
            d, self.head = self.head, b""
        elif self.pulled < TOTAL:
            d = (self.filler * (8192 // len(self.filler) + 1))[:8192]
        else:
            raise StopIteration
        self.pulled += len(d)
        return d


def run(name, head, filler, limit, read_body, cfgkw):
    cfg = Config()
    for k, v in cfgkw.items():
        cfg.set(k, v)
    src = Source(head, filler)
    outcome = "accepted-everything"
    try:
        req = next(RequestParser(cfg, src, ("10.0.0.1", 1)))
        if read_body:
            while req.body.read(65536):
                pass
            outcome = "body-read-to-the-end"
    except StopIteration:
        outcome = "stop"
    except Exception as e:
        outcome = "rejected:" + type(e).__name__
    bound = 4 * limit + 2 * 8192
    ok = outcome.startswith("rejected:") and src.pulled <= bound
    return ok, "%s: %s after pulling %d bytes (bound %d)" % (name, outcome, src.pulled, bound)


def main():
    cases = [
        ("request-line", b"", b"G", 200, False, {"limit_request_line": 200}),
        ("request-line-after-method", b"GET /", b"a", 200, False, {"limit_request_line": 200}),
        ("header-block:one-endless-field", b"GET / HTTP/1.1\r\nX: ", b"v", 100 * 3, False, {"limit_request_field_size": 100, "limit_request_fields": 3}),
        ("header-block:endless-fields", b"GET / HTTP/1.1\r\n", b"X: v\r\n", 100 * 3, False, {"limit_request_field_size": 100, "limit_request_fields": 3}),
        ("chunk-size-line", b"POST / HTTP/1.1\r\nTransfer-Encoding: chunked\r\n\r\n", b"1", 100 * 3, True, {"limit_request_field_size": 100, "limit_request_fields": 3}),
        ("chunk-extension", b"POST / HTTP/1.1\r\nTransfer-Encoding: chunked\r\n\r\n5;", b"x", 100 * 3, True, {"limit_request_field_size": 100, "limit_request_fields": 3}),
        ("trailer-block:one-endless-field", b"POST / HTTP/1.1\r\nTransfer-Encoding: chunked\r\n\r\n0\r\nX: ", b"v", 100 * 3, True, {"limit_request_field_size": 100, "limit_request_fields": 3}),
        ("trailer-block:endless-fields", b"POST / HTTP/1.1\r\nTransfer-Encoding: chunked\r\n\r\n0\r\n", b"X: v\r\n", 100 * 3, True, {"limit_request_field_size": 100, "limit_request_fields": 3}),
    ]
    mism = []
    for c in cases:
        ok, detail = run(*c)
        if not ok:
            mism.append({"class": "unbounded-buffering:" + c[0].split(":")[0], "detail": detail, "check": "limits", "case": c[0]})
    by = {}
    for m in mism:
        by.setdefault(m["class"], m)
    print(json.dumps({"evaluations": len(cases), "mismatches": list(by.values()),
                      "bound": "%d endless-source cases, %d bytes offered each, limits 100..300 bytes" % (len(cases), TOTAL)}))


if __name__ == "__main__":
    main()
