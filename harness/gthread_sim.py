"""Bounded stand-in for C13 (sequential histories): drives the REAL ThreadWorker methods accept / on_client_socket_readable /
finish_request / murder_keepalived (and the capacity gate of run()) with fake sockets, a fake selector, fake futures and a
virtual clock, over seeded random histories of {client connects on listener k, request bytes arrive on an open idle
connection, a handler finishes with keep-alive / close / exception / cancelled, time passes, reaper runs}.
After EVERY step: nr_conns == number of open client sockets <= worker_connections; no socket closed twice; no socket closed
while its handler is pending; every registered client socket is open and idle; the keep-alive queue holds exactly the idle
connections that served a request, in deadline order; after the reaper no queued connection is past its deadline and no
connection was closed before its deadline. (No threads: finish_request is called from the driver, like a done-callback that
runs between two main-loop steps.)"""
import json
import os
import random
import sys
import threading
from collections import deque

ROOT = os.path.dirname(os.path.dirname(os.path.abspath(__file__)))
sys.path.insert(0, ROOT)

from gunicorn.config import Config  # noqa: E402
from gunicorn.workers import gthread as G  # noqa: E402

TIER = os.environ.get("VERIF_TIER", "quick")
SEED = int(os.environ.get("VERIF_SEED", "0") or 0)


class Clock:
    now = 1000.0


class CSock:
    n = 0

    def __init__(self):
        CSock.n += 1
        self.id = CSock.n
        self.closes = 0
        self.open = True

    def setblocking(self, b):
        pass

    def close(self):
        self.closes += 1
        self.open = False

    def fileno(self):
        return 100 + self.id


class Listener:
    def __init__(self):
        self.pending = 0

    def accept(self):
        if not self.pending:
            raise BlockingIOError(11, "again")
        self.pending -= 1
        return CSock(), ("10.0.0.1", 1)

    def setblocking(self, b):
        pass

    def getsockname(self):
        return ("127.0.0.1", 80)


class Poller:
    def __init__(self):
        self.reg = {}

    def register(self, fobj, ev, data):
        if id(fobj) in self.reg:
            raise KeyError("already registered")
        self.reg[id(fobj)] = (fobj, data)

    def unregister(self, fobj):
        del self.reg[id(fobj)]


class Fut:
    def __init__(self, conn):
        self.conn = conn
        self.outcome = None

    def add_done_callback(self, cb):
        self.cb = cb

    def cancelled(self):
        return self.outcome == "cancelled"

    def result(self):
        if self.outcome == "exception":
            raise RuntimeError("handler failed")
        return (self.outcome == "keepalive", self.conn)


class Pool:
    def __init__(self):
        self.pending = []

    def submit(self, fn, conn):
        f = Fut(conn)
        self.pending.append(f)
        return f


def mk_worker(wc, keepalive, threads):
    cfg = Config()
    cfg.set("worker_connections", wc)
    cfg.set("keepalive", keepalive)
    cfg.set("threads", threads)
    w = G.ThreadWorker.__new__(G.ThreadWorker)
    w.cfg = cfg
    w.worker_connections = wc
    w.nr_conns = 0
    w.alive = True
    w.futures = deque()
    w._keep = deque()
    w._lock = threading.RLock()
    w.poller = Poller()
    w.tpool = Pool()
    return w


def check(w, socks, mism, trace, closed_before_deadline):
    open_socks = [s for s in socks if s.open]
    busy = {id(f.conn.sock) for f in w.tpool.pending}
    probs = []
    if w.nr_conns != len(open_socks):
        probs.append(("counter-differs-from-open-connections", "nr_conns=%d open=%d" % (w.nr_conns, len(open_socks))))
    if w.nr_conns > w.worker_connections:
        probs.append(("above-worker_connections", "nr_conns=%d limit=%d" % (w.nr_conns, w.worker_connections)))
    for s in socks:
        if s.closes > 1:
            probs.append(("socket-closed-twice", "socket %d closed %d times" % (s.id, s.closes)))
        if not s.open and id(s) in busy:
            probs.append(("closed-while-being-handled", "socket %d" % s.id))
    for (fobj, data) in w.poller.reg.values():
        if isinstance(fobj, CSock) and (not fobj.open or id(fobj) in busy):
            probs.append(("registered-socket-closed-or-busy", "socket %d" % fobj.id))
    keep = list(w._keep)
    if len(set(map(id, keep))) != len(keep):
        probs.append(("queued-twice", ""))
    for c in keep:
        if not c.sock.open or id(c.sock) not in w.poller.reg or not c.initialized:
            probs.append(("queued-connection-not-open-registered-initialised", "socket %d" % c.sock.id))
    if any(keep[i].timeout > keep[i + 1].timeout for i in range(len(keep) - 1)):
        probs.append(("keep-alive-queue-not-in-deadline-order", ""))
    if closed_before_deadline:
        probs.append(("closed-before-its-deadline", closed_before_deadline))
    for (cls, detail) in probs:
        mism.setdefault(cls, {"class": cls, "detail": detail, "trace": list(trace)[-12:]})


def run_history(rnd, steps, mism):
    wc = rnd.choice([1, 2, 3])
    w = mk_worker(wc, rnd.choice([0, 2, 5]), 1)
    listeners = [Listener(), Listener()]
    socks, conns, trace = [], {}, []
    G.time.time = lambda: Clock.now
    orig_init = G.TConn.init

    def fake_init(self):
        self.initialized = True
    G.TConn.init = fake_init
    try:
        for _ in range(steps):
            op = rnd.choice(["connect", "connect2", "readable", "finish", "tick", "reap"])
            closed_early = None
            if op in ("connect", "connect2"):
                # one poller round: the capacity gate of run() is evaluated once, then every ready listener's acceptor runs
                ready = listeners[:1] if op == "connect" else listeners
                for l in ready:
                    l.pending += 1
                if w.nr_conns < w.worker_connections:
                    for l in ready:
                        before = CSock.n
                        w.accept(("127.0.0.1", 80), l)
                        if CSock.n > before:
                            pass
                for l in listeners:
                    l.pending = 0
                for (fobj, data) in list(w.poller.reg.values()):
                    if isinstance(fobj, CSock) and fobj not in socks:
                        socks.append(fobj)
            elif op == "readable":
                cands = [(f, d) for (f, d) in w.poller.reg.values() if isinstance(f, CSock)]
                if cands:
                    f, d = rnd.choice(cands)
                    d(f)
            elif op == "finish":
                if w.tpool.pending:
                    fut = w.tpool.pending.pop(rnd.randrange(len(w.tpool.pending)))
                    fut.outcome = rnd.choice(["keepalive", "close", "exception", "cancelled"])
                    w.finish_request(fut)
                    if fut in w.futures:
                        w.futures.remove(fut)
            elif op == "tick":
                Clock.now += rnd.choice([0.5, 1.0, 3.0])
            elif op == "reap":
                before = {id(c): c for c in w._keep}
                w.murder_keepalived()
                after = {id(c) for c in w._keep}
                for k, c in before.items():
                    if k not in after and c.timeout > Clock.now:
                        closed_early = "socket %d deadline %.1f now %.1f" % (c.sock.id, c.timeout, Clock.now)
                for c in w._keep:
                    if c.timeout <= Clock.now:
                        mism.setdefault("expired-connection-left-in-queue", {"class": "expired-connection-left-in-queue",
                                                                             "detail": "deadline %.1f now %.1f" % (c.timeout, Clock.now), "trace": trace[-12:]})
            trace.append(op)
            check(w, socks, mism, trace, closed_early)
    finally:
        G.TConn.init = orig_init


def main():
    rnd = random.Random(SEED)
    mism = {}
    n_hist = 400 if TIER != "thorough" else 6000
    steps = 40
    for _ in range(n_hist):
        try:
            run_history(rnd, steps, mism)
        except Exception as e:
            mism.setdefault("exception", {"class": "exception-in-worker-step", "detail": "%s: %s" % (type(e).__name__, e)})
    print(json.dumps({"evaluations": n_hist * steps, "mismatches": [dict(m, check="c13") for m in mism.values()],
                      "bound": "%d seeded random histories x %d steps, worker_connections 1..3, keepalive 0/2/5, two listeners" % (n_hist, steps)}))


if __name__ == "__main__":
    main()
