"""Bounded stand-in for C02 / C09 / C19(byte accounting): drives the REAL gunicorn.http.wsgi.Response through the real
worker glue shape (create -> app -> write/write_file -> close) on a recording socket and decodes the wire with an
independent HTTP/1.x response reader.

Family: request heads {1.0,1.1} x {GET,HEAD} x Connection {none, close, keep-alive} x statuses {200,204,304,100,404}
x Content-Length {none, exact, shorter, longer} x body chunkings {[], [b''], one, many, with empty pieces} x output path
{iterable, write() callable, file wrapper (real temp file), mixed write()+file} x keepalive on/off;
C09: status / header names / values from an alphabet with CR LF NUL SP HT ':' and hop-by-hop names.
Checks: one well-formed response; body == app output cut to Content-Length, never more; exactly one terminating chunk;
nothing after the response; keep-alive only if self-delimited + client did not ask to close + announced; resp.sent ==
body bytes on the wire; injected CR/LF/NUL refused before any byte is sent; hop-by-hop headers not forwarded.
"""
import io
import itertools
import json
import os
import random
import sys
import tempfile

ROOT = os.path.dirname(os.path.dirname(os.path.abspath(__file__)))
sys.path.insert(0, ROOT)
from gunicorn.config import Config  # noqa: E402
from gunicorn.http import wsgi  # noqa: E402

TIER = os.environ.get("VERIF_TIER", "quick")
SEED = int(os.environ.get("VERIF_SEED", "0") or 0)


class Sock:
    def __init__(self):
        self.out = b""

    def sendall(self, d):
        self.out += bytes(d)

    def send(self, d):
        self.out += bytes(d)
        return len(d)

    def sendfile(self, f, offset=0, count=None):
        f.seek(offset)
        d = f.read(count)
        self.out += d
        return len(d)

    def getsockname(self):
        return ("127.0.0.1", 80)


class Req:
    def __init__(self, version, method, conn):
        self.version = version
        self.method = method
        self.uri = "/"
        self.path = "/"
        self.query = ""
        self.fragment = ""
        self.scheme = "http"
        self.headers = [("HOST", "h")] + ([("CONNECTION", conn)] if conn else [])
        self.body = io.BytesIO(b"")
        self.proxy_protocol_info = None
        self._conn = conn

    def should_close(self):
        if self._conn == "close":
            return True
        if self._conn == "keep-alive":
            return False
        return self.version <= (1, 0)


def read_response(wire, method):
    """independent reader: -> dict(status, headers, body, rest, framing) or raises ValueError"""
    e = wire.find(b"\r\n\r\n")
    if e < 0:
        raise ValueError("no end of head")
    head = wire[:e].split(b"\r\n")
    sl = head[0]
    if not sl.startswith(b"HTTP/1.") or len(sl) < 12 or sl[8:9] != b" ":
        raise ValueError("bad status line %r" % sl)
    if b"\r" in sl or b"\n" in sl or b"\0" in sl:
        raise ValueError("control char in status line")
    try:
        code = int(sl[9:12])
    except ValueError:
        code = None
    hdrs = []
    for ln in head[1:]:
        if b":" not in ln:
            raise ValueError("header line without colon %r" % ln)
        n, v = ln.split(b":", 1)
        if not n or any(c in b" \t\r\n\0" for c in n):
            raise ValueError("bad header name %r" % n)
        if any(c in b"\r\n\0" for c in v):
            raise ValueError("control char in header value")
        hdrs.append((n.decode("latin-1").lower(), v.strip(b" \t").decode("latin-1")))
    rest = wire[e + 4:]
    d = dict(hdrs)
    te = [v for n, v in hdrs if n == "transfer-encoding"]
    cl = [v for n, v in hdrs if n == "content-length"]
    bodyless = method == "HEAD" or (code is not None and (code < 200 or code in (204, 304)))
    if te and cl:
        raise ValueError("both Transfer-Encoding and Content-Length")
    if len(te) > 1 or len(cl) > 1:
        raise ValueError("repeated framing header")
    if bodyless:
        return dict(code=code, headers=hdrs, body=b"", rest=rest, framing="none")
    if te:
        if te[0].lower() != "chunked":
            raise ValueError("unknown transfer coding")
        body = b""
        p = 0
        while True:
            le = rest.find(b"\r\n", p)
            if le < 0:
                raise ValueError("truncated chunk header")
            size = int(rest[p:le], 16)
            p = le + 2
            if size == 0:
                if rest[p:p + 2] != b"\r\n":
                    raise ValueError("bad terminator")
                return dict(code=code, headers=hdrs, body=body, rest=rest[p + 2:], framing="chunked")
            body += rest[p:p + size]
            if rest[p + size:p + size + 2] != b"\r\n":
                raise ValueError("chunk not followed by CRLF")
            p += size + 2
    if cl:
        n = int(cl[0])
        return dict(code=code, headers=hdrs, body=rest[:n], rest=rest[n:], framing="length", declared=n, short=len(rest) < n)
    return dict(code=code, headers=hdrs, body=rest, rest=b"", framing="close")


def run_case(case, tmpfile):
    """case: dict(version, method, conn, status, cl, pieces, path, keepalive) -> None or (class, detail)"""
    cfg = Config()
    cfg.set("keepalive", case["keepalive"])
    sock = Sock()
    req = Req(tuple(case["version"]), case["method"], case["conn"])
    resp, environ = wsgi.create(req, sock, ("1.2.3.4", 5), ("127.0.0.1", 80), cfg)
    if not case["keepalive"]:
        resp.force_close()
    pieces = [p.encode("latin-1") for p in case["pieces"]]
    total = b"".join(pieces)
    headers = [("X-A", "b")]
    if case["cl"] is not None:
        headers.append(("Content-Length", str(case["cl"])))
    path = case["path"]
    f = None
    try:
        w = resp.start_response(case["status"], headers)
        if path == "write":
            for p in pieces:
                w(p)
            it = []
        elif path in ("file", "mixed"):
            pre = b""
            if path == "mixed" and pieces:
                w(pieces[0])
                pre = pieces[0]
                filedata = b"".join(pieces[1:])
            else:
                filedata = total
            f = open(tmpfile, "wb+", buffering=0)
            f.write(filedata)
            f.flush()
            f.seek(0)
            it = wsgi.FileWrapper(f)
        else:
            it = pieces
        if isinstance(it, wsgi.FileWrapper):
            resp.write_file(it)
        else:
            for item in it:
                resp.write(item)
        resp.close()
    finally:
        if f is not None:
            f.close()
    wire = sock.out
    try:
        r = read_response(wire, case["method"])
    except ValueError as e:
        return ("malformed-response", "%s ; wire=%r" % (e, wire[:200]))
    keep = not resp.should_close()
    bodyless = r["framing"] == "none"
    cl = case["cl"]
    expect = total if cl is None else total[:cl]
    if bodyless:
        if r["rest"]:
            return ("body-on-bodyless-response", "bytes after the head of a %s %s response: %r" % (case["method"], case["status"], r["rest"][:40]))
    else:
        if r["body"] != expect and not (cl is not None and len(total) < cl and r["body"] == total):
            return ("body-differs", "decoded body %r, application output (cut to Content-Length) %r" % (r["body"][:50], expect[:50]))
        if r["rest"]:
            return ("bytes-after-response", "%r follow the response (framing %s)" % (r["rest"][:40], r["framing"]))
        well_behaved = cl is None or len(total) >= cl      # PEP 3333: an application that declares a length produces it
        if well_behaved and resp.sent != len(r["body"]):
            return ("sent-not-truthful", "resp.sent=%d but %d body bytes on the wire (path %s)" % (resp.sent, len(r["body"]), path))
    conn_hdr = [v.lower() for n, v in r["headers"] if n == "connection"]
    announced = conn_hdr == ["keep-alive"]
    self_delim = r["framing"] in ("length", "chunked", "none")
    client_close = req.should_close()
    if keep and not (self_delim and not client_close and announced and case["keepalive"]):
        return ("unsafe-keep-alive", "connection kept open: framing=%s client_close=%s Connection=%r keepalive=%s" % (r["framing"], client_close, conn_hdr, case["keepalive"]))
    if (not keep) and announced:
        return ("announced-keep-alive-but-closing", "Connection: keep-alive sent but the connection is closed")
    if r["framing"] == "length" and cl is not None and len(total) >= cl and r.get("short"):
        return ("short-body", "fewer body bytes than Content-Length although the application produced enough")
    return None


def c09_cases(rnd):
    names = ["X-A", "X A", "X-A:", "X\rA", "X\nA", "X\0A", "", "Connection", "connection", "Keep-Alive", "TE", "Trailers", "Transfer-Encoding",
             "Upgrade", "Proxy-Authenticate", "Proxy-Authorization", "Server", "Date", "X-\xe9", "Content-Length"]
    values = ["v", "v\r\nX: y", "v\n", "v\r", "\nv", "v\0", " v ", "\tv", "v\x0b", "caf\xe9", "", "5", "websocket", "upgrade", "chunked"]
    statuses = ["200 OK", "200 OK\r\nX: y", "200 OK\n", "200\0", "404 Not Found", "200 OK\r", "999 \xe9"]
    out = []
    for n in names:
        for v in values:
            out.append(("200 OK", [(n, v)]))
    for s in statuses:
        out.append((s, [("X-A", "b")]))
    return out


def run_c09(status, headers):
    cfg = Config()
    sock = Sock()
    req = Req((1, 1), "GET", None)
    resp, environ = wsgi.create(req, sock, ("1.2.3.4", 5), ("127.0.0.1", 80), cfg)
    refused = False
    try:
        resp.start_response(status, headers)
        resp.write(b"x")
        resp.close()
    except Exception as e:
        refused = True
        if sock.out:
            return ("refused-after-bytes-were-sent", "%s raised after %r was sent" % (type(e).__name__, sock.out[:60]))
        return None
    bad_text = lambda s: any(c in s for c in "\r\n\0")
    if bad_text(status) or any(bad_text(n) or bad_text(v) for n, v in headers):
        return ("control-char-accepted", "status=%r headers=%r accepted; wire=%r" % (status, headers, sock.out[:120]))
    try:
        r = read_response(sock.out, "GET")
    except ValueError as e:
        return ("malformed-response", "%s ; status=%r headers=%r wire=%r" % (e, status, headers, sock.out[:160]))
    hop = {"connection", "keep-alive", "proxy-authenticate", "proxy-authorization", "te", "trailers", "transfer-encoding", "upgrade"}
    server_lines = {"server", "date", "connection", "transfer-encoding", "content-length"}
    app = [(n, v) for n, v in r["headers"]]
    got = [n for n, v in app]
    for n, v in headers:
        ln = n.lower().strip()
        if ln in hop and (ln, v.strip(" \t")) in [(a, b) for a, b in app if a == ln] and not (ln in ("connection", "transfer-encoding")):
            cls = "hop-by-hop-forwarded:upgrade-websocket" if (ln == "upgrade" and v.strip().lower() == "websocket") else "hop-by-hop-forwarded"
            return (cls, "application header %r: %r appears on the wire" % (n, v))
        if ln in ("connection", "transfer-encoding") and got.count(ln) > 1:
            return ("hop-by-hop-forwarded", "application header %r: %r appears on the wire next to the server's own" % (n, v))
        if ln not in hop and ln not in ("server", "date", "content-length"):
            if (ln, v.strip(" \t")) not in app:
                return ("accepted-header-missing", "application header %r: %r not on the wire" % (n, v))
    if got.count("server") != 1 or got.count("date") != 1 or got.count("connection") != 1:
        return ("server-lines", "Server/Date/Connection lines: %r" % got)
    return None


def main():
    rnd = random.Random(SEED)
    tmp = tempfile.NamedTemporaryFile(prefix="verif-sendfile-", delete=False)
    tmp.close()
    replay = os.environ.get("VERIF_REPLAY_CASE")
    mism = {}
    evals = 0
    try:
        if replay:
            c = json.loads(replay)
            if c.get("kind") == "c09":
                r = run_c09(c["status"], [tuple(h) for h in c["headers"]])
            else:
                r = run_case(c, tmp.name)
            print(json.dumps({"evaluations": 1, "mismatches": [dict(c, **{"class": r[0], "detail": r[1]})] if r else []}))
            return
        body_sets = [[], [""], ["hello"], ["he", "llo"], ["", "he", "", "llo", ""], ["a" * 3000, "b" * 10]]
        statuses = ["200 OK", "204 No Content", "304 Not Modified", "404 Not Found"]
        cases = []
        for version in ((1, 1), (1, 0)):
            for method in ("GET", "HEAD"):
                for conn in (None, "close", "keep-alive"):
                    for status in statuses:
                        for pieces in body_sets:
                            total = sum(len(p) for p in pieces)
                            for cl in (None, total, max(0, total - 2), total + 3):
                                for path in ("iter", "write", "file", "mixed"):
                                    for ka in (2, 0):
                                        cases.append(dict(version=list(version), method=method, conn=conn, status=status, cl=cl,
                                                          pieces=pieces, path=path, keepalive=ka, kind="c02"))
        if TIER != "thorough":
            cases = rnd.sample(cases, 2500)
        for c in cases:
            try:
                r = run_case(c, tmp.name)
            except Exception as e:
                r = ("exception", "%s: %s" % (type(e).__name__, e))
            evals += 1
            if r is not None and r[0] not in mism:
                mism[r[0]] = dict(c, **{"class": r[0], "detail": r[1], "check": "c02" if r[0] != "sent-not-truthful" else "c19"})
        for (status, headers) in c09_cases(rnd):
            r = run_c09(status, headers)
            evals += 1
            if r is not None and r[0] not in mism:
                mism[r[0]] = {"kind": "c09", "status": status, "headers": [list(h) for h in headers], "class": r[0], "detail": r[1], "check": "c09"}
    finally:
        os.unlink(tmp.name)
    print(json.dumps({"evaluations": evals, "mismatches": list(mism.values()),
                      "bound": "versions x methods x Connection x 4 statuses x 6 chunkings x 4 Content-Length choices x 4 output paths x keepalive (%s); C09 alphabet of 20 names x 15 values + 7 statuses" % ("all" if TIER == "thorough" else "2500 sampled")}))


if __name__ == "__main__":
    main()
