"""Bounded stand-in for C05 (and the worker glue of C02/C19): drives the REAL per-connection handlers
SyncWorker.handle, ThreadWorker.handle and AsyncWorker.handle (with a no-op timeout context) over a fake client socket.

Family: the malformed / truncated stream family of parser_diff (every stream, plus truncation at every offset for the base
requests) x socket faults (none; recv raises ECONNRESET at the k-th call; sendall raises EPIPE at the k-th call) x
applications (ok, raises before start_response, raises after the head was sent, returns a body shorter than declared).
Checks: no exception escapes the handler; the client socket is closed (sync/async) or handed back (gthread);
if the reference parser rejects the head, the application is never called;
the bytes written are: nothing, or a sequence of well-formed responses of which at most the LAST one is an error page, and an
error page is a well-formed 4xx/5xx with 'Connection: close' and a Content-Length equal to its body length.
"""
import errno
import io
import json
import os
import random
import sys

ROOT = os.path.dirname(os.path.dirname(os.path.abspath(__file__)))
sys.path.insert(0, ROOT)
from specs import rfc9112  # noqa: E402
from harness import parser_diff  # noqa: E402
from harness.response_diff import read_response  # noqa: E402

from gunicorn.config import Config  # noqa: E402
from gunicorn.workers.sync import SyncWorker  # noqa: E402
from gunicorn.workers.gthread import ThreadWorker, TConn  # noqa: E402
from gunicorn.workers.base_async import AsyncWorker  # noqa: E402
from gunicorn import http  # noqa: E402

TIER = os.environ.get("VERIF_TIER", "quick")
SEED = int(os.environ.get("VERIF_SEED", "0") or 0)


class FakeSock:
    def __init__(self, chunks, recv_fault=None, send_fault=None):
        self.chunks = list(chunks)
        self.out = b""
        self.closed = False
        self.nrecv = 0
        self.nsend = 0
        self.recv_fault = recv_fault
        self.send_fault = send_fault
        self.blocking = True

    def recv(self, n):
        self.nrecv += 1
        if self.recv_fault is not None and self.nrecv == self.recv_fault:
            raise ConnectionResetError(errno.ECONNRESET, "reset")
        if not self.chunks:
            return b""
        c = self.chunks.pop(0)
        if len(c) > n:
            self.chunks.insert(0, c[n:])
            c = c[:n]
        return c

    def sendall(self, d):
        self.nsend += 1
        if self.send_fault is not None and self.nsend == self.send_fault:
            raise BrokenPipeError(errno.EPIPE, "pipe")
        self.out += bytes(d)

    def send(self, d):
        self.sendall(d)
        return len(d)

    def close(self):
        self.closed = True

    def shutdown(self, how):
        pass

    def setblocking(self, b):
        self.blocking = bool(b)

    def gettimeout(self):
        return None if self.blocking else 0.0

    def getsockname(self):
        return ("127.0.0.1", 8000)

    def fileno(self):
        return 99


class Log:
    def __init__(self):
        self.access_records = 0

    def access(self, resp, req, environ, rt):
        self.access_records += 1

    def __getattr__(self, n):
        return lambda *a, **k: None


class NullCtx:
    def __enter__(self):
        return None

    def __exit__(self, *a):
        return False


class TestAsync(AsyncWorker):
    def timeout_ctx(self):
        return NullCtx()


def mk_worker(cls, cfg, app):
    w = cls.__new__(cls)
    w.cfg = cfg
    w.log = Log()
    w.nr = 0
    w.max_requests = 10 ** 9
    w.alive = True
    w.wsgi = app
    if cls is ThreadWorker:
        from collections import deque
        w._keep = deque()
        w.max_keepalived = 10
    return w


def apps():
    calls = []

    def ok(environ, start_response):
        calls.append(environ.get("RAW_URI"))
        body = environ["wsgi.input"].read()
        start_response("200 OK", [("Content-Length", "2")])
        return [b"ok"]

    def early(environ, start_response):
        calls.append(environ.get("RAW_URI"))
        raise ValueError("app failed before start_response")

    def late(environ, start_response):
        calls.append(environ.get("RAW_URI"))
        w = start_response("200 OK", [("Content-Length", "10")])
        w(b"part")
        raise ValueError("app failed after the head")

    return {"ok": ok, "early": early, "late": late}, calls


def split_responses(wire):
    """-> list of (code, headers, body) parsed one after the other, or raises ValueError"""
    out = []
    while wire:
        r = read_response(wire, "GET")
        if r["framing"] == "close":
            out.append(r)
            return out
        out.append(r)
        if r["framing"] == "length" and r.get("short"):
            return out          # truncated by a fault / failing application: connection was closed
        wire = r["rest"]
    return out


def run(kind, data, cuts, appname, recv_fault, send_fault, unix=False):
    cfg = Config()
    table, calls = apps()
    chunks, prev = [], 0
    for c in cuts:
        if c > prev:
            chunks.append(data[prev:c])
            prev = c
    if prev < len(data):
        chunks.append(data[prev:])
    sock = FakeSock(chunks, recv_fault, send_fault)
    cls = {"sync": SyncWorker, "gthread": ThreadWorker, "async": TestAsync}[kind]
    w = mk_worker(cls, cfg, table[appname])
    addr = "" if unix else ("10.0.0.1", 1234)       # unix-socket listeners hand out '' as the peer address
    try:
        if kind == "gthread":
            conn = TConn(cfg, sock, addr, ("127.0.0.1", 8000))
            conn.init()
            for _ in range(20):
                keep, cn = w.handle(conn)
                if not keep:
                    break
            handed_back = True
        else:
            w.handle(FakeSock([]), sock, addr)
            handed_back = False
    except BaseException as e:
        return ("exception-escaped-handler", "%s: %s" % (type(e).__name__, e))
    if kind != "gthread" and not sock.closed:
        return ("connection-not-closed", "handler returned with the client socket open")
    ref = rfc9112.parse_stream(data)
    if recv_fault is None and ref and ref[0][0] == "reject" and calls:
        return ("rejected-request-reached-the-application:" + ref[0][1], "reference rejects the first head (%s) but the application was called with %r" % (ref[0][1], calls))
    if send_fault is not None:
        return None           # after a send fault the wire may be cut anywhere
    try:
        rs = split_responses(sock.out)
    except ValueError as e:
        if appname == "late":
            return None       # head + partial body, then the connection is torn down: not a well-formed response by design
        return ("malformed-bytes-on-the-wire", "%s ; wire=%r" % (e, sock.out[:200]))
    errs = [k for k, r in enumerate(rs) if r["code"] is not None and r["code"] >= 400 and dict(r["headers"]).get("content-type") == "text/html"]
    if len(errs) > 1:
        return ("more-than-one-error-page", "%d error pages written" % len(errs))
    if errs:
        k = errs[0]
        r = rs[k]
        if k != len(rs) - 1:
            return ("bytes-after-error-page", "an error page is followed by another response")
        d = dict(r["headers"])
        if d.get("connection", "").lower() != "close":
            return ("error-page-without-connection-close", repr(r["headers"]))
        if r["framing"] != "length" or r.get("short") or r["rest"]:
            return ("error-page-length-mismatch", "Content-Length %s but body+rest = %d bytes" % (d.get("content-length"), len(r["body"]) + len(r["rest"])))
    return None


def main():
    rnd = random.Random(SEED)
    replay = os.environ.get("VERIF_REPLAY_CASE")
    mism = {}
    evals = 0
    if replay:
        c = json.loads(replay)
        r = run(c["worker"], c["input"].encode("latin-1"), c["cuts"], c["app"], c.get("recv_fault"), c.get("send_fault"), c.get("unix", False))
        print(json.dumps({"evaluations": 1, "mismatches": [dict(c, **{"class": r[0], "detail": r[1]})] if r else []}))
        return
    streams = parser_diff.streams()
    # high bytes in every rejected position (error pages echo client bytes)
    streams += [b"GET /caf\xe9\r\n\r\n", b"GET / HTTP/1.\xff\r\n\r\n", b"GET / HTTP/1.1\r\nX\xfc\r\n\r\n", b"G\xe9T / HTTP/1.1\r\n\r\n",
                b"GET / HTTP/1.1\r\nTransfer-Encoding: \xe9\r\n\r\n"]
    if TIER != "thorough":
        streams = rnd.sample(streams, 260) + streams[-5:]
    for data in streams:
        for kind in ("sync", "gthread", "async"):
            n = len(data)
            for cuts in ([], [max(1, n // 2)]):
                for appname in ("ok", "early", "late"):
                    faults = [(None, None)]
                    if TIER == "thorough" or rnd.random() < 0.15:
                        faults += [(1, None), (2, None), (None, 1), (None, 2)]
                    for (rf, sf) in faults:
                        for unix in ((False, True) if (rf is None and sf is None and not cuts) else (False,)):
                            evals += 1
                            r = run(kind, data, cuts, appname, rf, sf, unix)
                            if r is not None and r[0] not in mism:
                                mism[r[0]] = {"class": r[0], "detail": r[1], "worker": kind, "input": data.decode("latin-1"), "cuts": cuts,
                                              "app": appname, "recv_fault": rf, "send_fault": sf, "unix": unix}
    print(json.dumps({"evaluations": evals, "mismatches": list(mism.values()),
                      "bound": "%d streams x 3 worker classes x 2 segmentations x 3 applications x socket faults" % len(streams)}))


if __name__ == "__main__":
    main()
