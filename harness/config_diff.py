"""Bounded stand-in for C16 (EXHAUSTIVE over gunicorn.config.KNOWN_SETTINGS for the structural assumptions of the deductive
contract, sampled for the end-to-end precedence):
 (a) assumptions of contracts/appconfig.py, for EVERY setting: the name is lower case; its argparse option (if any) has
     dest == name and default None (so a source that does not mention a setting yields None); parsing an empty command line
     yields None for every dest except 'args';
 (b) end-to-end through the REAL Application.load_config for every setting with an int / string / bool validator and a
     command-line option: all 16 subsets of {command line, GUNICORN_CMD_ARGS, configuration file, framework default} with
     pairwise distinct values (including falsy ones: 0, '' and False) - the effective value must be the normalised value
     of the most authoritative source that mentions the setting, and every OTHER setting keeps its default;
 (c) a value the validator rejects, from each source: load_config must not return normally.
"""
import itertools
import json
import os
import sys
import tempfile

ROOT = os.path.dirname(os.path.dirname(os.path.abspath(__file__)))
sys.path.insert(0, ROOT)

from gunicorn import config as C  # noqa: E402
from gunicorn.app.base import Application  # noqa: E402

TIER = os.environ.get("VERIF_TIER", "quick")


def mk_app(fw):
    class App(Application):
        def init(self, parser, opts, args):
            return dict(fw) if fw is not None else None

        def load(self):
            return None

        def chdir(self):
            pass

        def do_load_config(self):      # as Application.do_load_config but errors propagate instead of sys.exit
            self.load_default_config()
            self.load_config()
    return App


def run_app(argv, env_args, file_text, fw):
    old_argv, old_env, old_cwd = sys.argv, os.environ.get("GUNICORN_CMD_ARGS"), os.getcwd()
    d = tempfile.mkdtemp(prefix="cfgdiff")
    try:
        os.chdir(d)
        args = list(argv)
        if file_text is not None:
            p = os.path.join(d, "conf_under_test.py")
            open(p, "w").write(file_text)
            args = ["-c", p] + args
        sys.argv = ["prog"] + args
        if env_args is not None:
            os.environ["GUNICORN_CMD_ARGS"] = env_args
        else:
            os.environ.pop("GUNICORN_CMD_ARGS", None)
        app = mk_app(fw)()
        return {k: s.get() for k, s in app.cfg.settings.items()}
    finally:
        sys.argv = old_argv
        os.chdir(old_cwd)
        if old_env is None:
            os.environ.pop("GUNICORN_CMD_ARGS", None)
        else:
            os.environ["GUNICORN_CMD_ARGS"] = old_env
        for f in os.listdir(d):
            os.unlink(os.path.join(d, f))
        os.rmdir(d)


def values_for(s):
    """four pairwise distinct (raw-cli-text, python-literal-for-file, expected) values per source, or None"""
    v = s.validator
    if s.action in ("store_true", "store_false") or v is C.validate_bool:
        return None           # a flag cannot express two different values on the command line: covered by (a) + the contract
    if v is C.validate_pos_int:
        return [("0", "0", 0), ("12", "12", 12), ("13", "13", 13), ("14", "14", 14)]
    if v is C.validate_string:
        return [("", "''", ""), ("e-val", "'e-val'", "e-val"), ("f-val", "'f-val'", "f-val"), ("w-val", "'w-val'", "w-val")]
    return None


def main():
    mism = {}
    evals = 0
    settings = C.make_settings()
    # ---- (a) structural assumptions, every setting ------------------------------------------------------------
    import argparse
    parser = C.Config().parser()
    dests = {a.dest: a for a in parser._actions}
    for name, s in settings.items():
        evals += 1
        if name != name.lower():
            mism.setdefault("name-case", {"class": "setting-name-not-lower-case", "detail": name})
        if s.cli:
            a = dests.get(name)
            if a is None:
                mism.setdefault("dest", {"class": "cli-dest-differs-from-setting-name", "detail": name})
            elif a.default is not None:
                mism.setdefault("default", {"class": "cli-default-not-None", "detail": "%s default %r" % (name, a.default)})
    ns = vars(parser.parse_args([]))
    for k, v in ns.items():
        if k != "args" and v is not None:
            mism.setdefault("unmentioned", {"class": "unmentioned-option-not-None", "detail": "%s=%r" % (k, v)})
        if k != "args" and k not in settings:
            mism.setdefault("dest2", {"class": "parser-dest-is-not-a-setting", "detail": k})
    # ---- (b) precedence, end to end -----------------------------------------------------------------------------
    defaults = run_app([], None, None, None)
    names = [n for n, s in sorted(settings.items()) if s.cli and values_for(s) is not None and n not in ("config", "pythonpath", "chdir")]
    if TIER != "thorough":
        names = names[::2]
    for name in names:
        s = settings[name]
        flag = s.cli[-1]
        vals = values_for(s)
        for perm in ([vals, vals[1:] + vals[:1]] if TIER == "thorough" else [vals]):
            for subset in itertools.product((False, True), repeat=4):
                use = dict(zip(("cli", "env", "file", "fw"), subset))
                v = dict(zip(("env", "cli", "file", "fw"), perm))      # the falsy value goes to GUNICORN_CMD_ARGS first
                argv = [flag, v["cli"][0]] if use["cli"] else []
                env_args = ("%s '%s'" % (flag, v["env"][0])) if use["env"] else None
                file_text = ("%s = %s\n" % (name, v["file"][1])) if use["file"] else None
                fw = {name: v["fw"][2]} if use["fw"] else None
                evals += 1
                try:
                    got = run_app(argv, env_args, file_text, fw)
                except BaseException as e:
                    mism.setdefault("exc", {"class": "load_config-failed-on-valid-values", "detail": "%s %r: %s: %s" % (name, use, type(e).__name__, e)})
                    continue
                want = next((v[src][2] for src in ("cli", "env", "file", "fw") if use[src]), defaults[name])
                if got[name] != want:
                    mism.setdefault("precedence:" + name, {"class": "wrong-source-wins", "setting": name, "sources": use,
                                                             "detail": "%s with sources %r: effective %r, expected %r" % (name, [k for k in use if use[k]], got[name], want)})
                others = [k for k in got if k != name and k != "config" and got[k] != defaults[k] and not callable(got[k])]
                if others:
                    mism.setdefault("frame", {"class": "unmentioned-setting-changed", "detail": "%s changed while only %s was mentioned" % (others, name)})
    # ---- (c) rejected values stop startup -------------------------------------------------------------------------
    for src in ("cli", "env", "file", "fw"):
        evals += 1
        try:
            run_app(["--workers", "x"] if src == "cli" else [], "--workers x" if src == "env" else None,
                    "workers = 'x'\n" if src == "file" else None, {"workers": "x"} if src == "fw" else None)
            mism.setdefault("invalid:" + src, {"class": "rejected-value-did-not-stop-startup", "detail": "workers='x' from %s: load_config returned normally" % src})
        except BaseException:
            pass
    print(json.dumps({"evaluations": evals, "mismatches": [dict(m, check="c16") for m in mism.values()],
                      "bound": "all %d settings for the structural assumptions (exhaustive); %d settings x 16 source subsets end to end; 4 rejected-value cases" % (len(settings), len(names))}))


if __name__ == "__main__":
    main()
