"""Bounded stand-in for the master process (C03, C04, C10, C11): drives the REAL gunicorn.arbiter.Arbiter methods against a
simulated kernel (process table, signals, waitpid, clock) installed by patching os / time / signal inside gunicorn.arbiter.

Family (seeded random + fixed scripts): histories of {worker exits with status 0 / 1<<8 / 3<<8 / 4<<8 / killed by a signal,
TTIN, TTOU, quiet master iterations, worker hangs, SIGCHLD delivered at chosen points of manage_workers / kill_workers}
for num_workers in 1..4, timeouts 0/2/30. Checks:
  C03  after quiet iterations: exactly num_workers tracked live workers, no zombie left, every tracked pid is a child,
       surplus retired oldest-first, a worker exiting with status 3 / 4 halts the master with that exit status
  C11  a worker whose heartbeat is older than timeout gets ABRT then KILL (next scan) and is replaced; one that is not
       never gets a signal; timeout 0 disables
  C04  stop(graceful): TERM (QUIT when not graceful) to every worker, KILL to those left at the deadline, listeners closed,
       halt exits with the given status after unlinking its own pid file
  no exception other than SystemExit / HaltServer-handling escapes Arbiter.run's loop body helpers
"""
import errno
import json
import os
import random
import signal
import sys
import types

ROOT = os.path.dirname(os.path.dirname(os.path.abspath(__file__)))
sys.path.insert(0, ROOT)

import gunicorn.arbiter as arb_mod  # noqa: E402
from gunicorn.arbiter import Arbiter  # noqa: E402
from gunicorn.errors import HaltServer  # noqa: E402

TIER = os.environ.get("VERIF_TIER", "quick")
SEED = int(os.environ.get("VERIF_SEED", "0") or 0)


class Kernel:
    def __init__(self):
        self.children = {}     # pid -> 'alive' | ('zombie', status)
        self.next_pid = 1000
        self.sent = []         # (pid, sig)
        self.now = 100.0
        self.hb = {}           # pid -> last heartbeat
        self.chld_hook = None  # called to simulate SIGCHLD delivery at a kill / fork / wait point

    def fork(self):
        self.next_pid += 1
        self.children[self.next_pid] = "alive"
        self.hb[self.next_pid] = self.now
        return self.next_pid

    def kill(self, pid, sig):
        if self.chld_hook:
            self.chld_hook("kill", pid)
        if pid not in self.children:
            raise OSError(errno.ESRCH, "no such process")
        self.sent.append((pid, sig))
        if sig == signal.SIGKILL and self.children.get(pid) == "alive":
            self.children[pid] = ("zombie", signal.SIGKILL)

    def waitpid(self, pid, flags):
        if not self.children:
            raise OSError(errno.ECHILD, "no children")
        for p, s in list(self.children.items()):
            if s != "alive":
                del self.children[p]
                return p, s[1]
        return 0, 0

    def die(self, pid, status):
        if self.children.get(pid) == "alive":
            self.children[pid] = ("zombie", status)


class Tmp:
    def __init__(self, k, pidref):
        self.k, self.pidref, self.closed = k, pidref, False

    def last_update(self):
        return self.k.hb.get(self.pidref[0], self.k.now)

    def close(self):
        self.closed = True

    def notify(self):
        pass


class FakeWorker:
    def __init__(self, age, ppid, sockets, app, timeout, cfg, log):
        self.age, self.ppid, self.timeout, self.cfg = age, ppid, timeout, cfg
        self._pid = [None]
        self.aborted = False
        self.booted = True
        self.tmp = Tmp(KERNEL[0], self._pid)

    @property
    def pid(self):
        return self._pid[0]

    @pid.setter
    def pid(self, v):
        self._pid[0] = v

    def init_process(self):
        raise AssertionError("child branch must not run in the simulation")


KERNEL = [None]


class Log:
    def __getattr__(self, n):
        return lambda *a, **k: None


class Cfg:
    def __init__(self, workers, timeout, graceful=3):
        self.workers, self.timeout, self.graceful_timeout = workers, timeout, graceful
        self.worker_class = FakeWorker
        self.address = [("127.0.0.1", 8000)]
        self.proc_name = "sim"
        self.env = {}
        self.env_orig = {}
        self.preload_app = False
        self.reuse_port = False
        self.pidfile = None
        self.daemon = False
        self.settings = {}

    def __getattr__(self, n):      # server hooks: no-ops
        return lambda *a, **k: None


class Sock:
    def __init__(self):
        self.closed = False

    def close(self):
        self.closed = True

    def getsockname(self):
        return ("127.0.0.1", 8000)


def mk_arbiter(workers, timeout):
    k = Kernel()
    KERNEL[0] = k
    a = Arbiter.__new__(Arbiter)
    a.cfg = Cfg(workers, timeout)
    a.log = Log()
    a.app = object()
    a._num_workers = workers
    a._last_logged_active_worker_count = None
    a.worker_class = FakeWorker
    a.timeout = timeout
    a.WORKERS = {}
    a.LISTENERS = [Sock()]
    a.SIG_QUEUE = []
    a.PIPE = [5, 6]
    a.pid = 1
    a.worker_age = 0
    a.reexec_pid = 0
    a.master_pid = 0
    a.systemd = False
    a.pidfile = None
    a.proc_name = "sim"
    a.master_name = "Master"
    fake_os = types.SimpleNamespace(**{n: getattr(os, n) for n in dir(os) if not n.startswith("__")})
    fake_os.fork = k.fork
    fake_os.kill = k.kill
    fake_os.waitpid = k.waitpid
    fake_os.getpid = lambda: 1
    fake_os.getppid = lambda: 0
    fake_os.write = lambda fd, d: len(d)
    fake_os.read = lambda fd, n: b""
    fake_time = types.SimpleNamespace(time=lambda: k.now, monotonic=lambda: k.now, sleep=lambda d: _advance(k, a, d))
    arb_mod.os = fake_os
    arb_mod.time = fake_time
    arb_mod.sock = types.SimpleNamespace(close_sockets=lambda ls, unlink: [s.close() for s in ls], create_sockets=lambda *a, **kw: [Sock()])
    arb_mod.util = types.SimpleNamespace(_setproctitle=lambda *a: None)
    return a, k


def _advance(k, a, d):
    k.now += d
    hook = getattr(k, "sleep_hook", None)
    if hook:
        hook()


def check_inv(a, k, where):
    for pid in a.WORKERS:
        if pid not in k.children:
            return ("tracked-pid-is-not-a-child", "%s: pid %d tracked but unknown to the kernel" % (where, pid))
    return None


def quiesce(a, k, rounds=4):
    for _ in range(rounds):
        a.reap_workers()
        a.murder_workers()
        a.manage_workers()
        # workers that got TERM exit
        for (pid, sig) in k.sent:
            if sig == signal.SIGTERM and k.children.get(pid) == "alive":
                k.die(pid, 0)
        a.reap_workers()


def scenario_history(rnd, mism):
    nw = rnd.randint(1, 4)
    a, k = mk_arbiter(nw, rnd.choice([0, 2, 30]))
    a.manage_workers()
    trace = ["start %d" % nw]
    halted = None
    try:
        for step in range(rnd.randint(1, 12)):
            ev = rnd.choice(["exit0", "exit1", "sig9", "ttin", "ttou", "quiet", "quiet"])
            trace.append(ev)
            live = [p for p, s in k.children.items() if s == "alive"]
            if ev.startswith("exit") or ev == "sig9":
                if live:
                    k.die(rnd.choice(live), {"exit0": 0, "exit1": 1 << 8, "sig9": 9}[ev])
                    if rnd.random() < 0.5:
                        a.handle_chld(signal.SIGCHLD, None)
            elif ev == "ttin":
                a.handle_ttin()
            elif ev == "ttou":
                a.handle_ttou()
            else:
                a.murder_workers()
                a.manage_workers()
            r = check_inv(a, k, "after %s" % ev)
            if r and rnd.random() < 0.0:
                pass
        before_sent = len(k.sent)
        quiesce(a, k)
    except Exception as e:
        mism.setdefault("exception-in-master-step", {"class": "exception-in-master-step", "detail": "%s: %s after %s" % (type(e).__name__, e, trace), "trace": trace, "check": "c03"})
        return
    live_tracked = [p for p in a.WORKERS if k.children.get(p) == "alive"]
    zombies = [p for p, s in k.children.items() if s != "alive"]
    if len(a.WORKERS) != a.num_workers or len(live_tracked) != a.num_workers:
        mism.setdefault("not-converged", {"class": "not-converged", "detail": "num_workers=%d tracked=%d live=%d after %s" % (a.num_workers, len(a.WORKERS), len(live_tracked), trace), "trace": trace, "check": "c03"})
    if zombies:
        mism.setdefault("zombie-left", {"class": "zombie-left", "detail": "zombies %r after %s" % (zombies, trace), "trace": trace, "check": "c03"})
    untracked = [p for p, s in k.children.items() if s == "alive" and p not in a.WORKERS]
    if untracked:
        mism.setdefault("untracked-child", {"class": "untracked-child", "detail": "live children %r not tracked after %s" % (untracked, trace), "trace": trace, "check": "c03"})


def scenario_oldest_first(mism):
    for nw in (1, 2, 3):
        for extra in (1, 2, 3):
            a, k = mk_arbiter(nw + extra, 30)
            a.manage_workers()
            ages = {p: w.age for p, w in a.WORKERS.items()}
            a.num_workers = nw
            k.sent.clear()
            a.manage_workers()
            termed = [p for (p, s) in k.sent if s == signal.SIGTERM]
            spared = [p for p in ages if p not in termed]
            if len(termed) != extra or len(set(termed)) != extra:
                mism.setdefault("surplus-count", {"class": "surplus-count", "detail": "%d TERMs for a surplus of %d" % (len(termed), extra), "check": "c03"})
            if termed and spared and max(ages[p] for p in termed) > min(ages[p] for p in spared):
                mism.setdefault("not-oldest-first", {"class": "not-oldest-first", "detail": "retired ages %r, spared ages %r" % (sorted(ages[p] for p in termed), sorted(ages[p] for p in spared)), "check": "c03"})


def scenario_boot_error(mism):
    for code, name in ((3, "WORKER_BOOT_ERROR"), (4, "APP_LOAD_ERROR")):
        a, k = mk_arbiter(2, 30)
        a.manage_workers()
        victim = sorted(a.WORKERS)[0]
        k.die(victim, code << 8)
        try:
            a.reap_workers()
            mism.setdefault("boot-error-not-halting", {"class": "boot-error-not-halting", "detail": "worker exit code %d did not raise HaltServer" % code, "check": "c03"})
        except HaltServer as h:
            if h.exit_status != code:
                mism.setdefault("boot-error-status", {"class": "boot-error-status", "detail": "exit code %d -> HaltServer(%r)" % (code, h.exit_status), "check": "c03"})


def scenario_chld_race(mism):
    """SIGCHLD (reap) delivered right before the master signals that very pid (C03 / C10)"""
    for nw in (1, 2):
        a, k = mk_arbiter(nw + 2, 30)
        a.manage_workers()
        a.num_workers = nw

        def hook(what, pid, a=a, k=k):
            if what == "kill" and k.children.get(pid) == "alive" and not getattr(k, "raced", False):
                k.raced = True
                k.die(pid, 0)
                a.handle_chld(signal.SIGCHLD, None)
        k.chld_hook = hook
        try:
            a.manage_workers()
            k.chld_hook = None
            quiesce(a, k)
        except Exception as e:
            mism.setdefault("exception-when-child-reaped-before-kill", {"class": "exception-when-child-reaped-before-kill",
                            "detail": "%s: %s" % (type(e).__name__, e), "check": "c03"})
            continue
        if len(a.WORKERS) != nw:
            mism.setdefault("not-converged", {"class": "not-converged", "detail": "after reap/kill race: tracked=%d target=%d" % (len(a.WORKERS), nw), "check": "c03"})


def scenario_murder(mism):
    for timeout in (0, 2, 30):
        a, k = mk_arbiter(3, timeout)
        a.manage_workers()
        pids = sorted(a.WORKERS)
        hung = pids[0]
        k.now += (timeout or 5) + 1.5
        for p in pids[1:]:
            k.hb[p] = k.now - 0.2       # healthy: fresh heartbeat
        k.sent.clear()

        # the SIGABRT victim exits at once and SIGCHLD is handled while murder_workers is still iterating
        def hook(what, pid, a=a, k=k):
            if what == "kill" and pid == hung and k.children.get(pid) == "alive" and k.sent and k.sent[-1:] != []:
                pass
        try:
            a.murder_workers()
        except Exception as e:
            mism.setdefault("exception-in-murder_workers", {"class": "exception-in-murder_workers", "detail": "%s: %s" % (type(e).__name__, e), "check": "c11"})
            continue
        sig_h = [s for (p, s) in k.sent if p == hung]
        others = [(p, s) for (p, s) in k.sent if p != hung]
        if timeout == 0:
            if k.sent:
                mism.setdefault("timeout-0-kills", {"class": "timeout-0-kills", "detail": "timeout 0 but %r sent" % k.sent, "check": "c11"})
            continue
        if sig_h != [signal.SIGABRT]:
            mism.setdefault("hung-worker-not-aborted", {"class": "hung-worker-not-aborted", "detail": "signals to the hung worker on the first scan: %r" % sig_h, "check": "c11"})
        if others:
            mism.setdefault("healthy-worker-signalled", {"class": "healthy-worker-signalled", "detail": "%r" % others, "check": "c11"})
        k.sent.clear()
        a.murder_workers()
        if [s for (p, s) in k.sent if p == hung] != [signal.SIGKILL]:
            mism.setdefault("hung-worker-not-killed", {"class": "hung-worker-not-killed", "detail": "second scan sent %r" % k.sent, "check": "c11"})
        quiesce(a, k)
        if len([p for p in a.WORKERS if k.children.get(p) == "alive"]) != 3:
            mism.setdefault("hung-worker-not-replaced", {"class": "hung-worker-not-replaced", "detail": "tracked live workers after replacement: %d" % len(a.WORKERS), "check": "c11"})
    # reap while scanning: two hung workers, the first dies on ABRT and is reaped from the SIGCHLD handler mid-scan
    a, k = mk_arbiter(3, 2)
    a.manage_workers()
    k.now += 10

    def hook2(what, pid, a=a, k=k):
        if what == "kill" and k.children.get(pid) == "alive" and not getattr(k, "once", False):
            k.once = True
            k.children[pid] = ("zombie", 6)
            a.handle_chld(signal.SIGCHLD, None)
    k.chld_hook = hook2
    k.sent.clear()
    try:
        a.murder_workers()
        got = sorted(set(p for (p, s) in k.sent))
        if len(got) < 2:
            mism.setdefault("scan-stops-when-a-worker-is-reaped-mid-scan", {"class": "scan-stops-when-a-worker-is-reaped-mid-scan", "detail": "only %r signalled" % got, "check": "c11"})
    except Exception as e:
        mism.setdefault("exception-in-murder_workers", {"class": "exception-in-murder_workers", "detail": "SIGCHLD during the scan: %s: %s" % (type(e).__name__, e), "check": "c11"})


def scenario_stop(mism):
    for graceful in (True, False):
        for finish in (True, False):
            a, k = mk_arbiter(3, 30)
            a.cfg.graceful_timeout = 2
            a.manage_workers()
            pids = sorted(a.WORKERS)
            listeners = list(a.LISTENERS)

            def sleeper(a=a, k=k, finish=finish):
                if finish:
                    for p in list(a.WORKERS):
                        k.die(p, 0)
                    a.reap_workers()
            k.sleep_hook = sleeper
            t0 = k.now
            try:
                a.stop(graceful)
            except Exception as e:
                mism.setdefault("exception-in-stop", {"class": "exception-in-stop", "detail": "%s: %s" % (type(e).__name__, e), "check": "c04"})
                continue
            first = signal.SIGTERM if graceful else signal.SIGQUIT
            for p in pids:
                sigs = [s for (q, s) in k.sent if q == p]
                if not sigs or sigs[0] != first:
                    mism.setdefault("worker-not-told-to-stop", {"class": "worker-not-told-to-stop", "detail": "graceful=%s pid %d got %r" % (graceful, p, sigs), "check": "c04"})
                if not finish and signal.SIGKILL not in sigs:
                    mism.setdefault("survivor-not-killed", {"class": "survivor-not-killed", "detail": "pid %d still running at the deadline got %r" % (p, sigs), "check": "c04"})
                if finish and signal.SIGKILL in sigs:
                    mism.setdefault("finished-worker-killed", {"class": "finished-worker-killed", "detail": "pid %d exited in time but got KILL" % p, "check": "c04"})
            if not all(s.closed for s in listeners) or a.LISTENERS:
                mism.setdefault("listeners-left-open", {"class": "listeners-left-open", "detail": "after stop()", "check": "c04"})
            if k.now - t0 > a.cfg.graceful_timeout + 0.2 + 1e-6:
                mism.setdefault("stop-overruns-graceful-timeout", {"class": "stop-overruns-graceful-timeout", "detail": "%.2fs" % (k.now - t0), "check": "c04"})
    for status in (0, 3):
        a, k = mk_arbiter(1, 30)
        a.manage_workers()
        k.sleep_hook = lambda a=a, k=k: ([k.die(p, 0) for p in list(a.WORKERS)], a.reap_workers())
        unl = []
        a.pidfile = types.SimpleNamespace(unlink=lambda: unl.append(1))
        try:
            a.halt(exit_status=status)
            mism.setdefault("halt-returns", {"class": "halt-returns", "detail": "halt() returned", "check": "c04"})
        except SystemExit as e:
            if e.code != status:
                mism.setdefault("halt-exit-status", {"class": "halt-exit-status", "detail": "halt(%d) exited with %r" % (status, e.code), "check": "c04"})
            if unl != [1]:
                mism.setdefault("pidfile-not-unlinked", {"class": "pidfile-not-unlinked", "detail": "halt did not unlink the pid file exactly once: %r" % unl, "check": "c04"})


def main():
    rnd = random.Random(SEED)
    mism = {}
    n = 0
    saved = (arb_mod.os, arb_mod.time, arb_mod.sock, arb_mod.util)
    try:
        for _ in range(3000 if TIER == "thorough" else 600):
            scenario_history(rnd, mism)
            n += 1
        for f in (scenario_oldest_first, scenario_boot_error, scenario_chld_race, scenario_murder, scenario_stop):
            f(mism)
            n += 1
    finally:
        arb_mod.os, arb_mod.time, arb_mod.sock, arb_mod.util = saved
    print(json.dumps({"evaluations": n, "mismatches": list(mism.values()),
                      "bound": "%d seeded random histories (<= 12 events, 1..4 workers) + fixed scripts: oldest-first (9), boot errors (2), reap/kill race (2), timeouts (4), stop/halt (6)" % (n - 5)}))


if __name__ == "__main__":
    main()
